from props import COMMON_TB
import steps_C13

ID = "C13"
PROP = {
    "modules": ["Gnmi.Props.C13"],
    "theorems": ["Gnmi.C13." + t for t in [
        "trace_in_discipline", "trace_state", "trace_shape", "attempt_trace_facts", "attempt_trace_connect", "updates_in_stream_order", "exec_reachable", "reconnect_effective",
        "silence_after_remove", "silent_step", "remove_unregisters", "one_monitor_per_name",
        "remove_returns", "remove_wait_enabled", "remove_wait_stable",
        "retry_forever", "monitor_alive", "timer_pending", "timeout_pending",
        "add_remove_guard", "add_guard", "remove_guard", "reconnect_guard"]] + [
        "Gnmi.Manager.inv_init", "Gnmi.Manager.inv_step", "Gnmi.Manager.shape_step",
        "Gnmi.Manager.monNext_sound", "Gnmi.Manager.applyMove_sound"],
    "components": [
        {"c": "mg", "quick": {"n": 120, "exhaustive": True}, "thorough": {"n": 1000, "exhaustive": True, "seeds": 3}},
    ],
    "extra": [steps_C13.race_run],
    "monitor": "spec",
    "level": "proof",
    "trusted_base": COMMON_TB + [
        "proof of the protocol LTS (Model/ManagerLTS.lean); real timers, gRPC and context cancellation are exercised by the mg correspondence, not proved",
        "environment hypothesis: Recv fails once its context is cancelled; collaborators (credentials lookup, ConnectionManager) return when their context is cancelled",
    ],
    "assumptions": ["Recv returns an error once the stream's context is cancelled (gRPC contract)",
                    "user callbacks terminate and do not call back into the Manager",
                    "backoff delays are positive (cenkalti/backoff)"],
    "manifest": {
        "level_text": "Lean 4 theorems about a labelled transition system of manager.go (retryMonitor / monitor / handleUpdates program counters, Add / Remove / Reconnect callers, receive-timeout goroutine, the manager mutex) for every environment script and every interleaving; tied to the code by a correspondence check that drives the real manager.Manager over bufconn gRPC links to a scripted gNMI server and compares callback traces with the model's sequential schedule.",
        "level_note": "Proof of the protocol LTS; real timers/gRPC are exercised, not proved. Trusted: Lean kernel, the hand-written LTS as validated by the mg correspondence, Go runtime, gRPC.",
        "technique": "Lean 4 proof (inductive invariant of an LTS) + scripted-collaborator correspondence on the real goroutines",
        "design_ref": "DESIGN.md §8 C13, Appendix E.3",
    },
}
