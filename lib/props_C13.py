from props import COMMON_TB
import steps_C13

ID = "C13"
PROP = {
    "modules": ["Gnmi.Props.C13", "Gnmi.Props.C13Prog", "Gnmi.Props.C13Shared", "Gnmi.Props.C13Hops",
                "Gnmi.GenProps.ManagerCreateConn"],
    "theorems": ["Gnmi.C13." + t for t in [
        "trace_in_discipline", "trace_state", "trace_shape", "attempt_trace_facts", "attempt_trace_connect", "updates_in_stream_order", "exec_reachable", "reconnect_effective",
        "silence_after_remove", "silent_step", "remove_unregisters", "one_monitor_per_name",
        "remove_returns", "remove_wait_enabled", "remove_wait_stable",
        "retry_forever", "monitor_alive", "timer_pending", "timeout_pending",
        "add_remove_guard", "add_guard", "remove_guard", "reconnect_guard"]] + [
        "Gnmi.Manager.inv_init", "Gnmi.Manager.inv_step", "Gnmi.Manager.shape_step",
        "Gnmi.Manager.monNext_sound", "Gnmi.Manager.applyMove_sound"] + ["Gnmi.C13Prog." + t for t in [
        "MonRun.toRun", "MonRun.facts", "OwnStep.step", "OwnRun.toRun",
        "attempt_progress", "next_attempt_reached", "next_attempt_reached_over",
        "recv_cancelled_reset", "release_lock", "cancelled_forces_reset", "reconnect_held_forces_reset",
        "reconnect_forces_reset", "timeout_forces_reset", "recon_pending_stable", "timeout_armed_stable", "tmoOK_reach",
        "reset_exactly_once",
        "managed_not_terminal", "managed_not_terminal_of", "managed_not_terminal_needs_hyp",
        "managed_between", "one_more_attempt", "retry_forever_run"]] + ["Gnmi.C13Shared." + t for t in [
        # targets sharing an address: the manager LTS composed with the connection-manager LTS (C16)
        "step_req", "PReach.mgr", "PReach.conn", "pinv_init", "pinv_step", "pinv_reach",
        "shared_never_closed_while_held", "sharers_share_one_connection",
        "failed_shared_dial_forgotten", "retry_after_failed_shared_dial_dials_afresh"]] + ["Gnmi.C13Hops." + t for t in [
        # createConn's next-hop loop, uniqueNextHops, customizeRequest, Config.Timeout (Model/ManagerHops.lean)
        "uniqueNextHops_spec", "nextHopOf_spec",
        "createConn_first_success", "createConn_success_calls", "createConn_each_hop_once", "createConn_all_fail",
        "createConn_ctx_between_hops", "createConn_ledger", "createConn_defers", "createConn_success_ctx_cancelled",
        "createConn_slow_hop", "loop_ending",
        "hstep_refines", "HReach.greach", "HReach.reach", "hinv_init",
        "hops_acquire_only_on_success", "hops_ledger", "hops_held_le_one", "hops_released_when_idle",
        "hops_release_once", "hops_trace_in_discipline", "hops_each_hop_once", "hops_no_call_after_success",
        "hops_defers",
        "customizeRequest_spec",
        "hopNext_sound", "hopNext_progress", "hopRun_returns", "hopRun_createConn", "hopRun_run", "dial_returns",
        "cancelled_leads_to_new_attempt", "reconnect_leads_to_new_attempt_partial", "timeout_leads_to_new_attempt_partial"]] + [
        # the model's createConn loop = the loop body regenerated from manager.go, folded over the hops (docs/GEN_TIE.md)
        "Gnmi.GenProps.ManagerCreateConn." + t for t in ["tie_loop", "tie_createConn", "tie_defer"]],
    "components": [
        {"c": "mg", "quick": {"n": 120, "exhaustive": True}, "thorough": {"n": 1000, "exhaustive": True, "seeds": 3}},
        # createConn / uniqueNextHops / customizeRequest through their seams, and whole sessions with Config.Timeout
        {"c": "mh", "quick": {"n": 25, "exhaustive": True}, "thorough": {"n": 300, "exhaustive": True, "seeds": 3}},
    ],
    "extra": [steps_C13.race_run],
    "monitor": "spec",
    "level": "proof",
    "trusted_base": COMMON_TB + [
        "proof of the protocol LTS (Model/ManagerLTS.lean); real timers, gRPC and context cancellation are exercised by the mg correspondence, not proved",
        "environment hypothesis: Recv fails once its context is cancelled; collaborators (credentials lookup, ConnectionManager) return when their context is cancelled",
        "targets sharing an address: the composition Props/C13Shared.lean (every Connection call of a monitor goroutine is a requester of the "
        "connection-manager LTS Model/ConnLTS.lean for the target's address; monitor's deferred done is that requester's done) as a description "
        "of manager.go + connection.go together; validated by the `mg shared` scenarios (real manager.Manager on the real connection.Manager, "
        "2-3 targets on one address, joint first dial refused / cancelled), not proved",
        "createConn's next-hop loop: the hop-level LTS of Model/ManagerHops.lean (one `select` and one Connection call per "
        "transition; every Connection call returns; a Go map iteration = some duplicate-free order of the key set) is PROVED to "
        "refine the manager LTS (Props/C13Hops.lean); that it describes manager.go's createConn / uniqueNextHops / customizeRequest "
        "is validated by the mh correspondence (the three functions through add-only seams on scripted ConnectionManagers, and "
        "whole sessions of the real Manager with Config.Timeout set, also on the real connection.Manager), not proved",
    ],
    "assumptions": ["Recv returns an error once the stream's context is cancelled (gRPC contract)",
                    "user callbacks terminate and do not call back into the Manager",
                    "backoff delays are positive (cenkalti/backoff)"],
    "manifest": {
        "level_text": "Lean 4 theorems about a labelled transition system of manager.go (retryMonitor / monitor / handleUpdates program counters, Add / Remove / Reconnect callers, receive-timeout goroutine, the manager mutex) for every environment script and every interleaving; tied to the code by a correspondence check that drives the real manager.Manager over bufconn gRPC links to a scripted gNMI server and compares callback traces with the model's sequential schedule. Progress is proved in run form (Props/C13Prog.lean): an attempt is a finite path of the goroutine's own steps to the next attempt; a fired receive timeout / forced Reconnect leads to exactly one Reset and a new attempt (exactly one under every schedule); a managed target has an enabled step of its own except when it legitimately waits on a silent stream without receive timeout; n further attempts for every n. createConn's next-hop loop (Props/C13Hops.lean, Model/ManagerHops.lean): the loop over uniqueNextHops as a function (first success in iteration order, each hop once, all fail, cancelled between hops, the deferred cancels of the Config.Timeout contexts, the hop outcome timedOut) for every address list / outcome script / order, as a hop-level LTS proved to refine the manager LTS (so every theorem above holds of multi-hop targets), customizeRequest (prefix.target := name on a clone; the configured request is not written to), and timeout_leads_to_new_attempt_partial / reconnect_leads_to_new_attempt_partial (with m.mu free): the next attempt's multi-hop dial returns; tied to the code by the mh correspondence.",
        "level_note": "Proof of the protocol LTS; real timers/gRPC are exercised, not proved. Trusted: Lean kernel, the hand-written LTS as validated by the mg correspondence, Go runtime, gRPC.",
        "technique": "Lean 4 proof (inductive invariant of an LTS) + scripted-collaborator correspondence on the real goroutines",
        "design_ref": "DESIGN.md §8 C13, Appendix E.3",
    },
}
