"""C12, receive surfaces other than cache ingest (component `rx`): merged into lib/props_C12.py."""
import steps_C12

SURF_PROP = {
    "modules": ["Gnmi.Props.C12Surfaces"],
    "theorems": ["Gnmi.C12S." + t for t in [
        "subscribe_total", "make_response_total", "make_response_total_nonnil",
        "client_recv_total", "recv_total_generic", "client_rejected_preserves", "client_rejected_first_unit",
        "cli_display_total", "display_walk_total", "pathmap_add_panic_iff",
        "manager_handle_total"]],
    "components": [
        {"c": "rx", "quick": {"n": 2500, "exhaustive": True}, "thorough": {"n": 30000, "exhaustive": True, "seeds": 4}},
    ],
    "extra": [steps_C12.rx_monitor, steps_C12.conc_race],
    "trusted_base": [
        "receive-surface models lean/Gnmi/Model/RecvSurfaces.lean (Subscribe handler, client/gnmi Recv/defaultRecv/noti + "
        "value.ToScalar, CacheClient.defaultHandler over the ctree model of C09, cli.QueryDisplay handlers/displayWalk/"
        "pathmap, manager.handleGNMIUpdate), tied to the code by the rx correspondence (real code in-process: in-memory "
        "Subscribe stream, scripted GNMIClient under the real transport client, capturing cli Display, overlay seams "
        "subscribe.VerifIsTargetDelete / manager.VerifHandleGNMIUpdate / client/gnmi.VerifNewScripted)",
        "third-party code on these surfaces is a parameter or trusted, not modelled: encoding/json (jv: which payloads "
        "json.Unmarshal accepts - the theorems hold for every jv), prototext + txtpbfmt + fmt (proto/shortproto display "
        "shows a response opaquely), time.Format, proto.Clone (modelled: nil entries of a repeated field come back as "
        "empty messages; validated by `rx mk`), glog",
        "goroutine structure of Server.Subscribe is modelled on the quiescent single-request schedule of the harness "
        "(no concurrent cache writes; coalesce counts are a universally quantified parameter `dup`); interleavings are C04-C08",
    ],
    "assumptions": [
        "WireValid (Response.wireValid / Notification.wireValid / Stored.wireValid): what proto.Unmarshal can produce - the "
        "received message pointer is non-nil, no nil entry in a repeated message field (Notification.update/delete, "
        "ScalarArray.element), a set message-typed oneof arm has a payload (SubscribeResponse.update, TypedValue.decimal_val/"
        "leaflist_val). The partial operations behind these (resp.Response on a nil response, n.Prefix on a nil notification, "
        "u.Path on a nil entry, decimalToFloat(nil), tv.Value on a nil element, v.Prefix/len(v.Delete) on a typed-nil stored "
        "notification) are modelled with panic arms, generated (non-WireValid tokens X, U!, !, m!, l!, l(N)) and observed to "
        "panic on both sides; the theorems exclude exactly them",
        "subscribe_total needs no hypothesis on the request; its cache hypothesis is that stored leaf values are decoded "
        "notifications or non-notifications (what Cache.GnmiUpdate stores)",
        "cli_display_total: the Display callback, Config.Location/layout and the client Impl registration are local "
        "configuration, not remote input; Count=1 for polling (one Poll cycle), no latency/filter options",
        "client_rejected_preserves is stated per update unit, like the cache's rejected_preserves: units of a notification "
        "accepted before the rejected unit stay applied (defaultRecv hands each unit to the handler as it is decoded)",
        "not remote-controlled, noted only: peer.Addr on a context without a gRPC peer (Subscribe, sendStreamingResults), "
        "Client.Peer() indexing query.Addrs[0] (validated by Destination.Validate), nil NotificationHandler (Query.Validate)",
    ],
    "level_text_part":
        "Receive surfaces (Props/C12Surfaces.lean over Model/RecvSurfaces.lean): subscribe_total (Server.Subscribe request "
        "validation, addSubscription, processSubscription/CompletePath/Query, sendStreamingResults, MakeSubscribeResponse, "
        "isTargetDelete: every request x every cache of decoded notifications x every coalescing count), make_response_total, "
        "client_recv_total (gNMI transport Recv/defaultRecv/noti/value.ToScalar + CacheClient handler + ctree: every sequence of "
        "WireValid responses, tree stays prefix-free), client_rejected_preserves (a rejected response / update unit leaves the "
        "client tree as the accepted units before it left it), cli_display_total (5 display types x 4 query types x 4 timestamp "
        "settings x every WireValid response sequence; the unchecked assertion mm.(pathmap) in pathmap.add is discharged by "
        "prefix-freeness of the client tree: pathmap_add_panic_iff, display_walk_total), manager_handle_total. The rx "
        "correspondence pushes an exhaustive scope of small weird messages (prefix x path x value arm x atomic x encoding, nil "
        "entries, every response kind) and random larger ones through the real code of each surface.",
}
