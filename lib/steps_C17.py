"""C17: regenerated structural facts of target/target.go (DESIGN §5.2) compared with the
expectations the Lean model Gnmi/Model/TargetCfg.lean encodes.  A changed fact breaks the tie
even when no generated input exercises it; the correspondence that runs afterwards is the
search for a failing input."""
import json, os, subprocess

import vcheck
import genprops

# fact -> (expected value, the model definition that encodes it)
EXPECT = {
    "target.checkRevision.cmp": (
        ["c.configuration == nil", "cf.Revision <= c.configuration.GetRevision()"],
        "TargetCfg.checkRevision: `none => true`, `if cf.revision ≤ c.revision then false` (theorem C17.checkRevision_iff)"),
    "target.Load.order": (
        ["Validate", "c.mu.Lock", "defer c.mu.Unlock", "c.checkRevision", "c.handleDiffs", "c.configuration = config"],
        "TargetCfg.load: validate, then (one critical section) checkRevision, handleDiffs on the *old* state, "
        "the new state (theorem C17.load_gate; sequential model justified by the lock)"),
    "target.Validate.arms": (
        ['name == ""', "target == nil", "len(target.Addresses) == 0", 'target.Request == ""',
         "_, ok := config.Request[target.Request]; !ok"],
        "TargetCfg.validateTarget: five arms in this order (theorem C17.validate_iff)"),
    "target.handleDiffs.handler_calls": (
        ["c.h.Delete guarded=true", "c.h.Update guarded=true", "c.h.Add guarded=true"],
        "TargetCfg.diffOld / addLeft: emitIf h.delete / h.update / h.add (theorem C17.nil_handlers_filter)"),
    "target.handleDiffs.receiver_writes": (
        None,
        "TargetCfg.handleDiffs returns calls only: a read-only diff of the state (theorem C17.load_gate: state = the loaded configuration)"),
    "target.Current.returns": (
        ["proto.Clone(c.configuration).(*pb.Configuration)"],
        "TargetCfg.current = cur (proto.Clone is the identity on values)"),
}


def facts(ctx, cfg):
    tool, out = vcheck.go_build(ctx, "tgfacts")
    if tool is None:
        ctx.problems.append(("build", "fact extractor build failed:\n" + out[-2000:], None))
        return
    r = subprocess.run([tool, os.path.join(vcheck.REPO, "target", "target.go")], capture_output=True, text=True)
    try:
        got = json.loads(r.stdout)
    except Exception:
        ctx.problems.append(("fact", "fact extractor failed on target/target.go: " + (r.stderr or r.stdout)[-1000:], None))
        for name in EXPECT:
            ctx.obligations.append(("fact " + name, False, "extractor failed"))
        return
    bad = 0
    for name, (want, where) in sorted(EXPECT.items()):
        have = got.get(name, "<function not found>")
        ok = have == want
        if not ok and genprops.excused(ctx, name):
            mods = genprops.excused(ctx, name)
            ctx.obligations.append(("fact " + name, True, "source text changed (now %r); subsumed: the definition regenerated "
                                    "from the source is proved equal to the model (Gnmi.GenProps.%s)" % (have, ", ".join(mods))))
            vcheck.log("  fact %s: text changed, subsumed by the discharged obligations of %s (harmless rewrite)" % (name, ", ".join(mods)))
            continue
        ctx.obligations.append(("fact " + name, ok, where if ok else "expected %r, source has %r" % (want, have)))
        if not ok:
            bad += 1
            ctx.problems.append(("fact", "fact %s changed: the model assumes %r (%s); target/target.go now has %r"
                                 % (name, want, where, have), None))
    vcheck.log("  facts: %d checked against target/target.go, %d changed" % (len(EXPECT), bad))
