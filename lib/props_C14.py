from cacheprops import CACHE_TB, CACHE_ASSUMPTIONS, ca_component, MD_COMPONENT, MD_TB

import facts

ID = "C14"

# the metadata object itself (metadata/metadata.go; model lean/Gnmi/Model/Metadata.lean): what Clear / ResetEntry do
# to every registered entry, for every registry contents and every history of operations
META_THEOREMS = ["Gnmi.C14Meta." + t for t in [
    "clear_initial", "clear_bool_false", "clear_int_zero", "clear_int_deleted", "clear_str_default", "clear_str_deleted",
    "clear_str_keep", "clear_shadowed", "clear_eq_resetEntries", "clear_any_order", "clear_idempotent",
    "resetEntry_idempotent", "clear_eq_new", "history_clear_eq_new", "keep_survives", "serverName_survives",
    "registerServerName_keep", "step_frame", "run_frame", "frame_getInt", "frame_getBool", "frame_getStr", "frame_path",
    "get_unregistered", "set_unregistered", "resetEntry_unregistered", "get_after_set", "addInt_sums",
    "getInt_after_setInt", "getInt_after_reset", "getInt_after_delete", "equiv_trace", "clear_abs",
    "cache_reset_keeps_serverName", "cache_addWith_sinv", "cache_addWith_get"]]
PROP = {
    "modules": ["Gnmi.Props.C14", "Gnmi.Props.C03Sim", "Gnmi.Props.C14Meta"],
    "theorems": ["Gnmi.C14." + t for t in [
        "frame", "query_frame", "step_cfg", "remove_forgets", "remove_event_covers", "reset_clears",
        "reset_event_covers", "dropRoots_events", "reset_initial_metadata"]] + ["Gnmi.Cache.reset_ok", "Gnmi.Cache.step_sinv",
        "Gnmi.Cache.reset_flags", "Gnmi.Cache.generateMetaUpdates_flags", "Gnmi.Feed.reset_sim", "Gnmi.C03.cache_replay_unknown_empty"] + META_THEOREMS,
    "components": [ca_component("c14"), MD_COMPONENT],
    "monitor": "spec", "level": "proof",
    "trusted_base": CACHE_TB + MD_TB, "assumptions": CACHE_ASSUMPTIONS + [
        "Reset returns the counters and the sync/connected flags of the metadata *object* to their initial values; the meta/... leaves "
        "show them after the refresh provided the clock reading is not older than the stored metadata leaves (non-decreasing clock)",
        "ending of single-target subscriptions on Remove is decided with the subscribe model (C04/C05 sender step isTargetDelete)",
        "metadata objects are created by metadata.New (a zero metadata.Metadata{} has nil maps and panics on every write); the "
        "package-level registries are changed from one goroutine (the package documents them as not thread-safe)",
    ],
    "manifest": {
        "level_text": "Lean 4 theorems over the multi-target cache model, for every reachable state: frame (no API call addressed to T changes "
                      "anything stored or returned for U != T), remove_forgets (unknown to HasTarget/Query/GnmiUpdate afterwards, exactly one "
                      "whole-target delete announced, which matches every leaf index of T), reset_clears (only metadata leaves remain, leaf counters "
                      "zero and truthful, latest timestamp cleared, a delete T/<root>/* announced for every non-metadata leaf that was stored), "
                      "reset_initial_metadata (not synced, not connected, no address, no connect error, counters zero: the refresh inside Reset writes back "
                      "exactly what it read), and — from the whole-cache feed simulation of C03 — a subscriber-side replica built from the announced "
                      "events alone follows Reset and Remove exactly (Feed.reset_sim, cache_replay_unknown_empty: nothing of a removed target survives). "
                      "Tied to cache/cache.go by the ca correspondence with 1-3 targets, overlapping path sets and interleaved lifecycle calls "
                      "(caches created with and without WithServerName: the serverName string registered with ResetAction Keep survives Reset in "
                      "Metadata(), in the stored meta/serverName leaf and in the announced events). The metadata object Reset clears is modelled "
                      "on its own (Model/Metadata.lean, arm by arm: registries, New, ResetEntry, Clear, Add/Set/Get with their error arms) with "
                      "theorems for every registry contents and every history of operations: clear_initial (after Clear every registered bool "
                      "reads false, every counter 0, delete-on-reset ints and strings are unset, default strings are empty, a Keep string reads "
                      "exactly what it read before), clear_eq_resetEntries / clear_any_order (Clear = ResetEntry on every registered entry in any "
                      "order), clear_idempotent, history_clear_eq_new (whatever happened before, after Clear every non-Keep name reads as on New()), "
                      "keep_survives (a Keep string survives any number of Clear/ResetEntry), step_frame, the error arms, addInt_sums, clear_abs "
                      "(under the cache's registries Clear is exactly the cache model's md := Meta.clear, server name untouched); tied to "
                      "metadata/metadata.go by the md correspondence (exhaustive depth-3 scope over 18 operations + seeded random histories with "
                      "register/unregister calls in the middle, raw value maps observed).",
        "level_note": "Trusted: Lean kernel; model validated by the ca correspondence; Go runtime. Assumes non-empty target names, serialised writers.",
        "technique": "Lean 4 proof (frame lemmas over the target map, invariant-based Reset theorem) + model/implementation correspondence",
    },
}
PROP.setdefault("pre", []).append(facts.make_step(['cache.reset.order', 'cache.remove.announces']))
