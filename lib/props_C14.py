from cacheprops import CACHE_TB, CACHE_ASSUMPTIONS, ca_component, MD_COMPONENT, MD_TB

import facts

ID = "C14"

# the metadata object itself (metadata/metadata.go; model lean/Gnmi/Model/Metadata.lean): what Clear / ResetEntry do
# to every registered entry, for every registry contents and every history of operations
META_THEOREMS = ["Gnmi.C14Meta." + t for t in [
    "clear_initial", "clear_bool_false", "clear_int_zero", "clear_int_deleted", "clear_str_default", "clear_str_deleted",
    "clear_str_keep", "clear_shadowed", "clear_eq_resetEntries", "clear_any_order", "clear_idempotent",
    "resetEntry_idempotent", "clear_eq_new", "history_clear_eq_new", "keep_survives", "serverName_survives",
    "registerServerName_keep", "step_frame", "run_frame", "frame_getInt", "frame_getBool", "frame_getStr", "frame_path",
    "get_unregistered", "set_unregistered", "resetEntry_unregistered", "get_after_set", "addInt_sums",
    "getInt_after_setInt", "getInt_after_reset", "getInt_after_delete", "equiv_trace", "clear_abs",
    "cache_reset_keeps_serverName", "cache_addWith_sinv", "cache_addWith_get"]]
PROP = {
    "modules": ["Gnmi.Props.C14", "Gnmi.Props.C03Sim", "Gnmi.Props.C14Meta"],
    "theorems": ["Gnmi.C14." + t for t in [
        "frame", "query_frame", "step_cfg", "remove_forgets", "remove_event_covers", "reset_clears",
        "reset_event_covers", "dropRoots_events", "reset_initial_metadata"]] + ["Gnmi.Cache.reset_ok", "Gnmi.Cache.step_sinv",
        "Gnmi.Cache.reset_flags", "Gnmi.Cache.generateMetaUpdates_flags", "Gnmi.Feed.reset_sim", "Gnmi.C03.cache_replay_unknown_empty"] + META_THEOREMS,
    "components": [ca_component("c14"), MD_COMPONENT],
    "monitor": "spec", "level": "proof",
    "trusted_base": CACHE_TB + MD_TB, "assumptions": CACHE_ASSUMPTIONS + [
        "Reset returns the counters and the sync/connected flags of the metadata *object* to their initial values; the meta/... leaves "
        "show them after the refresh provided the clock reading is not older than the stored metadata leaves (non-decreasing clock)",
        "ending of single-target subscriptions on Remove is proved over the sequential subscribe model (Props/C14Sub.lean; the model is tied to "
        "subscribe/subscribe.go by the su correspondence of C04/C05/C07/C08 and the corpus case corpus/C14/remove_ends_subscriptions.ops): it covers "
        "STREAM subscriptions that registered at least one path; POLL/ONCE subscriptions and STREAM subscriptions with an empty subscription list "
        "register nothing and are not ended by Remove (model and code agree: remove_unregistered_unaffected, not_every_single_target_subscription)",
        "metadata objects are created by metadata.New (a zero metadata.Metadata{} has nil maps and panics on every write); the "
        "package-level registries are changed from one goroutine (the package documents them as not thread-safe)",
    ],
    "manifest": {
        "level_text": "Lean 4 theorems over the multi-target cache model, for every reachable state: frame (no API call addressed to T changes "
                      "anything stored or returned for U != T), remove_forgets (unknown to HasTarget/Query/GnmiUpdate afterwards, exactly one "
                      "whole-target delete announced, which matches every leaf index of T), reset_clears (only metadata leaves remain, leaf counters "
                      "zero and truthful, latest timestamp cleared, a delete T/<root>/* announced for every non-metadata leaf that was stored), "
                      "reset_initial_metadata (not synced, not connected, no address, no connect error, counters zero: the refresh inside Reset writes back "
                      "exactly what it read), and — from the whole-cache feed simulation of C03 — a subscriber-side replica built from the announced "
                      "events alone follows Reset and Remove exactly (Feed.reset_sim, cache_replay_unknown_empty: nothing of a removed target survives). "
                      "Tied to cache/cache.go by the ca correspondence with 1-3 targets, overlapping path sets and interleaved lifecycle calls "
                      "(caches created with and without WithServerName: the serverName string registered with ResetAction Keep survives Reset in "
                      "Metadata(), in the stored meta/serverName leaf and in the announced events). The metadata object Reset clears is modelled "
                      "on its own (Model/Metadata.lean, arm by arm: registries, New, ResetEntry, Clear, Add/Set/Get with their error arms) with "
                      "theorems for every registry contents and every history of operations: clear_initial (after Clear every registered bool "
                      "reads false, every counter 0, delete-on-reset ints and strings are unset, default strings are empty, a Keep string reads "
                      "exactly what it read before), clear_eq_resetEntries / clear_any_order (Clear = ResetEntry on every registered entry in any "
                      "order), clear_idempotent, history_clear_eq_new (whatever happened before, after Clear every non-Keep name reads as on New()), "
                      "keep_survives (a Keep string survives any number of Clear/ResetEntry), step_frame, the error arms, addInt_sums, clear_abs "
                      "(under the cache's registries Clear is exactly the cache model's md := Meta.clear, server name untouched); tied to "
                      "metadata/metadata.go by the md correspondence (exhaustive depth-3 scope over 18 operations + seeded random histories with "
                      "register/unregister calls in the middle, raw value maps observed).",
        "level_note": "Trusted: Lean kernel; model validated by the ca correspondence; Go runtime. Assumes non-empty target names, serialised writers.",
        "technique": "Lean 4 proof (frame lemmas over the target map, invariant-based Reset theorem) + model/implementation correspondence",
    },
}
PROP.setdefault("pre", []).append(facts.make_step(['cache.reset.order', 'cache.remove.announces']))

# C14 clause "removing a target ends single-target subscriptions to it cleanly", over the sequential code-shaped Subscribe
# model (Model/Subscribe.lean) for every history of SubEnd.Op operations (all of C07.Op + cache API calls + pregate).
from subprops import SUB_TB as _SUB_TB
PROP["modules"] += ["Gnmi.Lemmas.SubscribeEnd", "Gnmi.Props.C14Sub"]
PROP["theorems"] += ["Gnmi.C14Sub." + t for t in [
    "remove_ends_single_target_stream", "remove_ends_single_target_stream_fields", "remove_ends_single_target_stream_grun",
    "remove_keeps_star_subscribers", "remove_keeps_star_subscribers_fields", "remove_other_target_unaffected",
    "remove_gated_pending", "remove_gated_ends_on_open", "remove_gated_ends_eventually",
    "remove_unregistered_unaffected", "not_every_single_target_subscription", "remove_star_ends_others",
    # non-vacuity
    "st0_reachable", "st0_subs", "st0_after_remove", "st0_after_open",
]] + ["Gnmi.SubEnd." + t for t in [
    "pump_frame", "pump_quiet", "subscribe_inv", "step_pointwise", "step_at", "run_at", "run_inv", "reachable_inv",
    "hrun_eq", "grun_eq", "c07run_eq", "reachable_hrun", "reachable_grun", "reachable_c07",
    "offeredR_td_true", "offeredR_td_false", "feedSub_not_offered", "feedSub_td_ends", "feedSub_td_star", "feedSub_td_gated",
    "pump_open_cut", "gateF_open_cut", "cutTD_last", "subStep_blocked_notes", "subRun_blocked_notes",
]]
PROP["trusted_base"] = PROP["trusted_base"] + [x for x in _SUB_TB if x not in PROP["trusted_base"]]
PROP["manifest"]["level_text"] += (
    " The clause 'removing a target ends single-target subscriptions to it cleanly' is proved over the sequential code-shaped Subscribe "
    "model (Props/C14Sub.lean) for every state reachable by any history of subscriptions (any mode/ACL/request), cache API calls, arbitrary "
    "feed events, polls, EOF, flow-control operations, timeouts and drains, with no side condition on the history: "
    "remove_ends_single_target_stream (a running STREAM subscriber on T with flow control open and at least one subscription path is sent "
    "exactly the whole-target delete and its RPC returns OK; nothing else of it changes), remove_keeps_star_subscribers (an all-targets "
    "subscriber stays and is sent the delete, or nothing if its ACL hides T), remove_other_target_unaffected (subscribers on U != T: unchanged), "
    "remove_gated_pending / remove_gated_ends_on_open / remove_gated_ends_eventually (flow control shut: nothing is sent, the delete is the last "
    "response waiting; at gateOpen - immediately or after any operations that are not the subscriber's own - it is sent what is waiting up to "
    "and including the first whole-target delete and ends OK). Not covered, in model and code alike (replayed: corpus/C14/remove_ends_subscriptions.ops): "
    "POLL/ONCE subscriptions and STREAM subscriptions with an empty subscription list register nothing and are not ended "
    "(remove_unregistered_unaffected, not_every_single_target_subscription); Remove of a target literally named '*' ends single-target streams on "
    "other targets (remove_star_ends_others).")
