from cacheprops import CACHE_TB, CACHE_ASSUMPTIONS, ca_component

import facts

ID = "C14"
PROP = {
    "modules": ["Gnmi.Props.C14", "Gnmi.Props.C03Sim"],
    "theorems": ["Gnmi.C14." + t for t in [
        "frame", "query_frame", "step_cfg", "remove_forgets", "remove_event_covers", "reset_clears",
        "reset_event_covers", "dropRoots_events", "reset_initial_metadata"]] + ["Gnmi.Cache.reset_ok", "Gnmi.Cache.step_sinv",
        "Gnmi.Cache.reset_flags", "Gnmi.Cache.generateMetaUpdates_flags", "Gnmi.Feed.reset_sim", "Gnmi.C03.cache_replay_unknown_empty"],
    "components": [ca_component("c14")],
    "monitor": "spec", "level": "proof",
    "trusted_base": CACHE_TB, "assumptions": CACHE_ASSUMPTIONS + [
        "Reset returns the counters and the sync/connected flags of the metadata *object* to their initial values; the meta/... leaves "
        "show them after the refresh provided the clock reading is not older than the stored metadata leaves (non-decreasing clock)",
        "ending of single-target subscriptions on Remove is decided with the subscribe model (C04/C05 sender step isTargetDelete)",
    ],
    "manifest": {
        "level_text": "Lean 4 theorems over the multi-target cache model, for every reachable state: frame (no API call addressed to T changes "
                      "anything stored or returned for U != T), remove_forgets (unknown to HasTarget/Query/GnmiUpdate afterwards, exactly one "
                      "whole-target delete announced, which matches every leaf index of T), reset_clears (only metadata leaves remain, leaf counters "
                      "zero and truthful, latest timestamp cleared, a delete T/<root>/* announced for every non-metadata leaf that was stored), "
                      "reset_initial_metadata (not synced, not connected, no address, no connect error, counters zero: the refresh inside Reset writes back "
                      "exactly what it read), and — from the whole-cache feed simulation of C03 — a subscriber-side replica built from the announced "
                      "events alone follows Reset and Remove exactly (Feed.reset_sim, cache_replay_unknown_empty: nothing of a removed target survives). "
                      "Tied to cache/cache.go by the ca correspondence with 1-3 targets, overlapping path sets and interleaved lifecycle calls.",
        "level_note": "Trusted: Lean kernel; model validated by the ca correspondence; Go runtime. Assumes non-empty target names, serialised writers.",
        "technique": "Lean 4 proof (frame lemmas over the target map, invariant-based Reset theorem) + model/implementation correspondence",
    },
}
PROP.setdefault("pre", []).append(facts.make_step(['cache.reset.order', 'cache.remove.announces']))
