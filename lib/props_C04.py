from subprops import SUB_TB, SUB_ASSUMPTIONS, su_component
import facts

ID = "C04"
LTS_TB = [
    "protocol LTS lean/Gnmi/Model/SubscribeLTS.lean (abstract keys/values/generations; writer W1 tree write then W2 notify, handler "
    "register-then-walk, walker, sender) — that its atomic sections are the code's is validated by the regenerated facts "
    "(subscribe.stream.order, cache.update.writeThenNotify, ...), the su correspondence and hook-placed writes, not proved "
    "(lean/Gnmi/Props/SUBLTS_README.md lists every abstraction)",
    "assumptions imported into the LTS: offered = compatible, once per notification (C06); a walk visits every key present throughout "
    "(C10 query_stability); coalescing queue semantics (C11); per-key serialised writers",
]
PROP = {
    "modules": ["Gnmi.Props.C04"],
    "theorems": ["Gnmi.C04." + t for t in [
        "inv_init", "inv_step", "inv_reach", "no_missed_change", "converges", "converges_streamed_only", "coalesced_is_newest",
        "one_sync", "sync_position_updates_only", "sync_position", "sync_position_delete_clause_fails", "swap_breaks", "unserialised_breaks"]],
    "pre": [facts.make_step(["subscribe.stream.order", "cache.update.writeThenNotify", "subscribe.feed.calls", "subscribe.walk.order",
                             "subscribe.updateNotification.set"])],
    "components": [su_component(""), su_component("c08", 150, 1500),
                   # coalesce.go is anchored here too: the queue under its window hooks (C11 is its own property)
                   {"c": "co", "quick": {"n": 1500}, "thorough": {"n": 8000, "seeds": 2}}],
    "monitor": "spec", "level": "proof",
    "trusted_base": SUB_TB + LTS_TB, "assumptions": SUB_ASSUMPTIONS,
    "manifest": {
        "level_text": "Lean 4 theorems about the Subscribe protocol LTS, for any number of targets, writers and subscribers, any path sets, "
                      "updates_only on/off and ALL interleavings: the inductive invariant no_missed_change (inv_init/inv_step/inv_reach), converges "
                      "(at quiescence replay(sent)(k) = cache(k) for every matched, allowed key of a registered STREAM subscriber; "
                      "converges_streamed_only for compatible-but-not-matched keys: cache value or nothing, never stale), coalesced_is_newest, "
                      "one_sync, sync_position (+ a decided counterexample to the looser delete clause), swap_breaks (walk before registration "
                      "reaches a quiescent non-converged configuration: the theorem really depends on the extracted fact), unserialised_breaks. "
                      "Partial: goroutine scheduling below the LTS's atomic sections and gRPC flow control are validated, not proved — by "
                      "regenerated facts (registration before walk, write then notify), the su correspondence on the real server with cache "
                      "writes placed in the registration/walk window through verif schedule points, and a model-independent replay monitor.",
        "level_note": "Trusted: Lean kernel; the LTS as a description of the code (facts + correspondence + hooks); sequential model validated by su. "
                      "Assumes per-key serialised writers (the collector's periodic metadata refresh is outside: unserialised_breaks shows why).",
        "technique": "Lean 4 proof (inductive invariant of a protocol LTS over all interleavings) + regenerated source facts + hook-driven "
                     "model/implementation correspondence on the real Subscribe server",
    },
}

# C04 over the sequential, code-shaped Subscribe model (Props/C04Seq.lean): see docs/STREAM_SEQ_NOTES.md
from c04seq_part import MODULES as _SEQ_MODULES, THEOREMS as _SEQ_THEOREMS
PROP["modules"] += _SEQ_MODULES
PROP["theorems"] += _SEQ_THEOREMS
PROP["manifest"]["level_text"] += (
    " In addition, over the sequential code-shaped model that the su correspondence drives (Model/Subscribe.lean): stream_converges_partial — "
    "for every history of subscriptions (any mode, any ACL, at any point) and cache API calls (any shape, OkRun side conditions of C03, no target "
    "literally named '*': star_target_breaks_convergence shows that hypothesis is needed), every live STREAM subscriber with flow control open "
    "holds, in the view replayed from everything sent to it, exactly what the cache holds on every allowed key its subscription matches (same "
    "notification, or with event-driven emulation one of equal value), nothing else (stream_converges_exact, stream_queue_drained).")

# Sys.WF (walks_wants etc.), an assumed structure of the LTS theorems above, is derived for the instance built from actual
# requests (Props/C06Glue.lean): converges / no_missed_change for that instance carry no assumption on the path predicates
PROP["modules"] += ["Gnmi.Props.C06Glue"]
PROP["theorems"] += ["Gnmi.C06Glue." + t for t in ["subSys_wf", "walks_wants_derived", "converges_concrete", "no_missed_change_concrete"]]
PROP["manifest"]["level_text"] += (
    " The LTS hypothesis Sys.WF (walks ⊆ wants; compatible with a key ⇒ compatible with every covering delete path; a region lies in one "
    "target) is derived (C06Glue.subSys_wf) for the instance subSys built from actual Subscribe requests and ACLs over the cache model's "
    "keys, whose walks/wants/covers are tied to Sub.walkItems / Sub.offered / Sub.coversKey; converges_concrete and "
    "no_missed_change_concrete are the theorems above for that instance without the hypothesis.")

# C04 clauses (a)(b)(c) — sync placement — and updates_only over the sequential model (Props/C04Sync.lean)
from c04sync_part import MODULES as _SYNC_MODULES, THEOREMS as _SYNC_THEOREMS, LEVEL_TEXT as _SYNC_TEXT
PROP["modules"] += _SYNC_MODULES
PROP["theorems"] += _SYNC_THEOREMS
PROP["manifest"]["level_text"] += _SYNC_TEXT
# SEQ (Model/Subscribe.lean) is simulated by the LTS instance C06Glue.subSys: STREAM + cache calls + flow control (Props/C04Refine.lean)
from c04refine_part import MODULES as _REF_MODULES, THEOREMS as _REF_THEOREMS, LEVEL_TEXT as _REF_TEXT
PROP["modules"] += _REF_MODULES
PROP["theorems"] += _REF_THEOREMS
PROP["manifest"]["level_text"] += _REF_TEXT
# C04 clause (d) in event form + the full updates_only statement over the sequential model (Props/C04UpdatesOnly.lean)
from c04uo_part import MODULES as _UO_MODULES, THEOREMS as _UO_THEOREMS, LEVEL_TEXT as _UO_TEXT
PROP["modules"] += _UO_MODULES
PROP["theorems"] += _UO_THEOREMS
PROP["manifest"]["level_text"] += _UO_TEXT

# bLTSFIX: event-driven suppression is a step of the LTS (ShLabel.w1Quiet: stored, not announced; ghost Shared.qlog); converges /
# no_missed_change / converges_streamed_only are stated modulo the logged quiet writes (ORel (QChain qlog))
PROP["theorems"] += ["Gnmi.C04." + t for t in ["converges_exact", "converges_equiv", "qlog_step"]] + [
    "Gnmi.C06Glue.converges_concrete_mod"] + ["Gnmi.SubLTS." + t for t in [
    "QChain.mono", "QChain.eq_of_nil", "QChain.rel", "ORel.eq_of_nil", "expect_setVal", "good_quiet", "conv_shared", "conv_local"]]
PROP["manifest"]["level_text"] += (
    " Event-driven suppression (the cache's default: an update that leaves the value unchanged is stored but not announced) is a step of "
    "the LTS (w1Quiet: tree write W1 without W2, logged as (old, new) in the ghost qlog; the test value.Equal is not a guard, so the LTS "
    "over-approximates the code). converges, converges_streamed_only and the invariant no_missed_change are therefore stated modulo the "
    "quiet writes: replay(sent)(k) and cache(k) are both absent or linked by a chain of logged quiet rewrites; converges_exact (empty "
    "log: equality, the former statement) and converges_equiv (every logged pair related by a reflexive transitive E, the code's "
    "value.Equal: replay and cache are E-related — the form of the sequential model's Feed.Sim) are the corollaries; qlog_step: the log "
    "grows only by w1Quiet, by (cache(k), v). C06Glue.converges_concrete now carries the hypothesis qlog = [] (converges_concrete_mod is "
    "the general form). The handler of the LTS rejects an unknown mode at the mode switch (h4, after HasTarget and the ACL check) and "
    "the send timer is armed around the Send of the sync marker, as the repaired code does.")
# bC05L: the SEQ/LTS simulation extended to ONCE / POLL, poll, eof (Props/C05Refine.lean); run forms of the C05 LTS theorems (Props/C05LRun.lean)
from c05refine_part import MODULES as _C05R_MODULES, THEOREMS as _C05R_THEOREMS, LEVEL_TEXT as _C05R_TEXT
PROP["modules"] += _C05R_MODULES
PROP["theorems"] += _C05R_THEOREMS
PROP["manifest"]["level_text"] += _C05R_TEXT

PROP["assumptions"] += [
    "`su rwalk` (a STREAM subscription set up while the match tree is held by another subscriber's callback) and `cc qvd` "
    "(corpus) are judged by Go-side monitors on the real server / tree; the ordering they probe (register first, walk "
    "second; a walk keeps its nodes read-locked until the visitor returns) is what C04L / the sequential model assume as "
    "atomic steps",
]
