"""Extra steps of the C18 check (see lib/props_C18.py)."""
import json, os, subprocess
import vcheck

# fact -> the model definition (lean/Gnmi/Model/ClientLTS.lean) that encodes it
EXPECTED_FACTS = {
    "reconnect.initDone.cancelsIfClosed": "Cfg.doSubInit: under p.mu, subscribeDone/cancel are set and cancel() is called iff p.closed",
    "reconnect.Close.cancelThenFlag": "Cfg.doCloseCs: under p.mu, cancel() iff p.cancel != nil, then closed = true, subscribeDone read",
    "reconnect.Close.innerCloseThenWait": "Step.closeInner then Step.closeWait: p.Client.Close(), then wait on a non-nil subscribeDone",
    "reconnect.Subscribe.loopOrder": "SPc order connect .. innerRet -> (disc) ctxCheck -> sleeping -> resetCb -> connect; deferred done() = Step.finish",
    "reconnect.Subscribe.singleExit": "Step.ctxExit is the only way from the loop to SPc.finishing (returns_only_if_cancelled)",
    "client.Subscribe.installUnderLock": "Cfg.doInstall: clientImpl = impl; closed = false in one critical section, then run",
    "client.Subscribe.closesImplOnSubscribeError": "Step.connSubFail: the Impl is closed and never installed",
    "client.Close.flagThenImplClose": "Cfg.doBcClose: ErrClientInit without impl, else closed = true and clientImpl.Close()",
    "client.run.closedCheckAfterRecv": "SPc.recv/handling/check/runErr and Cfg.doCheck, Cfg.doRunErr, Cfg.doEof, Cfg.doHandled",
    "gnmi.defaultRecv.connectedOnce": "msgEvents: Connected prepended iff the instance's connected flag is false; Cfg.doRecvMsg sets it",
    "gnmi.Recv.recvThenHandle": "Step.recvMsg / Step.handle: the handler runs inside Recv, on the goroutine calling Recv",
    "cache.Subscribe.wrapsHandler": "CacheClient = identity on the callback trace (mode rc of the rc component)",
    "cache.defaultHandler.forwards": "CacheClient = identity on the callback trace (mode rc of the rc component)",
}


def flakelog(ctx):
    return os.path.join(ctx.scratch, "rc-deadline-flakes.log")


def facts_step(ctx, cfg):
    """regenerate the structural facts of client/*.go the LTS relies on and compare"""
    # where the harness records scenarios that missed the deadline once and terminated when re-run
    vcheck.GOENV["VERIF_RC_FLAKELOG"] = flakelog(ctx)
    binp, out = vcheck.go_build(ctx, "vfacts18")
    if binp is None:
        ctx.problems.append(("build", "fact extractor build failed:\n" + out[-2000:], None))
        return
    r = subprocess.run([binp, vcheck.REPO], capture_output=True, text=True, env=vcheck.GOENV)
    try:
        facts = json.loads(r.stdout)
    except Exception:
        ctx.problems.append(("fact", "fact extractor produced no JSON: " + (r.stdout + r.stderr)[-1000:], None))
        return
    bad = 0
    for name, why in sorted(EXPECTED_FACTS.items()):
        ok = facts.get(name) is True
        ctx.obligations.append(("fact " + name, ok, why))
        if not ok:
            bad += 1
            ctx.problems.append(("fact", "fact %s no longer holds in the source (model: %s)" % (name, why), None))
    for k, v in facts.items():
        if k.startswith("error:"):
            ctx.problems.append(("fact", "%s %s" % (k, v), None))
    vcheck.log("  facts: %d checked, %d changed" % (len(EXPECTED_FACTS), bad))


def flakes_step(ctx, cfg):
    """surface scenarios that missed the deadline once but terminated on the immediate re-run
    (a hang caused by the code repeats and is reported as a violation; these did not)"""
    try:
        with open(flakelog(ctx)) as fh:
            lines = [l.strip() for l in fh if l.strip()]
    except OSError:
        lines = []
    ctx.cov["components"].setdefault("rc", {})["deadline_missed_once_then_terminated"] = lines[:20]
    if lines:
        vcheck.log("  rc: %d scenario(s) missed the deadline once and terminated when re-run (not a violation; "
                   "recorded in the evidence): %s" % (len(lines), lines[0][:200]))


def race_step(ctx, cfg):
    """thorough tier: the exhaustive scope of the rc correspondence once more under the Go race
    detector; a reported race is a broken tie (the LTS treats the code between two
    synchronising operations as atomic), a diverging observation a failing input."""
    if ctx.tier != "thorough":
        return
    plain, out = vcheck.go_build(ctx, "vcorr")
    raced, out2 = vcheck.go_build(ctx, "vcorr", race=True)
    if plain is None or raced is None:
        ctx.problems.append(("build", "race build of the harness failed:\n" + (out + out2)[-2000:], None))
        return
    ops = subprocess.run([plain, "gen", "-c", "rc", "-tier", "thorough", "-exhaustive"], capture_output=True,
                         text=True, env=vcheck.GOENV).stdout.split("\n")
    ops = [l for l in ops if l]
    impl, r = vcheck.run_lines([raced, "run"], ops, timeout=3600, env=vcheck.GOENV)
    mod, _ = vcheck.run_lines(vcheck.model_bin(), ops)
    races = r.stderr.count("DATA RACE")
    ctx.obligations.append(("rc exhaustive scope under -race: no data race", races == 0, "%d reports" % races))
    if races:
        ctx.problems.append(("race", "the race detector reports %d data race(s) in the rc scenarios:\n%s"
                             % (races, r.stderr[:3000]), None))
    bad = [i for i in range(len(ops)) if impl[i] != mod[i].split("\t")[0]]
    vcheck.log("  rc -race: %d ops, %d diverging, %d race reports" % (len(ops), len(bad), races))
    ctx.cov["components"]["rc-race"] = {"evaluations": len(ops), "diverging": len(bad), "race_reports": races}
    ctx.cov["evaluations"] += len(ops)
    if bad:
        i = bad[0]
        j = i
        while j > 0 and ops[j].split()[1] != "new":
            j -= 1
        seq = ops[j:j + 3]
        ctx.problems.append(("divergence", "implementation (under -race) and model disagree on an rc scenario",
                             {"component": "rc-race", "ops": seq, "impl": impl[j:j + 3],
                              "model": [m.split("\t")[0] for m in mod[j:j + 3]],
                              "spec": [m.split("\t")[-1] for m in mod[j:j + 3]], "first_divergence": i - j}))
