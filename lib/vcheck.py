"""Orchestration of one property check (see /verif/check and DESIGN.md §6)."""
import fcntl, glob, hashlib, json, os, re, shutil, subprocess, sys, time

VERIF = os.path.dirname(os.path.dirname(os.path.abspath(__file__)))
REPO = os.environ.get("VERIF_REPO", "/repo")
LEAN = os.path.join(VERIF, "lean")
BUILD = os.path.join(VERIF, "build")
ALLOWED_AXIOMS = {"propext", "Classical.choice", "Quot.sound"}
TRIVIAL_OBS = {"ok", "err", "[]", "none", "nil", "false", "true", "", "0", "bad-op"}

GOENV = dict(os.environ, GOFLAGS="-mod=mod", GOPROXY="off", GOSUMDB="off", GOTOOLCHAIN="local",
             CGO_ENABLED=os.environ.get("CGO_ENABLED", "1"))


def log(*a):
    print(*a, flush=True)


class Ctx:
    """state of one check run"""

    def __init__(self, prop, tier, seed):
        self.prop, self.tier, self.seed = prop, tier, seed
        self.t0 = time.time()
        self.scratch = os.environ.get("VERIF_SCRATCH") or "/var/tmp/verif.%d" % os.getpid()
        os.makedirs(self.scratch, exist_ok=True)
        self.problems = []      # (kind, text, replay-payload)  -- broken ties / proofs / divergences
        self.known = []         # KNOWN-FINDING lines
        self.cov = {"evaluations": 0, "distinct_nontrivial": 0, "samples": [], "components": {}}
        self.obligations = []   # (name, ok, detail)
        self.bins = {}

    def cleanup(self):
        if not os.environ.get("VERIF_KEEP"):
            shutil.rmtree(self.scratch, ignore_errors=True)


# ---------------------------------------------------------------- building

def overlay_file(scratch, only=None, name="overlay.json"):
    """Map every file under /verif/go/<cmd>/ to /repo/zz_verif/cmd/<cmd>/ (add-only).  `only`: restrict the
    files of go/vcorr and of the go/pkg_* seams to this set of source paths (reduced build, see go_build)."""
    m = {}
    for d in sorted(glob.glob(os.path.join(VERIF, "go", "*"))):
        if not os.path.isdir(d):
            continue
        cmd = os.path.basename(d)
        for root, _, files in os.walk(d):
            rel = os.path.relpath(root, d)
            for f in files:
                if not f.endswith(".go"):
                    continue
                if cmd.startswith("pkg_"):
                    # extra files added to an existing repository package: pkg_<path with _ for />
                    dst = os.path.join(REPO, cmd[4:].replace("__", "/"), rel, f)
                else:
                    dst = os.path.join(REPO, "zz_verif", "cmd", cmd, rel, f)
                src = os.path.join(root, f)
                if only is not None and (cmd == "vcorr" or cmd.startswith("pkg_")) and src not in only:
                    continue
                m[os.path.normpath(dst)] = src
    p = os.path.join(scratch, name)
    with open(p, "w") as fh:
        json.dump({"Replace": m}, fh)
    return p


def go_build(ctx, cmd, race=False):
    """Build harness command `cmd` from /repo's working tree. Returns (path|None, output)."""
    key = cmd + ("-race" if race else "")
    if key in ctx.bins:
        return ctx.bins[key], ""
    ov = overlay_file(ctx.scratch)
    out = os.path.join(ctx.scratch, key)
    args = ["go", "build", "-overlay", ov, "-tags", "verif", "-o", out]
    if race:
        args.append("-race")
    args.append("./zz_verif/cmd/" + cmd)
    r = subprocess.run(args, cwd=REPO, env=GOENV, capture_output=True, text=True)
    if r.returncode != 0:
        if cmd == "vcorr":
            red = reduced_vcorr_build(ctx, race, out)
            if red is not None:
                ctx.bins[key] = out
                return out, ""
        return None, r.stdout + r.stderr
    ctx.bins[key] = out
    return out, ""


def needed_components(prop):
    """line-protocol components this property's check drives: its configured components and whatever its corpus uses"""
    import props
    cfg = props.PROPS.get(prop, {})
    comps = {c["c"] for c in cfg.get("components", [])} | set(cfg.get("uses_components", []))
    for f in glob.glob(os.path.join(VERIF, "corpus", prop, "*.ops")):
        with open(f) as fh:
            for l in fh:
                if l.strip() and not l.startswith("#"):
                    comps.add(l.split()[0])
    return comps


def reduced_vcorr_build(ctx, race, out):
    """The harness binary holds every component, and the add-only seam files of go/pkg_* reach into unexported
    parts of several packages.  A change to the repository that no longer compiles with ONE seam (say a changed
    signature of an unexported function of coalesce) must not raise an alarm for properties whose check never
    touches that package: build the harness again from just the files this property's components need — their
    own files plus, found from the compiler's `undefined` errors, the files that define what they refer to.
    If that builds, the check goes on with it; if a file the property does need is the one that does not
    compile, the build failure stands (the tie of this property is broken)."""
    comps = needed_components(ctx.prop)
    if not comps:
        return None
    vdir = os.path.join(VERIF, "go", "vcorr")
    allv = sorted(glob.glob(os.path.join(vdir, "*.go")))
    seams = sorted(glob.glob(os.path.join(VERIF, "go", "pkg_*", "**", "*.go"), recursive=True))
    only = {os.path.join(vdir, "main.go")}
    for f in allv:
        b = os.path.basename(f)[:-3]
        if b in comps or b.split("_")[0] in comps:
            only.add(f)
    srcs = {}
    for f in allv + seams:
        with open(f) as fh:
            srcs[f] = fh.read()

    def definers(name):
        pat = re.compile(r"^(?:func\s+(?:\([^)]*\)\s*)?%s\b|type\s+%s\b|var\s+%s\b|const\s+%s\b|\t%s\s+=|\t%s\s+[\w\[\]\*\.]+\s*(?:=|$))"
                         % ((re.escape(name),) * 6), re.M)
        return [f for f, t in srcs.items() if f not in only and pat.search(t)]

    for _ in range(14):
        ov = overlay_file(ctx.scratch, only=only, name="overlay-reduced.json")
        args = ["go", "build", "-overlay", ov, "-tags", "verif", "-o", out] + (["-race"] if race else []) + ["./zz_verif/cmd/vcorr"]
        r = subprocess.run(args, cwd=REPO, env=GOENV, capture_output=True, text=True)
        if r.returncode == 0:
            log("  harness rebuilt from the files of %s only (a seam file this property does not use no longer compiles against the working tree)"
                % ",".join(sorted(comps)))
            ctx.cov.setdefault("reduced_harness", sorted(os.path.relpath(f, VERIF) for f in only))
            return out
        txt = r.stdout + r.stderr
        names = set(re.findall(r"undefined: (?:\w+\.)?(\w+)", txt)) | set(re.findall(r"has no field or method (\w+)", txt))
        add = set()
        for n in names:
            add.update(definers(n))
        if not add:
            return None
        only |= add
    return None


def go_build_repo_cmd(ctx, pkg, name):
    """Build one of the repository's own commands into the scratch directory."""
    out = os.path.join(ctx.scratch, name)
    r = subprocess.run(["go", "build", "-tags", "verif", "-o", out, pkg], cwd=REPO, env=GOENV,
                       capture_output=True, text=True)
    if r.returncode != 0:
        return None, r.stdout + r.stderr
    return out, ""


class Lock:
    def __init__(self, name):
        os.makedirs(BUILD, exist_ok=True)
        self.path = os.path.join(BUILD, name + ".lock")

    def __enter__(self):
        self.fh = open(self.path, "w")
        fcntl.flock(self.fh, fcntl.LOCK_EX)
        return self

    def __exit__(self, *a):
        fcntl.flock(self.fh, fcntl.LOCK_UN)
        self.fh.close()


def lean_sources_hash():
    h = hashlib.sha256()
    files = sorted(glob.glob(os.path.join(LEAN, "**", "*.lean"), recursive=True))
    files = [f for f in files if "/.lake/" not in f]
    files.append(os.path.join(LEAN, "lakefile.toml"))
    for f in files:
        h.update(f.encode())
        with open(f, "rb") as fh:
            h.update(fh.read())
    return h.hexdigest()[:24]


def lake_build(targets=None):
    """lake build; returns (ok, output). Caller holds the lock.  Without targets: the whole project
    (library incl. every Gen/GenProps module, and the driver) — what `./check setup` does.  A property
    check passes the driver and the modules it lists, so that a module that no longer elaborates (an
    obligation over a regenerated definition, say) alarms only the properties that list it."""
    r = subprocess.run(["lake", "build"] + list(targets or []), cwd=LEAN, capture_output=True, text=True)
    return r.returncode == 0, r.stdout + r.stderr


GEN_DIR = os.path.join(LEAN, "Gnmi", "Gen")
GEN_MARK = "/- GENERATED by go/vtrans"


# further generators run by regen() under the Lean lock, each `hook(ctx, repo) -> error text | None`
# (lib/gen_lockset.py registers the lockset table extractor go/vlockset here)
REGEN_HOOKS = []


def regen(ctx, repo=None, quiet=False):
    """Regenerate lean/Gnmi/Gen/*.lean from REPO's current source with go/vtrans (docs/GEN_TIE.md).
    Caller holds Lock("lean").  The translator writes into a scratch directory; a file is copied over
    only when its content changed (lake then rebuilds exactly its dependents) and generated files the
    translator no longer produces are removed.  Returns an error text (translator does not build / did
    not run) or None."""
    tool, out = go_build(ctx, "vtrans")
    if tool is None:
        return "decision-logic translator go/vtrans does not build against the working tree:\n" + out[-3000:]
    tmp = os.path.join(ctx.scratch, "gen")
    shutil.rmtree(tmp, ignore_errors=True)
    os.makedirs(tmp)
    r = subprocess.run([tool, repo or REPO, tmp], capture_output=True, text=True)
    produced = sorted(f for f in os.listdir(tmp) if f.endswith(".lean"))
    if r.returncode != 0 or not produced:
        return "go/vtrans failed (exit %d): %s" % (r.returncode, (r.stdout + r.stderr)[-2000:])
    os.makedirs(GEN_DIR, exist_ok=True)
    changed = []
    for f in produced:
        with open(os.path.join(tmp, f), "rb") as fh:
            new = fh.read()
        dst = os.path.join(GEN_DIR, f)
        old = None
        if os.path.exists(dst):
            with open(dst, "rb") as fh:
                old = fh.read()
        if old != new:
            with open(dst + ".tmp", "wb") as fh:
                fh.write(new)
            os.replace(dst + ".tmp", dst)
            changed.append(f)
    for f in sorted(os.listdir(GEN_DIR)):
        if f.endswith(".lean") and f not in produced:
            with open(os.path.join(GEN_DIR, f), "rb") as fh:
                is_gen = fh.read(len(GEN_MARK)).decode("utf-8", "replace") == GEN_MARK
            if is_gen:
                os.unlink(os.path.join(GEN_DIR, f))
                changed.append("-" + f)
    if changed and not quiet:
        log("  regenerated from the source: " + ", ".join(changed))
    errs = []
    for hook in REGEN_HOOKS:
        try:
            e = hook(ctx, repo or REPO)
        except Exception as ex:     # a generator that crashes is a broken tie, not a crashed check
            e = "regeneration hook %s failed: %r" % (getattr(hook, "__name__", "?"), ex)
        if e:
            errs.append(e)
    return "\n".join(errs) or None


def untranslated_note(module):
    """when a generated file a module imports holds no definition (region not found / not translatable), why"""
    notes = []
    try:
        with open(os.path.join(LEAN, module.replace(".", "/") + ".lean")) as fh:
            imports = re.findall(r"^import (Gnmi\.Gen\.\w+)", fh.read(), re.M)
        for imp in imports:
            with open(os.path.join(LEAN, imp.replace(".", "/") + ".lean")) as fh:
                m = re.search(r"NOT TRANSLATED: (.*)", fh.read())
            if m:
                notes.append("%s was not translated: %s" % (imp, m.group(1)))
    except OSError:
        pass
    return ("\n" + "\n".join(notes)) if notes else ""


def failed_modules(out):
    """module names lake reports as having logged failures"""
    names = []
    for m in re.finditer(r"^- ([A-Za-z0-9_.]+)\s*$", out, re.M):
        if m.group(1) not in names:
            names.append(m.group(1))
    return names


def module_errors(out, module):
    """the error lines lake printed for one module"""
    path = module.replace(".", "/") + ".lean"
    keep, on = [], False
    for line in out.split("\n"):
        if line.startswith("error: " + path) or line.startswith("error: ./" + path):
            on = True
        elif re.match(r"^(✔|✖|⚠|ℹ|warning: |error: |trace: |info: |Some required|- )", line):
            on = False
        if on:
            keep.append(line)
    return "\n".join(keep)[:3000]


FORBIDDEN = re.compile(r"\bsorry\b|\badmit\b|^\s*axiom\s|native_decide|bv_decide|implemented_by|\bunsafe\s|maxHeartbeats\s+0")


def strip_lean_comments(src):
    # remove /- ... -/ (nested) and -- ... comments
    out, i, depth = [], 0, 0
    while i < len(src):
        if src.startswith("/-", i):
            depth += 1
            i += 2
        elif depth and src.startswith("-/", i):
            depth -= 1
            i += 2
        elif depth:
            i += 1
        elif src.startswith("--", i):
            while i < len(src) and src[i] != "\n":
                i += 1
        else:
            out.append(src[i])
            i += 1
    return "".join(out)


def grep_forbidden():
    hits = []
    for f in sorted(glob.glob(os.path.join(LEAN, "Gnmi", "**", "*.lean"), recursive=True)):
        with open(f) as fh:
            src = strip_lean_comments(fh.read())
        for n, line in enumerate(src.split("\n"), 1):
            # string literals may legitimately contain the words
            bare = re.sub(r'"(\\.|[^"\\])*"', '""', line)
            if FORBIDDEN.search(bare):
                hits.append("%s: %s" % (os.path.relpath(f, LEAN), line.strip()))
    return hits


def audit(module_names, theorems):
    """#print axioms for every theorem; returns dict name -> list of axioms | None (missing)."""
    src = "".join("import %s\n" % m for m in module_names)
    src += "".join("#print axioms %s\n" % t for t in theorems)
    path = os.path.join(BUILD, "Audit_%d.lean" % os.getpid())
    with open(path, "w") as fh:
        fh.write(src)
    r = subprocess.run(["lake", "env", "lean", path], cwd=LEAN, capture_output=True, text=True)
    os.unlink(path)
    txt = r.stdout + r.stderr
    res = {t: None for t in theorems}
    for m in re.finditer(r"'([^']+)' depends on axioms: \[([^\]]*)\]", txt, re.S):
        res[m.group(1)] = [a.strip() for a in m.group(2).replace("\n", " ").split(",") if a.strip()]
    for m in re.finditer(r"'([^']+)' does not depend on any axioms", txt):
        res[m.group(1)] = []
    return res, txt


def lean_stage(ctx, cfg):
    """regenerate Gen/*.lean from the source, lake build of the driver and of the modules the property
    lists + forbidden-word grep + axiom audit, cached by source hash (generated files included)."""
    theorems = cfg.get("theorems", [])
    modules = cfg.get("modules", [])
    with Lock("lean"):
        regen_err = regen(ctx)
        key = lean_sources_hash()
        key += "-" + hashlib.sha256("\n".join(modules + theorems).encode()).hexdigest()[:12]
        cache = os.path.join(BUILD, "audit-%s-%s.json" % (ctx.prop, key))
        if os.path.exists(cache) and os.path.exists(os.path.join(LEAN, ".lake/build/bin/gnmi_model")):
            with open(cache) as fh:
                res = json.load(fh)
        else:
            # only what this property needs: the driver and its own modules.  When some of *those* fail
            # (an obligation over a regenerated definition no longer goes through), the rest is still built
            # and audited, so that the report names the modules / theorems that broke.
            live, failed = list(modules), {}
            ok, out = lake_build(["gnmi_model"] + live)
            while not ok:
                bad = [m for m in failed_modules(out) if m in live]
                if not bad:
                    break
                for m in bad:
                    failed[m] = module_errors(out, m) or out[-1500:]
                    live.remove(m)
                ok, out = lake_build(["gnmi_model"] + live)
            res = {"build_ok": ok, "build_out": out[-4000:] if not ok else "", "axioms": {}, "forbidden": [],
                   "failed_modules": failed}
            if ok:
                res["forbidden"] = grep_forbidden()
                ax, txt = audit(live, theorems)
                res["axioms"] = ax
                res["audit_out"] = txt[-2000:] if any(v is None for v in ax.values()) else ""
            if ok and not failed:
                with open(cache, "w") as fh:
                    json.dump(res, fh)
        # this run's own copy of the driver, taken while the lock is held: another check (or a build started by hand)
        # may relink lean/.lake/build/bin/gnmi_model while this one is still reading from it
        global _MODEL_BIN
        src = os.path.join(LEAN, ".lake", "build", "bin", "gnmi_model")
        if os.path.exists(src):
            try:
                os.makedirs(ctx.scratch, exist_ok=True)
                dst = os.path.join(ctx.scratch, "gnmi_model")
                shutil.copy2(src, dst)
                _MODEL_BIN = dst
            except OSError:
                _MODEL_BIN = None
    if regen_err:
        ctx.problems.append(("build", regen_err, None))
    if not res["build_ok"]:
        ctx.problems.append(("proof", "lake build failed:\n" + res["build_out"], None))
        for t in theorems:
            ctx.obligations.append((t, False, "lake build failed"))
        return False
    for hit in res["forbidden"]:
        ctx.problems.append(("proof", "forbidden construct in Lean sources: " + hit, None))
    good = not res["forbidden"] and not regen_err
    failed = res.get("failed_modules", {})
    for m, err in failed.items():
        what = "module %s no longer elaborates" % m
        if m.startswith("Gnmi.GenProps."):
            what = ("obligation module %s no longer checks against the definition regenerated from the source "
                    "(lean/Gnmi/Gen/%s.lean; docs/GEN_TIE.md): the decision logic of the code is no longer the "
                    "one the model the theorems are about has" % (m, m.split(".")[-1]))
        ctx.problems.append(("proof", what + untranslated_note(m) + "\n" + err, None))
        good = False
    for t in theorems:
        ax = res["axioms"].get(t)
        owner = [m for m in failed if t.startswith(m + ".")]
        if ax is None and owner:
            ctx.obligations.append((t, False, "module %s no longer elaborates" % owner[0]))
            good = False
        elif ax is None:
            ctx.obligations.append((t, False, "theorem missing"))
            ctx.problems.append(("proof", "theorem %s no longer checks (missing)\n%s" % (t, res.get("audit_out", "")), None))
            good = False
        elif not set(ax) <= ALLOWED_AXIOMS:
            ctx.obligations.append((t, False, "axioms " + ",".join(ax)))
            ctx.problems.append(("proof", "theorem %s depends on disallowed axioms %s" % (t, ax), None))
            good = False
        else:
            ctx.obligations.append((t, True, "axioms: " + (", ".join(ax) or "none")))
    return good


def leanchecker_stage(ctx, cfg):
    """thorough tier: independent re-check of the compiled property modules"""
    for m in cfg.get("modules", []):
        with Lock("lean"):
            # another check (possibly against another tree: VERIF_REPO) may have regenerated lean/Gnmi/Gen since
            # lean_stage released the lock: make the compiled modules those of *this* tree again (no-op otherwise)
            if regen(ctx) is None:
                lake_build([m])
            r = subprocess.run(["lake", "env", "leanchecker", m], cwd=LEAN, capture_output=True, text=True)
        ok = r.returncode == 0
        ctx.obligations.append(("leanchecker " + m, ok, (r.stdout + r.stderr)[-300:]))
        if not ok:
            ctx.problems.append(("proof", "leanchecker rejected %s: %s" % (m, (r.stdout + r.stderr)[-1000:]), None))


# ---------------------------------------------------------------- correspondence

class _Hung:
    """stands for the CompletedProcess of a runner that had to be killed"""
    def __init__(self, stdout, stderr):
        self.returncode, self.stdout, self.stderr, self.hung = -9, stdout, stderr, True


def run_lines(binpath, lines, timeout=None, env=None):
    """Run a line-protocol process on `lines`.  A runner that does not finish in time (a change to
    the code can make the implementation deadlock or spin) is killed; the lines it did answer are
    returned, so the first unanswered operation shows up as `<no-output>` — a divergence."""
    if timeout is None:
        timeout = float(os.environ.get("VERIF_SEQ_TIMEOUT", "240"))
    try:
        r = subprocess.run([binpath] if isinstance(binpath, str) else binpath, input="\n".join(lines) + "\n",
                           capture_output=True, text=True, timeout=timeout, env=env)
    except subprocess.TimeoutExpired as e:
        out = e.stdout or ""
        if isinstance(out, bytes):
            out = out.decode("utf-8", "replace")
        got = out.split("\n")
        if got and got[-1] == "":
            got.pop()
        log("  runner %s killed after %ds: answered %d of %d operations" % (
            os.path.basename(binpath if isinstance(binpath, str) else binpath[0]), timeout, len(got), len(lines)))
        return got[:len(lines)], _Hung(out, "")
    return r.stdout.split("\n")[:len(lines)], r


_MODEL_BIN = None


def model_bin():
    if _MODEL_BIN and os.path.exists(_MODEL_BIN):
        return _MODEL_BIN
    return os.path.join(LEAN, ".lake", "build", "bin", "gnmi_model")


def split_sequences(ops):
    """group op lines into sequences; a sequence starts at a line whose 2nd token is `new`"""
    seqs, cur = [], []
    for i, l in enumerate(ops):
        f = l.split()
        if len(f) >= 2 and f[1] == "new" and cur:
            seqs.append(cur)
            cur = []
        cur.append(i)
    if cur:
        seqs.append(cur)
    return seqs


def eval_seq(ctx, vcorr, seq_lines, cmp_spec=True, time_scale=None, timeout=None):
    """Run one sequence on impl and model. Returns (index of first divergence | None, impl, model, spec)."""
    env = GOENV if time_scale is None else dict(GOENV, VERIF_TIME_SCALE=str(time_scale))
    impl, r1 = run_lines([vcorr, "run"], seq_lines, env=env, timeout=timeout)
    err = getattr(r1, "stderr", "") or ""
    # a Go runtime abort (concurrent map access, stack overflow, deadlock) cannot be recovered by the harness: the process
    # is gone and with it its buffered answers; what it printed is kept for the replay
    ctx.last_abort = err[-3000:] if ("fatal error:" in err or "panic:" in err) else ""
    mod, r2 = run_lines(model_bin(), seq_lines)
    for i in range(len(seq_lines)):
        a = impl[i] if i < len(impl) else "<no-output>"
        ms = (mod[i] if i < len(mod) else "<no-output>\t<no-output>").split("\t")
        m = ms[0]
        if a != m:
            return i, impl, [x.split("\t")[0] for x in mod], [x.split("\t")[-1] for x in mod]
    return None, impl, [x.split("\t")[0] for x in mod], [x.split("\t")[-1] for x in mod]


def time_sensitive(ctx, vcorr, seq_lines, label, orig_op="", orig_impl=""):
    """The harnesses run real goroutines against real timers (the subscribe server's send timeout, the
    harnesses' own deadlines).  On a loaded machine a sequence can take long enough for such a timer to fire
    where no timeout was scripted.  A divergence is believed only if it also shows with every harness-side
    duration stretched four times (VERIF_TIME_SCALE=4: scripted timeouts are stretched alike, so a timer that
    is wrongly armed, never disarmed or never fires still shows): three tries.  Returns True when it does
    not — the case is recorded in the evidence and not reported."""
    # an operation that was never answered (the implementation hangs): a single sequence takes seconds, so the re-runs
    # need not wait the whole per-sequence budget for the hang to repeat
    short = float(os.environ.get("VERIF_HANG_RERUN", "90")) if orig_impl.startswith("<no-output>") else None
    for _ in range(3):
        d, *_ = eval_seq(ctx, vcorr, seq_lines, time_scale=4, timeout=short)
        if d is not None:
            return False
    ctx.cov.setdefault("time_sensitive", []).append(
        {"component": label, "ops": len(seq_lines), "op": orig_op[:300], "impl_once": orig_impl[:300]})
    log("  %s: a divergence vanished with harness durations stretched x4 in 3 re-runs (load-induced timeout; not reported): %s -> %s"
        % (label, orig_op[:120], orig_impl[:80]))
    return True


def shrink(ctx, vcorr, seq_lines):
    """greedy minimisation of a diverging sequence (keeps the leading reset line)"""
    cur = list(seq_lines)
    idx, impl0, *_ = eval_seq(ctx, vcorr, cur)
    if idx is None:
        return cur
    # the implementation hangs at the diverging operation: candidates are given a short budget each (a sequence takes
    # seconds), or minimising would cost the per-sequence budget per candidate
    short = float(os.environ.get("VERIF_HANG_RERUN", "90")) / 3 if idx >= len(impl0) else None
    cur = cur[:idx + 1]
    budget = 400
    deadline = time.time() + float(os.environ.get("VERIF_SHRINK_SECONDS", "420"))
    changed = True
    while changed and budget > 0 and time.time() < deadline:
        changed = False
        i = len(cur) - 1
        while i >= 1 and budget > 0 and time.time() < deadline:
            cand = cur[:i] + cur[i + 1:]
            budget -= 1
            if len(cand) >= 1:
                d, *_ = eval_seq(ctx, vcorr, cand, timeout=short)
                if d is not None:
                    cur = cand[:d + 1]
                    changed = True
                    i = min(i, len(cur))
            i -= 1
    return cur


def correspondence(ctx, cfg_comp, label=None):
    """gen -> run impl -> run model -> diff, for one component configuration."""
    comp = cfg_comp["c"]
    label = label or comp
    vcorr, out = go_build(ctx, "vcorr")
    if vcorr is None:
        ctx.problems.append(("build", "harness build failed against the working tree:\n" + out[-3000:], None))
        return
    tiercfg = cfg_comp[ctx.tier]
    runs = []
    if tiercfg.get("exhaustive"):
        runs.append(("exhaustive", ["-exhaustive"]))
    seeds = [ctx.seed] + [ctx.seed * 1000003 + k for k in range(1, tiercfg.get("seeds", 1))]
    for s in seeds:
        runs.append(("random seed=%d" % s, ["-seed", str(s), "-n", str(tiercfg["n"])]))
    cstat = ctx.cov["components"].setdefault(label, {"evaluations": 0, "sequences": 0, "distinct_nontrivial": 0,
                                                     "op_kinds": {}, "exhaustive_scope": False, "obs_kinds": {}})
    seen = set()
    for name, extra in runs:
        opsf = os.path.join(ctx.scratch, "%s.ops" % label)
        statf = os.path.join(ctx.scratch, "%s.stats" % label)
        with open(opsf, "w") as fh:
            r = subprocess.run([vcorr, "gen", "-c", comp, "-tier", ctx.tier, "-stats", statf] + extra +
                               cfg_comp.get("gen_args", []),
                               stdout=fh, stderr=subprocess.PIPE, text=True, env=GOENV)
        if r.returncode != 0:
            ctx.problems.append(("build", "generator failed: " + r.stderr[-2000:], None))
            return
        with open(opsf) as fh:
            ops = fh.read().split("\n")
        if ops and ops[-1] == "":
            ops.pop()
        implf = os.path.join(ctx.scratch, "%s.impl" % label)
        modf = os.path.join(ctx.scratch, "%s.model" % label)
        # watchdog: a change to the code can make the implementation deadlock or spin.  The runner answers
        # one line per operation; when its output has not grown for VERIF_STALL seconds it is killed, what it
        # answered so far stays in the file, and the operation it hangs on is the first `<no-output>`: a divergence
        stall = float(os.environ.get("VERIF_STALL", "240"))
        # ... and an overall bound: an implementation that answers, but only after one of the harness's own
        # deadlines per operation, must not keep a check busy for hours (what it answered is compared as usual)
        overall = float(os.environ.get("VERIF_RUN_TIMEOUT", "1200" if ctx.tier == "quick" else "21600"))
        t_start = time.time()
        errf = os.path.join(ctx.scratch, "%s.stderr" % label)
        with open(opsf) as fi, open(implf, "w") as fo, open(errf, "w") as fe:
            p = subprocess.Popen([vcorr, "run"], stdin=fi, stdout=fo, stderr=fe, text=True, env=GOENV)
            last_size, last_t = -1, time.time()
            hung = False
            while True:
                try:
                    p.wait(timeout=3)
                    break
                except subprocess.TimeoutExpired:
                    sz = os.path.getsize(implf)
                    if sz != last_size:
                        last_size, last_t = sz, time.time()
                    elif time.time() - last_t > stall:
                        p.kill()
                        p.wait()
                        hung = True
                        break
                    if time.time() - t_start > overall:
                        p.kill()
                        p.wait()
                        hung = True
                        break
        with open(errf) as fe:
            err_txt = fe.read()[-4000:]
        if hung:
            r1 = _Hung("", err_txt)
            log("  impl runner killed (no answer for %ds, or running for more than %ds) — the unanswered operation is reported"
                % (stall, overall))
        else:
            r1 = subprocess.CompletedProcess([vcorr, "run"], p.returncode, "", err_txt)
        with open(opsf) as fi, open(modf, "w") as fo:
            r2 = subprocess.run([model_bin()], stdin=fi, stdout=fo, stderr=subprocess.PIPE, text=True)
        with open(implf) as fh:
            impl = fh.read().split("\n")
        with open(modf) as fh:
            mod = fh.read().split("\n")
        if r1.returncode != 0:
            log("  impl runner exited with %d: %s" % (r1.returncode, r1.stderr[-500:]))
        if r2.returncode != 0:
            log("  model driver exited with %d: %s" % (r2.returncode, r2.stderr[-500:]))
        try:
            with open(statf) as fh:
                st = json.load(fh)
            for k, v in st.get("op_kinds", {}).items():
                cstat["op_kinds"][k] = cstat["op_kinds"].get(k, 0) + v
        except Exception:
            pass
        if name == "exhaustive":
            cstat["exhaustive_scope"] = True
        seqs = split_sequences(ops)
        bad = []
        for seq in seqs:
            lines = [ops[i] for i in seq]
            nontriv = False
            div = None
            for j, i in enumerate(seq):
                a = impl[i] if i < len(impl) else "<no-output>"
                m = (mod[i] if i < len(mod) else "<no-output>").split("\t")[0]
                if a not in TRIVIAL_OBS:
                    nontriv = True
                ok = a.split(" ")[0].split(":")[0][:12]
                if not ok.startswith("["):
                    cstat["obs_kinds"][ok] = cstat["obs_kinds"].get(ok, 0) + 1
                if a != m and div is None:
                    div = j
            cstat["evaluations"] += len(seq)
            cstat["sequences"] += 1
            if nontriv and len(seq) >= cfg_comp.get("min_len", 3):
                h = hashlib.sha1("\n".join(lines).encode()).digest()[:10]
                if h not in seen:
                    seen.add(h)
            if div is not None:
                i0 = seq[div]
                bad.append((lines, div, {"op": ops[i0], "impl": impl[i0] if i0 < len(impl) else "<no-output>",
                                         "model": (mod[i0] if i0 < len(mod) else "<no-output>").split("\t")[0]}))
            elif len(ctx.cov["samples"]) < 3 and nontriv and cfg_comp.get("min_len", 3) <= len(seq) <= 14:
                ctx.cov["samples"].append({"component": label, "ops": lines,
                                           "observations": [impl[i] for i in seq]})
        if getattr(r1, "hung", False) and bad:
            bad = bad[:1]       # everything after the operation the implementation hangs on is unanswered
        log("  %s %s: %d sequences, %d ops, %d diverging" % (label, name, len(seqs), len(ops), len(bad)))
        for lines, div, orig in bad[:3]:
            small = shrink(ctx, vcorr, lines)
            d, im, mo, sp = eval_seq(ctx, vcorr, small)
            if d is None:   # did not reproduce: keep the original sequence
                small = lines
                d, im, mo, sp = eval_seq(ctx, vcorr, small)
            if d is None:
                # A divergence seen once in the bulk run that the same sequence does not show again.  The
                # harnesses drive real goroutines and timers; on a loaded machine a scenario can exceed the
                # harness's own deadline.  The sequence is run three more times with stretched deadlines: if
                # it never diverges again it is recorded as not reproducible (evidence) and not reported.
                for _ in range(3):
                    d, im, mo, sp = eval_seq(ctx, vcorr, small, time_scale=4)
                    if d is not None:
                        break
                if d is None:
                    ctx.cov.setdefault("not_reproducible", []).append(
                        {"component": label, "op": orig.get("op", "")[:300], "impl_once": orig.get("impl", "")[:300],
                         "model": orig.get("model", "")[:300], "reruns_agreeing": 5})
                    log("  %s: one divergence did not reproduce in 5 re-runs of the same sequence (not reported): %s -> %s"
                        % (label, orig.get("op", "")[:120], orig.get("impl", "")[:80]))
                    continue
            if time_sensitive(ctx, vcorr, small, label, small[d] if d < len(small) else "", im[d] if d < len(im) else "<no-output>"):
                continue
            payload = {"component": label, "generator": name, "ops": small,
                       "impl": im[:len(small)], "model": mo[:len(small)], "spec": sp[:len(small)],
                       "first_divergence": d, "original_divergence": orig}
            if getattr(ctx, "last_abort", ""):
                payload["process_aborted"] = ctx.last_abort
            ctx.problems.append(("divergence", "implementation and model disagree on a %s sequence" % label, payload))
        if bad:
            break
    cstat["distinct_nontrivial"] = len(seen)
    ctx.cov["evaluations"] += cstat["evaluations"]
    ctx.cov["distinct_nontrivial"] += cstat["distinct_nontrivial"]


def run_corpus(ctx, cfg):
    """Regression corpus: corpus/<prop>/*.ops — each file is one or more sequences. A corpus
    file listed in KNOWN_FINDINGS.txt is *expected* to diverge (and reported as KNOWN-FINDING);
    every other file must agree."""
    d = os.path.join(VERIF, "corpus", ctx.prop)
    files = sorted(glob.glob(os.path.join(d, "*.ops")))
    if not files:
        return
    vcorr, out = go_build(ctx, "vcorr")
    if vcorr is None:
        ctx.problems.append(("build", "harness build failed against the working tree:\n" + out[-3000:], None))
        return
    known = known_findings(ctx.prop)
    n = 0
    for f in files:
        name = os.path.basename(f)
        with open(f) as fh:
            lines = [l for l in fh.read().split("\n") if l and not l.startswith("#")]
        idx, im, mo, sp = eval_seq(ctx, vcorr, lines)
        n += len(lines)
        kf = known.get(name)
        if idx is not None:
            payload = {"component": "corpus/" + name, "ops": lines, "impl": im[:len(lines)],
                       "model": mo[:len(lines)], "spec": sp[:len(lines)], "first_divergence": idx}
            if kf and (kf.get("obs") is None or kf["obs"] == im[idx]):
                ctx.known.append("KNOWN-FINDING: property=%s %s" % (ctx.prop, kf["text"]))
            elif time_sensitive(ctx, vcorr, lines, "corpus/" + name, lines[idx] if idx < len(lines) else "",
                                im[idx] if idx < len(im) else "<no-output>"):
                pass
            else:
                ctx.problems.append(("divergence", "corpus case %s diverges" % name, payload))
    ctx.cov["evaluations"] += n
    ctx.cov["components"]["corpus"] = {"files": len(files), "evaluations": n}
    log("  corpus: %d files, %d ops" % (len(files), n))


def known_findings(prop):
    """KNOWN_FINDINGS.txt lines:  known: property=Cxx case=<corpus file> [obs=<impl observation>] :: text
    `fixed:` lines are documentation only and suppress nothing."""
    res = {}
    p = os.path.join(VERIF, "KNOWN_FINDINGS.txt")
    if not os.path.exists(p):
        return res
    with open(p) as fh:
        for line in fh:
            line = line.strip()
            if not line.startswith("known:"):
                continue
            head, _, text = line[len("known:"):].partition("::")
            kv = dict(x.split("=", 1) for x in head.split() if "=" in x)
            if kv.get("property") != prop:
                continue
            obs = kv.get("obs")
            if obs is not None:
                obs = obs.replace("%20", " ")      # an observation containing blanks is written with %20
            res[kv.get("case", "")] = {"text": text.strip(), "obs": obs}
    return res


# ---------------------------------------------------------------- reporting

def write_replay(ctx, kind, text, payload, suffix):
    os.makedirs(os.path.join(VERIF, "replays"), exist_ok=True)
    body = {"property": ctx.prop, "kind": kind, "what": text, "seed": ctx.seed, "tier": ctx.tier,
            "how_to_rerun": "./check %s --replay <this file>" % ctx.prop}
    if payload:
        body.update(payload)
    h = hashlib.sha1(json.dumps(body, sort_keys=True).encode()).hexdigest()[:10]
    path = os.path.join(VERIF, "replays", "%s-%s-%s.json" % (ctx.prop, suffix, h))
    with open(path, "w") as fh:
        json.dump(body, fh, indent=1)
    return path


def finish(ctx, cfg):
    """decide the verdict, print lines, write evidence; returns exit code"""
    violations = []
    failing = [p for p in ctx.problems if p[0] == "divergence" and p[2] is not None]
    other = [p for p in ctx.problems if not (p[0] == "divergence" and p[2] is not None)]
    monitor = cfg.get("monitor", "spec")
    for kind, text, payload in failing:
        # the property monitor: implementation vs abstract spec (or, where the model *is* the
        # statement of the property, vs the model) on the shrunk case
        d = payload.get("first_divergence")
        exp = payload["spec"] if monitor == "spec" else payload["model"]
        impl_d = payload["impl"][d] if d is not None and d < len(payload["impl"]) else "<no-output>"   # hung / crashed there
        is_fail = d is not None and d < len(exp) and impl_d != exp[d]
        if payload.get("monitor_failed") is not None:
            is_fail = payload["monitor_failed"]
        if is_fail:
            path = write_replay(ctx, "failing-input", text, payload, "fail")
            violations.append("VIOLATION property=%s replay=%s" % (ctx.prop, path))
        else:
            path = write_replay(ctx, "unproved", text + " (correspondence broken; property monitor did not fail)", payload, "tie")
            violations.append("VIOLATION property=%s replay=%s no-failing-input-found" % (ctx.prop, path))
    if other and not any("no-failing-input-found" not in v for v in violations):
        # broken proof / fact / build and the search found no failing input
        text = "\n".join("%s: %s" % (k, t) for k, t, _ in other)
        payload = {"broken": [{"kind": k, "what": t, "detail": p} for k, t, p in other]}
        path = write_replay(ctx, "unproved", text[:3000], payload, "tie")
        violations.append("VIOLATION property=%s replay=%s no-failing-input-found" % (ctx.prop, path))
    for k in ctx.known:
        log(k)
    obligations = len(ctx.obligations)
    discharged = sum(1 for o in ctx.obligations if o[1])
    cov = ctx.cov
    cov.update({
        "obligations": obligations,
        "discharged": discharged,
        "checker_cmd": "go/vtrans <repo> lean/Gnmi/Gen (regenerate) && cd /verif/lean && lake build gnmi_model <the property's modules> "
                       "&& lake env lean <generated #print axioms file> (see lib/vcheck.py: regen, lean_stage, audit)",
        "trusted_base": cfg.get("trusted_base", []) + [
            "Lean 4.33.0 kernel; axioms allowed: propext, Classical.choice, Quot.sound",
            "hand-written models lean/Gnmi/Model/*.lean tied to /repo by the correspondence harness go/vcorr (differential, seeded)",
        ],
        "obligation_list": [{"name": n, "ok": ok, "detail": d} for n, ok, d in ctx.obligations],
        "rule": cfg.get("rule", "op sequences from the seeded generator (plus exhaustive small scope where listed); a sequence "
                        "is non-trivial when it has >= 3 ops and at least one observation other than ok/err/empty; distinct = by hash of its op lines"),
        "known_findings_reported": len(ctx.known),
        "gen_ties": cfg.get("gen_ties", []),     # decision logic regenerated from the source and proved equal to the model
    })
    if not cov["samples"]:
        cov["samples"] = [{"note": "no sample retained", "obligations": [o[0] for o in ctx.obligations][:3]}]
    ev = {
        "property_id": ctx.prop, "tier": ctx.tier, "seed": ctx.seed, "level": cfg.get("level", "proof"),
        "coverage": cov, "assumptions": cfg.get("assumptions", []),
        "wall_s": round(time.time() - ctx.t0, 2), "violations": len(violations),
    }
    # evidence describes /repo itself: a run against another tree (mutant qualification) leaves it alone
    evdir = os.path.join(VERIF, "evidence") if os.path.realpath(REPO) == "/repo" else os.path.join(VERIF, "replays", "evidence-other-tree")
    os.makedirs(evdir, exist_ok=True)
    with open(os.path.join(evdir, ctx.prop + ".json"), "w") as fh:
        json.dump(ev, fh, indent=1)
    for v in violations:
        log(v)
    if violations:
        return 1
    log("OK property=%s tier=%s obligations=%d/%d evaluations=%d distinct_nontrivial=%d wall=%.1fs" % (
        ctx.prop, ctx.tier, discharged, obligations, cov["evaluations"], cov["distinct_nontrivial"], time.time() - ctx.t0))
    return 0


def setup():
    os.makedirs(BUILD, exist_ok=True)
    ctx = Ctx("setup", "quick", 1)
    try:
        with Lock("lean"):
            err = regen(ctx)       # lean/Gnmi/Gen/*.lean from the source, before anything imports them
            if err:
                print(err)
            ok, out = lake_build()
        print(out[-3000:])
        if not ok or err:
            return 1
        # warm the Go build cache for the harness (not required for correctness)
        for d in sorted(glob.glob(os.path.join(VERIF, "go", "*"))):
            cmd = os.path.basename(d)
            if os.path.isdir(d) and not cmd.startswith("pkg_"):
                p, o = go_build(ctx, cmd)
                if p is None:
                    print("warning: harness %s does not build:\n%s" % (cmd, o[-2000:]))
    finally:
        ctx.cleanup()
    return 0


def replay(ctx, cfg, path):
    with open(path) as fh:
        txt = fh.read()
    if path.endswith(".json"):
        lines = json.loads(txt).get("ops", [])
    else:
        lines = [l for l in txt.split("\n") if l and not l.startswith("#")]
    vcorr, out = go_build(ctx, "vcorr")
    if vcorr is None:
        log("harness build failed:\n" + out)
        return 1
    idx, im, mo, sp = eval_seq(ctx, vcorr, lines)
    for i, l in enumerate(lines):
        flag = "  <-- first divergence" if i == idx else ""
        log("%-50s impl=%s model=%s spec=%s%s" % (l, im[i] if i < len(im) else "?", mo[i] if i < len(mo) else "?",
                                                   sp[i] if i < len(sp) else "?", flag))
    if idx is not None:
        log("VIOLATION property=%s replay=%s" % (ctx.prop, path))
        return 1
    log("replay agrees with the model")
    return 0


def main(argv):
    import props
    if not argv:
        print(__doc__)
        return 2
    if argv[0] == "setup":
        return setup()
    prop = argv[0]
    tier = os.environ.get("VERIF_TIER", "quick")
    rp = None
    i = 1
    while i < len(argv):
        if argv[i] == "--tier":
            tier = argv[i + 1]
            i += 2
        elif argv[i] == "--replay":
            rp = argv[i + 1]
            i += 2
        else:
            i += 1
    seed = int(os.environ.get("VERIF_SEED", "1") or "1")
    if prop not in props.PROPS:
        print("unknown property", prop)
        return 2
    cfg = props.PROPS[prop]
    ctx = Ctx(prop, tier, seed)
    try:
        if rp:
            if cfg.get("replay"):       # property-specific replay (e.g. C01: process-level scenarios)
                return cfg["replay"](ctx, cfg, rp)
            return replay(ctx, cfg, rp)
        log("== %s (%s, seed %d)" % (prop, tier, seed))
        lean_stage(ctx, cfg)
        if tier == "thorough":
            leanchecker_stage(ctx, cfg)
        for step in cfg.get("pre", []):
            step(ctx, cfg)
        run_corpus(ctx, cfg)
        if any(k == "divergence" and p for k, _, p in ctx.problems) and not os.environ.get("VERIF_KEEP_GOING"):
            # a failing input is already in hand (a regression case diverges): the random search is not
            # needed for the verdict, and on a broken tree it can be arbitrarily slow
            log("  a corpus case already fails: generated sequences skipped (VERIF_KEEP_GOING=1 runs them anyway)")
        else:
            for comp in cfg.get("components", []):
                correspondence(ctx, comp, comp.get("label"))
            for step in cfg.get("extra", []):
                step(ctx, cfg)
        return finish(ctx, cfg)
    finally:
        if os.path.realpath(REPO) != "/repo" and os.path.isdir("/repo") and not rp:
            # a run against another tree (mutant qualification): leave the committed generated files as they
            # are for /repo itself (they are regenerated on every run anyway)
            try:
                with Lock("lean"):
                    regen(ctx, "/repo", quiet=True)
            except Exception:
                pass
        ctx.cleanup()
