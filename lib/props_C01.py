from props import COMMON_TB
import steps_C01

ID = "C01"
PROP = {
    "modules": ["Gnmi.Props.C01", "Gnmi.Props.C01Glue"],
    "theorems": ["Gnmi.C01." + t for t in [
        # the composition
        "collector_cache_holds_final_view", "pipeline_faithful_once_partial", "once_client_holds_expected",
        "pipeline_faithful_partial", "start_fresh", "start_threshold", "start_holds",
        # collector glue
        "stamp_target_spec", "stamp_target_keeps_origin", "stamp_target_idempotent",
        "configured_targets_registered", "configured_targets_managed", "configured_targets_managed_eq",
        "configured_targets_registered_preD16_false",
        # gnmi_cli
        "proto_file_same_as_proto", "cli_invocations_equivalent", "proto_file_ignored_preD17",
        "parse_query_plain", "parse_queries_plain",
        # client decode
        "decode_index_and_scalar", "decode_index_and_scalar_tree", "decode_delete", "decode_sync", "decode_total",
        "decode_err_only_outside"]] + [
        "Gnmi.Relay." + t for t in [
            "relay_update", "relay_delete", "relay_notification", "good_gnmiUpdate", "Holds.run", "once_sent",
            "walkItems_client", "walkedB_all", "viewOK_final"]],
    "components": [
        {"c": "e2e", "min_len": 1, "quick": {"n": 300, "exhaustive": True}, "thorough": {"n": 1500, "exhaustive": True, "seeds": 3}},
        # the client receive path and the CLI display on arbitrary response streams (client/gnmi/client.go, client/cache.go,
        # cli/cli.go are anchored here too; the surfaces' own theorems are C12's): among them the glob deletes that only a
        # Reset or Remove of the collector's cache sends, which no single-session e2e scenario contains
        {"c": "rx", "quick": {"n": 1200}, "thorough": {"n": 8000, "seeds": 2}},
    ],
    "pre": [steps_C01.facts_step],
    "extra": [steps_C01.wf_coverage, steps_C01.process_level],
    "replay": steps_C01.replay,
    # spec column = Relay.expected of the streams' final views (abstract spec) wherever the scenario is
    # inside the hypotheses of the property; the model's own answer elsewhere
    "monitor": "spec",
    "level": "proof",
    "rule": "one op line = one scenario: 1-3 configured targets (shared / distinct requests), each a stream of update / "
            "delete / multi-update notifications (both path encodings, mixed; keyed elements; origins; prefix absent / "
            "wrong target / split anywhere; every scalar arm, leaf-lists; equal, increasing and stale timestamps; wildcard "
            "and subtree deletes; re-adds; colliding paths; sync / error / empty responses) relayed in a random "
            "interleaving; a ONCE client per target after quiescence or a STREAM client per target subscribing after the "
            "first k responses (every k in the exhaustive scope); queries: whole target, wildcard, origin, origin+element, "
            "two paths. Run mode direct: real manager.handleGNMIUpdate -> cache -> subscribe.Server on a loopback gRPC "
            "listener -> client.CacheClient (gNMI transport) -> Leaves(); run mode agent (~20%): real manager.Manager + "
            "connection.Manager dialling real testing/fake/gnmi agents (fixed responses or generator mode = C20's queue, "
            "unfolded by the C20 model on the Lean side) or a scripted server. Observation: per target status + sorted "
            "path=value leaves. Process level (go/ve2e): the BUILT gnmi_collector and gnmi_cli binaries, TLS targets on "
            "loopback, per target three CLI invocations (flags / -proto / -proto_file) + a client-library STREAM client, "
            "compared with the model's expected tree: corpus/C01/proc_*.ops + seeded generation (quick 5, thorough 40). "
            "A scenario is non-trivial when some client holds a leaf; distinct = by hash of the op line",
    "trusted_base": COMMON_TB + [
        "the composed model Gnmi/Model/Pipeline.lean (what manager.handleGNMIUpdate, the collector's Update closure, "
        "collector.add/start, client/gnmi defaultRecv/noti, CacheClient and gnmi_cli's executeSubscribe do) over the "
        "component models Cache / Subscribe / PMap (C02, C03, C05, C09, C14): validated by the in-process e2e correspondence "
        "and, for everything inside package main of the two commands, by the process-level run of the built binaries",
        "gRPC / TLS transport, process start-up, the flag package, glog, prototext (the text `t` parses to request `R` is a "
        "hypothesis of cli_invocations_equivalent), OS scheduling: exercised by go/ve2e, not proved",
        "cli group display (displayWalk / pathmap nesting, %q / %v formatting): parsed back by go/ve2e, not modelled",
        "JSON-encoded values (json_val, json_ietf_val) are decoded by encoding/json: outside the scalar fragment",
    ],
    "assumptions": [
        "well-formed target streams (Relay.wellFormed): prefix-free keys, origin not `meta`, no element named `*` in "
        "update paths, values in the scalar fragment, no path-level origin, not atomic, per leaf non-decreasing timestamps "
        "(proved: increasing, or the stored timestamp and value re-sent), deletes newer than what they delete; the future threshold is disabled (cache.New(nil), as "
        "the collector creates it)",
        "valid collector configuration (target.Validate); only configured targets stream (the manager dials nobody else); "
        "target name not `*`; target names are printable ASCII (the manager sends the name as gRPC metadata: a name such as d\u00e9v "
        "makes every Subscribe attempt fail before it is sent - seen while building the harness, outside the property)",
        "sessions stay up (no Reset): a stream that ends makes the manager call cache.Reset, which empties the target "
        "(C13, C14); quiescence = every response handled",
        "writers to one target are serialised (one receive loop per target: C13)",
        "queries no longer than origin + one element in the full statement (ONCE selection and STREAM filter agree there: C06)",
    ],
    "manifest": {
        "level_text": "Lean 4 theorems about the composition of the component models along the wiring of cmd/gnmi_collector "
                      "(Model/Pipeline.lean) against an abstract spec (Spec/Relay.lean: a target's view = key -> last "
                      "value not deleted afterwards; expected client leaves = T :: origin-or-openconfig :: index path -> "
                      "ToScalar value): for every valid configuration of n >= 1 targets and every interleaving of "
                      "well-formed target streams (any number of notifications, any clock readings, subscribers joining "
                      "anywhere) the collector never crashes and its cache holds exactly each target's final view "
                      "(collector_cache_holds_final_view, by an inductive invariant over the run that composes C02's "
                      "accepted_is_stored / delete_exact and the per-target frame); a ONCE client of any configured target "
                      "(any query paths) ends OK and synced and holds exactly the expected leaves - none missing, extra or "
                      "stale (pipeline_faithful_once_partial, once_client_holds_expected, composing C05.once_static_exact); the Update closure forces the "
                      "configured target name and defaults the origin (stamp_target_spec); every configured target is "
                      "registered with the cache and handed to the manager (configured_targets_registered, _managed; "
                      "witness that this failed before the D16 repair); the three gnmi_cli invocations of one "
                      "subscription put the same request on the wire and reach the same display path "
                      "(cli_invocations_equivalent, composing C19's query round trip; D17 witness); the client's decode "
                      "yields index path and scalar (decode_index_and_scalar). Tied to the code by (1) source facts, (2) an "
                      "in-process composition correspondence on the real manager / cache / subscribe.Server over gRPC / "
                      "client.CacheClient (and real manager.Manager + fake agents incl. generator mode), (3) a process-level "
                      "run of the built gnmi_collector and gnmi_cli binaries against TLS targets, whose output is compared "
                      "with the model's expected tree.",
        "level_note": "Partial: proved are the cache clause, the ONCE clause and the STREAM clause (pipeline_faithful_stream_partial) for "
                      "per-leaf increasing timestamps or unchanged re-sends; not proved: a leaf re-sent with the same timestamp but another "
                      "value (needs raw-rendering faithfulness in the invariant) — computed by the executable model and checked by the "
                      "correspondence. The literal full statement is false for +0.0/-0.0 (pipeline_faithful_refuted; ExactStream hypothesis). "
                      "gRPC/TLS, process start-up, flag parsing, "
                      "prototext and the CLI's text rendering are exercised by the process-level run, not proved.",
        "technique": "Lean 4 proof (inductive invariant over interleaved runs; refinement of the cache to an abstract view; "
                     "composition of component theorems) + in-process and process-level model/implementation correspondence",
        "design_ref": "DESIGN.md §8 C01",
    },
}

# the STREAM clause (Props/C01Stream.lean), composing C04Seq: see docs/STREAM_SEQ_NOTES.md
from c04seq_part import MODULES as _SEQ_MODULES, MODULES_C01 as _C01S_MODULES, THEOREMS_C01 as _C01S_THEOREMS
PROP["modules"] += _SEQ_MODULES + _C01S_MODULES
PROP["theorems"] += _C01S_THEOREMS
PROP["manifest"]["level_text"] += (
    " STREAM clause: pipeline_faithful_stream_partial — a STREAM client subscribing at any point of the run holds Relay.expected at the end "
    "(second conjunct of pipeline_faithful, for wellFormed true streams, no target named '*', ExactStream: values whose value.Equal is identity; "
    "exactV_of_noFloat: every value without float/double). pipeline_faithful_refuted: without ExactStream the literal statement is false of model "
    "and code — a target sending +0.0 then -0.0 has the second update withheld as 'unchanged' (value.Equal compares doubles with ==), so a "
    "STREAM client keeps +0.0 where the cache stores -0.0: numerically equal, recorded as an interpretation of 'same value' (DESIGN.md 13.3).")

# the property's own stream hypotheses (wellFormed false + RawFaithful): Props/C01Same.lean, Lemmas/PipelineSame.lean
PROP["modules"] += ["Gnmi.Lemmas.PipelineSame", "Gnmi.Props.C01Same"]
PROP["theorems"] += ["Gnmi.C01." + t for t in [
    "collector_cache_holds_final_view_nondecreasing", "pipeline_faithful_once_nondecreasing_leaves",
    "pipeline_faithful_once_nondecreasing", "pipeline_faithful_once_clause_holds",
    "pipeline_faithful_stream_nondecreasing", "pipeline_faithful_nondecreasing",
    "once_of_cache", "holdsExpected_of_leaves", "start_holds2",
    # non-vacuity and necessity of RawFaithful
    "stepsSame_senders", "stepsSame_hyps", "stepsSame_exact", "stepsSame_split", "stepsSame_ids",
    "unfaithful_witness", "once_fails_without_rawFaithful",
    "viewFacts_run_nd", "updatesOf_append"]] + ["Gnmi.Relay." + t for t in [
    "relay_update_nd", "relay_multiUpdates_nd", "relay_dispatch_nd", "relay_notification_nd",
    "from_update1", "from_gnmiUpdate", "Holds2.toHolds", "Holds2.connect", "Holds2.deliver", "Holds2.step",
    "Holds2.run", "viewOK_final_nd"]] + ["Gnmi.C01S." + t for t in [
    "stamp_clean_nd", "eventsP_update_nd", "sys_deliver_nd", "run_tr4_nd"]]
PROP["manifest"]["level_text"] += (
    " Property's own stream hypotheses (Props/C01Same.lean): collector_cache_holds_final_view_nondecreasing, "
    "pipeline_faithful_once_nondecreasing (= the ONCE clause of pipeline_faithful exactly as stated: "
    "pipeline_faithful_once_clause_holds) and pipeline_faithful_stream_nondecreasing (STREAM clause; extra hypotheses no '*' "
    "target, ExactStream) hold for wellFormed false (per leaf non-decreasing timestamps: the stored timestamp with another "
    "value) and RawFaithful streams: the run invariant Relay.Holds2 carries the provenance of every stored update (Relay.From), "
    "so a same-timestamp update that the cache rejects as proto.Equal has the stored value, and one it accepts replaces it. "
    "RawFaithful cannot be dropped (once_fails_without_rawFaithful).")
PROP["manifest"]["level_note"] = (
    "Partial: proved are the cache clause and the ONCE clause exactly as stated (wellFormed false = per-leaf non-decreasing "
    "timestamps, RawFaithful; pipeline_faithful_once_clause_holds), and the STREAM clause under the same stream hypotheses plus "
    "`no target named *` and ExactStream (pipeline_faithful_stream_nondecreasing). The literal full statement is false for "
    "+0.0/-0.0 (pipeline_faithful_refuted; ExactStream hypothesis). gRPC/TLS, process start-up, flag parsing, "
    "prototext and the CLI's text rendering are exercised by the process-level run, not proved.")
PROP["assumptions"] = [a.replace(
    "per leaf non-decreasing timestamps (proved: increasing, or the stored timestamp and value re-sent)",
    "per leaf non-decreasing timestamps with faithful raw renderings (C01.RawFaithful: two updates of one stream with equal "
    "canonical renderings have equal values - what proto.Equal guarantees)") for a in PROP["assumptions"]]
# the CLI-output clause (Props/C01Cli.lean, Lemmas/PipelineCli.lean, Model/CliGroup.lean): cli.displayWalk / pathmap.add over
# the ONCE client's leaves
PROP["modules"] += ["Gnmi.Lemmas.PipelineCli", "Gnmi.Props.C01Cli"]
PROP["theorems"] += ["Gnmi.C01." + t for t in [
    "display_walk_faithful", "display_walk_faithful_off", "displayWalk_eq", "client_group_display",
    "showsExpected_of_holds", "cli_group_display_faithful", "cli_faithful_once_clause_holds", "cli_sorted_shows_leaves",
    "represents_exists", "cli_display_walk_faithful",
    "toReq_clientReq", "queryClient_once", "cli_three_routes_same_view",
    "proto_display_as_received", "single_display_as_received", "run_sim",
    # non-vacuity
    "cSame_displayed", "parseQueries_c", "plain_c"]] + ["Gnmi.RX." + t for t in [
    "pmAddNE_leaves", "blocked_leaf", "pmAddNE_apart", "pmAddAll_leaves", "displayWalk_leaves"]] + [
    "Gnmi.Pipeline." + t for t in [
    "run_treeInv", "once_treeInv", "cliGroupOf_leaves", "trieOf_spec", "sortedWalk_perm", "exists_trie", "mem_leafValues"]]
PROP["manifest"]["level_text"] += (
    " CLI-output clause (Props/C01Cli.lean): cli_group_display_faithful / cli_faithful_once_clause_holds - under exactly the "
    "hypotheses of the ONCE clause, cli.displayWalk's pathmap.add sequence over the ONCE client's leaves (any walk order; "
    "WalkSorted's in particular) returns - no panic of the unchecked mm.(pathmap), no collision - a pathmap whose leaves "
    "(RX.pmLeaves: what pathmap.str prints and go/ve2e parses back) are a permutation of the client's leaves with the same "
    "values, no path twice, all under T, and outside meta/ exactly Relay.expected; the same through RX.displayWalk for every "
    "timestamp setting on any ctree holding the client's leaves (cli_display_walk_faithful; display_walk_faithful for every "
    "well-formed client tree); cli_three_routes_same_view composes cli_invocations_equivalent with it: flags / -proto / "
    "-proto_file display one and the same pathmap, the expected one; proto / single display modes: one display call per "
    "response, one line per delivered update / delete (proto_display_as_received, single_display_as_received). The driver op "
    "`e2e cli` prints the leaves of that pathmap; the process-level run compares the built gnmi_cli's output with it.")
PROP["trusted_base"] = [a.replace(
    "cli group display (displayWalk / pathmap nesting, %q / %v formatting): parsed back by go/ve2e, not modelled",
    "cli text rendering (pathmap.str: %q / %v formatting, indentation, key sorting): parsed back by go/ve2e, not modelled; "
    "displayWalk / pathmap.add nesting is modelled (RX.displayWalk, Pipeline.cliGroupOf) and proved faithful "
    "(C01.cli_group_display_faithful); the decoding of the wire bytes into the Pipeline model's index-form responses is "
    "not composed with C12's protobuf-shaped receive model") for a in PROP["trusted_base"]]

# session restarts (Reset at every ended target stream): Model/Pipeline.lean §9 (StepR, Sys.runR), Spec/Relay.lean
# (viewR, lastSession), Lemmas/PipelineRestart.lean, Props/C01Restart.lean; e2e scenario items <i>R / <i>Z
PROP["modules"] += ["Gnmi.Lemmas.PipelineRestart", "Gnmi.Props.C01Restart"]
PROP["theorems"] += ["Gnmi.C01." + t for t in [
    "collector_cache_holds_final_view_restart", "no_stale_leaf_after_restart", "pipeline_faithful_once_restart",
    "pipeline_faithful_stream_restart", "pipeline_faithful_restart", "stream_holdsExpected", "restart_generalises",
    "start_holds3",
    # non-vacuity, and necessity of the Reset callback (the clean-EOF witness)
    "stepsR_senders", "stepsR_hyps", "stepsR_exact", "stepsR_split", "stepsR_ids", "skipping_reset_leaves_stale_leaf"]] + [
    "Gnmi.Relay." + t for t in [
    "reset_relay", "Holds3.reset", "Holds3.connectError", "Holds3.stepR", "Holds3.runR", "viewR_lastSession",
    "wellFormedR_sessions", "lastSession_mem", "lastSession_lift", "sessionsOf_lift"]] + [
    "Gnmi.C01S." + t for t in ["eventsP_reset", "eventsP_connectError", "sys_reset", "sys_connectError", "run_tr4_R"]] + [
    "Gnmi.Pipeline.Sys.runR_lift"]
PROP["manifest"]["level_text"] += (
    " Session restarts (Props/C01Restart.lean): the run type Pipeline.StepR adds the end of a target's session - "
    "manager.handleUpdates calls the Reset callback = cache.Reset whenever Recv fails (error, clean io.EOF, receive timeout, "
    "forced reconnect), monitor records cache.ConnectError - and the spec resets the target's view to empty there "
    "(Relay.viewR; expected = final view of the target's LAST session). For every interleaving of sessions with any number "
    "of restarts per target at any points, each session well formed on its own (timestamps may start over): the cache holds "
    "exactly each target's last-session view (collector_cache_holds_final_view_restart, no_stale_leaf_after_restart; "
    "C14.reset_clears + per-target frame), a ONCE client holds exactly Relay.expected of it (pipeline_faithful_once_restart) "
    "and so does a STREAM client that subscribed anywhere, before or between restarts (pipeline_faithful_stream_restart: it is "
    "sent the Reset's T/<root>/* deletes; C04Seq's history type covers Reset, so not partial; same extra hypotheses as "
    "pipeline_faithful_stream_nondecreasing). Runs without restarts are the old runs (restart_generalises, Sys.runR_lift). "
    "skipping_reset_leaves_stale_leaf: the same run without the reset step keeps a leaf the target no longer has. The e2e "
    "correspondence ends sessions cleanly (target returns nil -> io.EOF) and abruptly, through the real manager.handleUpdates "
    "(run mode direct) and the real manager.Manager against a scripted multi-session gNMI server (run mode agent).")
PROP["assumptions"] = [a.replace(
    "sessions stay up (no Reset): a stream that ends makes the manager call cache.Reset, which empties the target "
    "(C13, C14); quiescence = every response handled",
    "a session that ends (Recv error of any kind, incl. io.EOF) is followed by cache.Reset and a new session whose stream is "
    "well formed on its own; a target's final state is what its last session carried; quiescence = every response handled "
    "(that the manager does resubscribe, and the receive-timeout / forced-reconnect paths into the same Recv error: C13)")
    for a in PROP["assumptions"]]
PROP["rule"] += ("; session restarts: a target's session is cut (R: error status) or closed cleanly by the target (Z: handler "
                 "returns nil, io.EOF at the collector) 1-2 times in a third of the targets, the target coming back with "
                 "fewer leaves, possibly an earlier clock, possibly an empty session - in run mode direct through the real "
                 "receive loop manager.handleUpdates on a scripted stream, in run mode agent through manager.Manager and a "
                 "scripted multi-session gNMI server; exhaustive scope: every subscription point across a restart, both kinds; "
                 "corpus/C01/clean_eof_then_smaller_state.ops")
# --- round 2 (builder bVALEQ): the suppression test behind ExactStream is Go's value.Equal (Props/C19ValueEq.lean)
PROP["modules"].append("Gnmi.Props.C19ValueEq")
PROP["theorems"] += ["Gnmi.C19.valueEqual_eq_equal", "Gnmi.C19.valueEqual_sound", "Gnmi.C19.valueEqual_sound_exact"]
PROP["manifest"]["level_text"] += (
    " The value test behind ExactStream (Cache.valueEqual) is the C19 model of value.Equal on every value the cache model holds "
    "(valueEqual_eq_equal), and a suppressed update carries the same value up to the sign of a floating-point zero (valueEqual_sound).")
# --- round 2 (builder bC01W): the pipeline on protobuf-shaped messages ("whatever the value types, list keys or origins
# involved"): Model/PipelineWire.lean (wire-level run out of Wire.mgrRecv / stampWire / wireGnmiUpdate), Lemmas/PipelineWire.lean,
# Props/C01Wire.lean; driver + harness component e2ew (lean/Driver/E2EW.lean, go/vcorr/e2ew.go)
PROP["modules"] += ["Gnmi.Model.PipelineWire", "Gnmi.Lemmas.PipelineWire", "Gnmi.Props.C01Wire"]
PROP["theorems"] += ["Gnmi.C01W." + t for t in [
    # target side: the wire-level run is the index-form run on the toNoti-translated responses
    "wire_run_is_index_run", "wire_run_is_index_run_from", "wire_runR_is_index_runR", "wsessionSteps_toStep",
    "collector_cache_holds_final_view_wire", "pipeline_faithful_once_wire", "pipeline_faithful_stream_wire",
    "pipeline_faithful_once_restart_wire",
    # client side
    "client_decode_commutes", "client_delete_commutes", "client_recv_commutes", "expected_leaves_wire", "wfinalView_src",
    "expected_leaves_wire_toScalar",
    # key order, encodings
    "toItem_key_order", "wire_key_order_irrelevant", "wkey_key_order", "toStrings_encodings", "wkey_encodings",
    # the arms ToScalar does not map one to one; the fragment in wire terms
    "decimal_is_float32", "decimal_collapse", "leaflist_elementwise", "json_outside_fragment",
    "nested_leaflist_outside_fragment", "wire_fragment_iff",
    # the wire-level finding (update without `path` field) and its proved complement
    "client_accepts_stored_partial", "nil_path_update_fails_client", "client_accepts_stored_full_false",
    # non-vacuity: the computed wire-level run
    "exRun_eq", "ex_once_dev1", "ex_once_dev2", "ex_expected", "ex_once_is_expected", "exStepsB_ok", "exStepsB_wf"]] + [
    "Gnmi.PW." + t for t in [
    "toNoti_stamp_exact", "wdeliver_eq", "wrecv_eq", "wstep_eq", "wrun_eq", "wrunR_eq", "sinv_run", "sinv_runR",
    "wdeliver_stamped", "tailOK_of_b", "keyOf_toNoti", "absView_wfinalView", "itemsOf_toStep", "senders_toStep",
    "scalar_decode_commutes", "list_decode_commutes", "value_decode_commutes", "path_decode_commutes"]]
PROP["components"].append(
    # the e2e scenarios with the notifications given in the WIRE-SHAPED token (prefix / elem with key map in a written
    # order / deprecated element / TypedValue arm): the Lean side translates the message itself (Wire.toNoti, Wire.stampWire)
    # and computes the expected client tree from the wire-level view (PW.wfinalView); every key map written in a random
    # order, sometimes both encodings set; exhaustive scope: the run of C01W.exSteps, ONCE and every STREAM subscription point
    {"c": "e2ew", "min_len": 1, "quick": {"n": 150, "exhaustive": True}, "thorough": {"n": 800, "exhaustive": True, "seeds": 2}})
PROP["manifest"]["level_text"] += (
    " Protobuf-shaped messages (Props/C01Wire.lean, Model/PipelineWire.lean): the same pipeline run on decoded "
    "gnmi.SubscribeResponses - Elem vs deprecated Element, key maps in any iteration order, origin in prefix or path, every "
    "TypedValue arm - through the wire-level models of manager.handleGNMIUpdate, the collector's Update closure on the protobuf "
    "prefix and Cache.GnmiUpdate on the message (C12's Wire.mgrRecv / stampWire / toNoti) IS the index-form run on the "
    "translated responses (wire_run_is_index_run, wire_runR_is_index_runR; hypotheses: WireValid responses, well-formed cache "
    "state - true from start on -, and TailOK: the index model's String.splitOn on a rendered prefix finds its element half, a "
    "fact about the string encoder that the e2ew driver evaluates on every prefix), so the cache / ONCE / STREAM / restart "
    "theorems hold of wire-level targets (collector_cache_holds_final_view_wire, pipeline_faithful_once_wire, "
    "pipeline_faithful_stream_wire, pipeline_faithful_once_restart_wire); the run does not depend on the iteration order of any "
    "key map (wire_key_order_irrelevant, composing C19.toStrings_perm_invariant) and both path encodings give the same key "
    "(wkey_encodings). Client side: client/gnmi noti() on the protobuf response of a stored notification yields the index "
    "path and the value.ToScalar value the index-form client holds (client_decode_commutes, client_recv_commutes; floats by bit "
    "pattern, a decimal as the pair whose float32 quotient ToScalar returns: decimal_is_float32, decimal_collapse; leaf-lists "
    "element-wise; JSON / any / ascii / proto_bytes / nested leaf-lists are outside the fragment: wire_fragment_iff, "
    "json_outside_fragment), hence the leaves a ONCE client holds are T :: origin-or-openconfig :: ToStrings(prefix) ++ "
    "ToStrings(path) -> ToScalar(value) of the target's final wire-level view (expected_leaves_wire, "
    "expected_leaves_wire_toScalar, wfinalView_src). A wire-level finding the index form cannot see: an update WITHOUT path "
    "field (whole path in the prefix) is stored and relayed but rejected by client/gnmi (client_accepts_stored_full_false; "
    "corpus/C01/wire_nil_path_update.ops; proposed_fixes/client_nil_update_path.diff); with the field present the client "
    "accepts every stored leaf (client_accepts_stored_partial). Correspondence: component e2ew runs the e2e scenarios from "
    "wire-shaped tokens, the expected tree computed through these translations.")
PROP["trusted_base"] = [a.replace(
    "the decoding of the wire bytes into the Pipeline model's index-form responses is "
    "not composed with C12's protobuf-shaped receive model",
    "the Pipeline model's index-form responses are composed with C12's protobuf-shaped models on the target side "
    "(C01W.wire_run_is_index_run, modulo TailOK: String.splitOn on the encoder's output, evaluated by the e2ew driver) and, per "
    "response, on the client side (C01W.client_recv_commutes); the Subscribe server's wire responses are not modelled as a "
    "whole run (the server sends the stored notification: C12 RX.makeResponse)") for a in PROP["trusted_base"]]
PROP["rule"] += ("; component e2ew: the same scenarios with every notification in the wire-shaped token (key maps written in a "
                 "random order, Elem / Element / both, origin and target fields), corpus/C01/wire_nil_path_update.ops")

PROP["assumptions"] += [
    "`su rwalk` (corpus) and the second ONCE query of the final e2e clients on the same client object are Go-side "
    "monitors: they only ever add a suffix / verdict when the real code misbehaves and have no model run behind them",
]
