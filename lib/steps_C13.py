"""Extra steps of the C13 check: the mg scenarios once more on a `-race` build (thorough tier)."""
import os, subprocess
import vcheck


def race_run(ctx, cfg):
    """Corpus + seeded scenarios on a race-detector build of the harness: observations must still
    agree with the model and the detector must stay silent (manager.go's own synchronisation)."""
    if ctx.tier != "thorough" and not os.environ.get("VERIF_RACE"):
        return
    vr, out = vcheck.go_build(ctx, "vcorr", race=True)
    if vr is None:
        ctx.problems.append(("build", "race build of the harness failed:\n" + out[-3000:], None))
        return
    opsf = os.path.join(ctx.scratch, "mg-race.ops")
    with open(opsf, "w") as fh:
        subprocess.run([vr, "gen", "-c", "mg", "-tier", ctx.tier, "-seed", str(ctx.seed + 77), "-n", "150"],
                       stdout=fh, stderr=subprocess.PIPE, text=True, env=vcheck.GOENV)
    with open(opsf) as fh:
        ops = [l for l in fh.read().split("\n") if l]
    impl, r1 = vcheck.run_lines([vr, "run"], ops, env=vcheck.GOENV)
    mod, _ = vcheck.run_lines(vcheck.model_bin(), ops)
    races = r1.stderr.count("WARNING: DATA RACE")
    ctx.cov["components"]["mg-race"] = {"evaluations": len(ops), "data_races": races}
    ctx.cov["evaluations"] += len(ops)
    vcheck.log("  mg -race: %d ops, %d data races" % (len(ops), races))
    if races:
        i = r1.stderr.find("WARNING: DATA RACE")
        ctx.problems.append(("race", "race detector report while driving manager.Manager:\n" + r1.stderr[i:i + 3000], None))
    for seq in vcheck.split_sequences(ops):
        for i in seq:
            a = impl[i] if i < len(impl) else "<no-output>"
            m = (mod[i] if i < len(mod) else "<no-output>").split("\t")
            if a != m[0]:
                lines = [ops[k] for k in seq]
                payload = {"component": "mg-race", "ops": lines, "impl": [impl[k] for k in seq],
                           "model": [mod[k].split("\t")[0] for k in seq], "spec": [mod[k].split("\t")[-1] for k in seq],
                           "first_divergence": seq.index(i)}
                ctx.problems.append(("divergence", "implementation (race build) and model disagree on a mg sequence", payload))
                return
