from props import COMMON_TB

ID = "C03"
PROP = {
    "unclaimed": True,
    "modules": [],
    "theorems": [],
    "components": [
        {"c": "ca", "quick": {"n": 1500}, "thorough": {"n": 20000, "seeds": 4}},
    ],
    "monitor": "spec",
    "level": "proof",
    "trusted_base": COMMON_TB,
    "assumptions": [],
    "manifest": {"level_text": "", "level_note": "", "technique": ""},
}
