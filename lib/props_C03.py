from cacheprops import CACHE_TB, CACHE_ASSUMPTIONS, ca_component

import facts

ID = "C03"
PROP = {
    "modules": ["Gnmi.Props.C03"],
    "theorems": ["Gnmi.C03." + t for t in [
        "withheld_only_if", "atomic_unit", "delete_events", "delete_event_path",
        "dispatch_single_upd", "dispatch_single_del", "multiUpdates_round"]],
    "components": [ca_component("", 2000, 30000)],
    "monitor": "spec", "level": "proof",
    "trusted_base": CACHE_TB + ["the replay monitor (feed events applied by the harness itself to a view, compared with Cache.Query) is part of the harness"],
    "assumptions": CACHE_ASSUMPTIONS + [
        "origin of a cached notification is carried in the prefix (cache's stated contract); sequences with path-level origins are still "
        "compared with the model but not with the replay monitor",
    ],
    "manifest": {
        "level_text": "Lean 4 theorems over the cache model: an update is withheld from the feed only if rejected or (event-driven on, plain leaf, "
                      "value unchanged) and what is fed is the notification itself (withheld_only_if); atomic notifications are stored and fed as "
                      "one unit (atomic_unit); each removed leaf yields exactly one delete event built from its own notification whose announced "
                      "path is the leaf's index (delete_events, delete_event_path); one round of the multi-update loops is the single-notification "
                      "arm (dispatch_single_*, multiUpdates_round). The replay equivalence itself (applying the feed reproduces Query at every "
                      "quiescent point, also with shared prefix objects and re-sent notification objects) is checked on every run by a model-independent "
                      "monitor in the harness over generated histories, and the model is tied to the code by the ca correspondence; "
                      "the general simulation theorem is stated in DESIGN and not yet proved in Lean (partial).",
        "level_note": "Trusted: Lean kernel; model validated by the ca correspondence; harness replay monitor; Go runtime. Partial: the whole-history "
                      "simulation theorem feed_simulation is validated by the monitor, not yet kernel-checked.",
        "technique": "Lean 4 proof of the per-step feed laws + model/implementation correspondence with aliasing generators + model-independent feed-replay monitor",
    },
}
PROP.setdefault("pre", []).append(facts.make_step(['cache.update.writeThenNotify', 'cache.update.conditions']))
