from cacheprops import CACHE_TB, CACHE_ASSUMPTIONS, ca_component
from subprops import su_component

import facts

ID = "C03"
PROP = {
    "modules": ["Gnmi.Props.C03", "Gnmi.Props.C03Sim"],
    "theorems": ["Gnmi.C03." + t for t in [
        "withheld_only_if", "atomic_unit", "delete_events", "delete_event_path",
        "dispatch_single_upd", "dispatch_single_del", "multiUpdates_round",
        "feed_simulation", "history_never_panics", "feed_replay_exact", "feed_replay_values", "feed_replay_same_when_differs",
        "cache_feed_simulation_from", "cache_feed_simulation", "cache_replay_exact", "cache_replay_unknown_empty"]] + [
        "Gnmi.Feed.step_ssim", "Gnmi.Feed.reset_sim", "Gnmi.Feed.updateMeta_sim", "Gnmi.Feed.updateMetadata_ssim",
        "Gnmi.Feed.gnmiUpdate_sim", "Gnmi.Feed.dispatch_sim", "Gnmi.Feed.GT.delete", "Gnmi.Feed.GT.set", "Gnmi.Feed.GT.suppress",
        "Gnmi.Feed.valueEqual_trans"],
    "components": [ca_component("", 2000, 30000), su_component("c08", 120, 1200)],
    "monitor": "spec", "level": "proof",
    "trusted_base": CACHE_TB + ["the replay monitor (feed events applied by the harness itself to a view, compared with Cache.Query) is part of the harness"],
    "assumptions": CACHE_ASSUMPTIONS + [
        "origin of a cached notification is carried in the prefix (cache's stated contract); sequences with path-level origins are still "
        "compared with the model but not with the replay monitor",
    ],
    "manifest": {
        "level_text": "Lean 4 theorems over the cache model. Per step: an update is withheld from the feed only if rejected or (event-driven on, "
                      "plain leaf, value unchanged) and what is fed is the notification itself (withheld_only_if); atomic notifications are stored and "
                      "fed as one unit (atomic_unit); each removed leaf yields exactly one delete event built from its own notification whose announced "
                      "path is the leaf's index (delete_events, delete_event_path). Whole histories: feed_simulation — for every history of "
                      "notifications of any shape (single, multi-update, atomic, wildcard deletes, metadata-addressed, stale/future/colliding), any clock "
                      "readings and any configuration, the view that applies the emitted events with the replay rule of the property (update sets a leaf, "
                      "atomic update replaces its subtree, delete removes what it matches) agrees with the cache leaf by leaf; feed_replay_exact — with "
                      "event-driven emulation off the replica holds exactly the cache's (index, notification) pairs; feed_replay_values / "
                      "feed_replay_same_when_differs — with it on, same leaves, and a leaf differs from the cache's only by updates with an equal "
                      "value (value.Equal is proved transitive, so chains of suppressed updates stay equal). Explicit hypotheses: target named in the "
                      "prefix; no update index element literally '*'; origin carried in the prefix. The model is tied to the code by the ca "
                      "correspondence (aliasing generators: shared prefix objects, re-sent notification objects) and, independently of the model, by a "
                      "replay monitor in the harness that applies the real feed to a view and compares it with Cache.Query at every quiescent point. "
                      "Whole cache: cache_feed_simulation — over every history of API calls (Add of a fresh name, Remove, Reset, Sync, Connect, ConnectError, "
                      "GnmiUpdate of any shape, periodic UpdateMetadata) on any number of targets, routing each event to the view of the target it names, "
                      "every registered target's view follows its tree and every unknown/removed target's view is empty (cache_replay_exact, "
                      "cache_replay_unknown_empty). Extra explicit hypotheses there: Add only under a fresh non-empty name (Cache.Add on a registered "
                      "name silently replaces the target: the feed is not told), first index element not the empty string (Reset announces a top-level "
                      "subtree r as origin r / path *, which for r = \"\" reads as everything).",
        "level_note": "Trusted: Lean kernel; model validated by the ca correspondence; harness replay monitor; Go runtime. The simulation theorems cover "
                      "every cache API call of the model; what they assume of the input (Clean, fresh Add) is listed in DESIGN.md and enforced by the generators.",
        "technique": "Lean 4 proof (simulation between the cache model and a feed-replaying view, by induction over histories) + model/implementation "
                     "correspondence with aliasing generators + model-independent feed-replay monitor",
    },
}
PROP.setdefault("pre", []).append(facts.make_step(['cache.update.writeThenNotify', 'cache.update.conditions']))

# --- round 2 (builder bC02H): multi-update notification = its units one at a time (Props/C03Multi.lean)
PROP["modules"].append("Gnmi.Props.C03Multi")
PROP["theorems"] += ["Gnmi.C03." + t for t in [
    "multi_eq_units", "multi_eq_units_components", "seqDispatch_updUnits", "seqDispatch_delUnits", "seqDispatch_append",
    "multiDeletes_round", "multi_ne_units_future", "not_multiEqUnitsAtGnmiUpdate"]]
PROP["manifest"]["level_text"] += (
    " Multi = units (multi_eq_units): for every target state, configuration and clock, Target.dispatch of a non-atomic notification with at "
    "least two updates/deletes equals dispatching its single-update units in order and then its single-delete units one at a time - same "
    "tree, same metadata counters, same event groups in the same order, result err iff some unit erred. At Target.GnmiUpdate level the "
    "clause is false with a future threshold, because checkTimestamp is deferred to the end of a multi-update notification: an update "
    "rejected as future inside the notification is accepted when the units are sent separately (multi_ne_units_future, "
    "not_multiEqUnitsAtGnmiUpdate; the Go code behaves the same: corpus/C03/multi_vs_units_future.ops).")
# --- round 2 (builder bVALEQ): multi = units at Target.GnmiUpdate level without a future threshold (Props/C03MultiNoThr.lean);
# the caller's notification object (Model/CacheMut.lean, Props/C03Unmodified.lean)
PROP["modules"] += ["Gnmi.Props.C03MultiNoThr", "Gnmi.Model.CacheMut", "Gnmi.Props.C03Unmodified"]
PROP["theorems"] += ["Gnmi.C03." + t for t in [
    "dispatch_setLatest", "dispatch_latest", "gnmiUpdate_setLatest", "seqGnmiUpdate_follows", "seqGnmiUpdate_latest",
    "multi_eq_units_at_gnmiUpdate_no_threshold", "multi_eq_units_at_gnmiUpdate_no_threshold_full",
    "multiEqUnitsAtGnmiUpdate_noThr", "latest_differs_meta_first", "latest_differs_meta_second", "not_full_with_meta"]] + [
    "Gnmi.CacheMut." + t for t in [
    "caller_notification_restored", "restored_on_panic", "shared_prefix_untouched", "cleared_while_running",
    "clone_fresh_header_and_prefix", "clone_shares_update_object", "clone_never_aliases_false",
    "single_update_stores_callers_object", "inv_step", "reaches_done"]]
PROP["manifest"]["level_text"] += (
    " Without a future threshold (cfg.futureThr <= 0) the clause 'multi = units' holds at Target.GnmiUpdate level too "
    "(multi_eq_units_at_gnmiUpdate_no_threshold): same feed event groups, same tree, counters and sync flag for every state, clock and "
    "non-panicking notification; dispatch neither reads nor writes the latest timestamp then (dispatch_setLatest). Only the latest "
    "timestamp may differ, because the deferred checkTimestamp is armed by Update[0] alone: witnesses latest_differs_meta_first / "
    "_second (first update under meta/ and a later one not, and the reverse), checked against the Go code by "
    "corpus/C03/multi_vs_units_latest.ops; with no update under meta/ the targets are equal, latest timestamp included "
    "(multi_eq_units_at_gnmiUpdate_no_threshold_full). Caller's notification (Model/CacheMut.lean: heap of message objects, small-step "
    "machine for the one place where Target.GnmiUpdate writes through its argument - n.Update, n.Delete = nil, nil with the deferred "
    "restore): caller_notification_restored - for every heap, notification and outcome of the calls made on the way, rejections and a "
    "panic inside either loop included (the defer still runs), every object that existed before the call has its initial content "
    "afterwards: the caller's notification, its prefix object whoever shares it, its update messages; cleared_while_running - during the "
    "loops the caller's notification is observably empty; clone_fresh_header_and_prefix / clone_shares_update_object - each unit stored "
    "and fed is a fresh notification with a fresh prefix object (proto.Clone is deep) but carries the caller's own *pb.Update object by "
    "pointer (clone_never_aliases_false); single_update_stores_callers_object - the single-update and atomic arms store and feed the "
    "caller's own notification object.")
PROP["manifest"]["level_text"] += (
    " The object-level statements are tied to the code by the monitor op `ca own` (go/vcorr/ca_own.go, corpus/C03/caller_object_identity.ops): "
    "with pointer comparisons on the real cache it checks that the restored slices hold the caller's own pointers, that the caller's "
    "notification is empty inside the client callback of a multi notification, that multi units are fresh notifications with a fresh "
    "prefix object carrying the caller's own *pb.Update object, and that single-update / atomic notifications are stored and fed as the "
    "caller's own object; also with a second notification sharing the prefix object.")
