from props import COMMON_TB
import steps_C06

ID = "C06"
PROP = {
    "modules": ["Gnmi.Props.C06"],
    "theorems": ["Gnmi.C06." + t for t in [
        "update_iff_compatible", "updateOnce_iff_compatible", "update_count",
        "query_subset_stream", "stream_eq_truncated_query",
        "once_per_notification", "once_per_server_update", "notification_iff_compatible",
        "updateOnce_shared_once", "updateMany_iff_compatible",
        "removed_is_silent", "remove_frame", "remove_idempotent", "remove_restores", "remove_unregistered",
        "subscription_path_consistent", "subscription_path_consistent_target",
        "unsubscribe_silent", "unsubscribe_regs",
        "reachable_wf", "reachable_regs", "reachable_regs_nodup",
        "update_refines_spec", "updateOnce_refines_spec", "notification_refines_spec", "dump_refines_spec",
        "d11_guard_witness"]],
    "components": [
        {"c": "ma", "quick": {"n": 12000, "exhaustive": True},
         "thorough": {"n": 80000, "exhaustive": True, "seeds": 4}},
    ],
    # after the generic impl-vs-model diff: the two driver columns (model, spec) must agree on
    # every evaluated operation (they are proved equal: *_refines_spec), and the implementation
    # must agree with the spec column on the corpus
    "extra": [steps_C06.columns_agree],
    "monitor": "spec",
    "level": "proof",
    "trusted_base": COMMON_TB + [
        "match.Match modelled sequentially (its RWMutex makes every exported call atomic; concurrency of the subscribe server is C04/C08)",
        "path.ToStrings(p, false) (flattening of PathElem names and key values) is an input of the model (C19's subject); the harness builds paths whose flattening is known by construction, in four encodings",
        "coalesce.Queue is used by the harness to count invocations of the real subscribe.matchClient (items + duplicate counts); its own properties are C11",
    ],
    "assumptions": [
        "a client registers through AddQuery / addSubscription only and is identified by its match.Client value (one matchClient per Subscribe RPC)",
        "single goroutine in the correspondence runs",
    ],
    "rule": "op sequences from the seeded generator plus the exhaustive scope (every set of <= 2 queries of one client x every "
            "update path, all over {a,b,*} up to length 3 (quick) / 4 (thorough); every (query, key) pair against ctree.Query); "
            "a sequence is non-trivial when it has >= 3 ops and at least one observation other than ok/err/empty; distinct = by hash of its op lines",
    "manifest": {
        "level_text": "Lean 4 theorems over the trie model of match/match.go and the registration/notification paths of subscribe/subscribe.go, "
                      "for every history of AddQuery/remove-closure calls by any number of clients: an update is offered iff a current registration is "
                      "compatible (update_iff_compatible, with exact multiplicities update_count), snapshot matches are streamed (query_subset_stream, "
                      "gap characterised by stream_eq_truncated_query), each notification is offered at most once (once_per_notification), nothing after "
                      "removal (removed_is_silent, unsubscribe_silent), other clients unaffected (remove_frame), removal idempotent and shape-restoring, "
                      "stream index = target :: snapshot index (subscription_path_consistent); the model is tied to the code by a differential "
                      "correspondence on the real match.Match inside a real subscribe.Server (exhaustive small scope + seeded random histories, "
                      "real notifications in ctree leaves, real addSubscription).",
        "level_note": "Trusted: Lean kernel (axioms propext, Quot.sound, Classical.choice only), the hand-written model Model/Match.lean as validated by the "
                      "correspondence harness (go/vcorr/ma.go with the overlay seams go/pkg_match, go/pkg_subscribe), Go runtime. path.ToStrings' flattening "
                      "is taken as an input (C19). Sequential semantics (match serialises with its RWMutex).",
        "technique": "Lean 4 proof (refinement of a set of registrations by mutual structural induction over a nested-inductive trie) + model/implementation correspondence",
        "design_ref": "DESIGN.md §8 C06",
    },
}
# C06 <-> Subscribe glue (Props/C06Glue.lean, Lemmas/MatchSubscribe.lean): the Match trie model and the Subscribe model are linked
PROP["modules"] += ["Gnmi.Lemmas.MatchSubscribe", "Gnmi.Props.C06Glue"]
PROP["theorems"] += ["Gnmi.C06Glue." + t for t in [
    "regQueries_eq", "regQueries_ne_of_empty_target", "regQueries_ne_of_bad_nil", "regQuery_eq_target_full",
    "fresh_notification_iff", "offered_iff_trie_paths", "offered_iff_trie", "offered_iff_trie_gnmiUpdate", "offered_count_trie",
    "offered_ne_trie_of_inner_delete",
    "walked_leaf_is_streamed", "walked_leaf_reaches_client", "offered_agrees", "offered_iff_agree",
    "walksOf_of_walked", "wantsOf_eq_offered", "wantsROf_eq_offered", "covers_eq_coversKey",
    "walks_wants_derived", "subSys_wf", "converges_concrete", "no_missed_change_concrete"]] + [
    "Gnmi.MatchSub." + t for t in ["completePath_eq", "registered_fresh", "compatible_of_qmatches_append",
                                   "compatible_of_qmatches_cover", "compatible_iff_agree", "walked_spec",
                                   "cache_gnmiUpdate_eventOK"]]
PROP["manifest"]["level_text"] += (
    " Glue with the Subscribe model (Props/C06Glue.lean): Sub.regQueries of an accepted request = the queries addSubscription registers "
    "(regQueries_eq); for a fresh client registered through addSubscription into any reachable trie, with any activity of other clients, "
    "Server.Update of the notification carrying a feed event invokes it (exactly once) iff Sub.offered holds (offered_iff_trie, "
    "offered_count_trie; offered_iff_trie_gnmiUpdate for every leaf Cache.GnmiUpdate feeds); every leaf returned by the initial walk is "
    "offered to the subscriber whenever it is later updated or deleted (walked_leaf_is_streamed, walked_leaf_reaches_client) and an offered "
    "event agrees with a subscribed path on every shared element (offered_agrees); Sys.WF (walks_wants, wants_region, covers_tgt) is derived "
    "for the Subscribe-LTS instance built from actual requests (subSys_wf).")
