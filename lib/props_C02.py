from cacheprops import CACHE_TB, CACHE_ASSUMPTIONS, ca_component

import facts

ID = "C02"
PROP = {
    "modules": ["Gnmi.Props.C02"],
    "theorems": ["Gnmi.C02." + t for t in [
        "future_iff", "stale_iff", "stale_rejected", "future_rejected", "rejected_changes_nothing",
        "accepted_is_stored", "same_ts_replaces", "delete_exact", "notification_ts_monotone",
        "leaf_history_invariant", "reachable_inv"]],
    "components": [ca_component("c02"), ca_component("", 600, 8000)],
    "monitor": "spec", "level": "proof",
    "trusted_base": CACHE_TB, "assumptions": CACHE_ASSUMPTIONS,
    "manifest": {
        "level_text": "Lean 4 theorems over the cache model: the stale and future rules stated outright (stale_iff, future_iff), "
                      "rejected updates change nothing, accepted updates are what the leaf holds (same timestamp + different value replaces), "
                      "delete_exact (exactly the matching leaves older than T), and for every history of notifications of any shape, "
                      "threshold and clock: a leaf's stored timestamp never decreases until it is deleted (leaf_history_invariant, by induction "
                      "with the invariant TInv proved for every reachable target). Tied to cache/cache.go by the ca correspondence "
                      "(seeded histories with timestamps generated around the stored ones, deletes at stored timestamp +-1, result class, "
                      "feed events, full query content and metadata observed after each step).",
        "level_note": "Trusted: Lean kernel; model Model/Cache.lean validated by the ca correspondence; Go runtime; time.Time arithmetic as Int. "
                      "Assumes serialised writers per target and non-empty target names.",
        "technique": "Lean 4 proof (decision logic stated outright + induction over histories with an invariant) + model/implementation correspondence",
    },
}
PROP.setdefault("pre", []).append(facts.make_step(['cache.stale.cases', 'cache.update.conditions', 'cache.remove.cond']))

# --- round 2 (builder bC02H): headline clause over whole API histories (Props/C02Hist.lean, Lemmas/CacheHist.lean)
PROP["modules"].append("Gnmi.Props.C02Hist")
PROP["theorems"] += ["Gnmi.C02." + t for t in [
    "stored_is_max_accepted", "stored_is_max_accepted_from", "stored_is_last_accepted", "acceptedSince_mem",
    "rejected_unit_not_accepted", "rejected_never_changes_leaf",
    "stored_is_max_accepted_withServerName", "runW_tr", "stepW_eq_step"]] + [
    "Gnmi.Cache.run_tr", "Gnmi.Cache.step_tr", "Gnmi.Cache.gnmiUpdate_tr", "Gnmi.Cache.reset_tr",
    "Gnmi.Cache.updateMetadata_tr", "Gnmi.Cache.Tr.upd", "Gnmi.Cache.Tr.remove1", "Gnmi.Cache.Tr.delete"]
PROP["manifest"]["level_text"] += (
    " Headline clause over whole histories (stored_is_max_accepted): for every history of cache API calls (State.run over GnmiUpdate of "
    "any shape, Sync, Connect, ConnectError, Reset, Add, Remove, UpdateMetadata, any number of targets, any clock and configuration), every "
    "target T and leaf index k, the list A of update units for (T,k) that the cache accepted since k was last removed (read off the "
    "history's unit log by a fold that never looks at a tree: a delete covering k newer than the last accepted unit, Reset of its subtree, "
    "Remove/Add of T empty it) satisfies: A empty => leaf absent; otherwise the stored notification IS A's last element; every unit in A has "
    "timestamp <= the stored one; and an API call whose units for the target are all rejected leaves the leaf and A unchanged "
    "(rejected_never_changes_leaf). stored_is_max_accepted_withServerName: the same for histories whose Add is State.addWith (the "
    "driver's Add, caches created WithServerName).")
# --- round 2 (builder bVALEQ): the suppression test is Go's value.Equal (Props/C19ValueEq.lean); multi = units at
# Target.GnmiUpdate level without a future threshold (Props/C03MultiNoThr.lean)
PROP["modules"] += ["Gnmi.Props.C19ValueEq", "Gnmi.Props.C03MultiNoThr"]
PROP["theorems"] += ["Gnmi.C19.valueEqual_eq_equal", "Gnmi.C19.valueEqual_symm", "Gnmi.C19.valueEqual_sound",
                     "Gnmi.C03.multi_eq_units_at_gnmiUpdate_no_threshold", "Gnmi.C03.multi_eq_units_at_gnmiUpdate_no_threshold_full",
                     "Gnmi.C03.dispatch_setLatest"]
PROP["manifest"]["level_text"] += (
    " The 'identical value' test of the event-driven rule (Cache.valueEqual) is proved equal to the C19 model of value.Equal on every value "
    "the cache model holds (valueEqual_eq_equal; symmetric and sound: valueEqual_symm, valueEqual_sound); a notification with several "
    "updates/deletes stores what its units one at a time store when no future threshold is configured "
    "(multi_eq_units_at_gnmiUpdate_no_threshold; with a threshold: known finding D26).")

PROP["assumptions"] += [
    "`ca serve` calls the real subscribe.Server.MakeSubscribeResponse on every stored leaf: the model's arm is a no-op "
    "(serving a leaf does not write to the cache), which is the statement being checked",
]
