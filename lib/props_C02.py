from cacheprops import CACHE_TB, CACHE_ASSUMPTIONS, ca_component

import facts

ID = "C02"
PROP = {
    "modules": ["Gnmi.Props.C02"],
    "theorems": ["Gnmi.C02." + t for t in [
        "future_iff", "stale_iff", "stale_rejected", "future_rejected", "rejected_changes_nothing",
        "accepted_is_stored", "same_ts_replaces", "delete_exact", "notification_ts_monotone",
        "leaf_history_invariant", "reachable_inv"]],
    "components": [ca_component("c02"), ca_component("", 600, 8000)],
    "monitor": "spec", "level": "proof",
    "trusted_base": CACHE_TB, "assumptions": CACHE_ASSUMPTIONS,
    "manifest": {
        "level_text": "Lean 4 theorems over the cache model: the stale and future rules stated outright (stale_iff, future_iff), "
                      "rejected updates change nothing, accepted updates are what the leaf holds (same timestamp + different value replaces), "
                      "delete_exact (exactly the matching leaves older than T), and for every history of notifications of any shape, "
                      "threshold and clock: a leaf's stored timestamp never decreases until it is deleted (leaf_history_invariant, by induction "
                      "with the invariant TInv proved for every reachable target). Tied to cache/cache.go by the ca correspondence "
                      "(seeded histories with timestamps generated around the stored ones, deletes at stored timestamp +-1, result class, "
                      "feed events, full query content and metadata observed after each step).",
        "level_note": "Trusted: Lean kernel; model Model/Cache.lean validated by the ca correspondence; Go runtime; time.Time arithmetic as Int. "
                      "Assumes serialised writers per target and non-empty target names.",
        "technique": "Lean 4 proof (decision logic stated outright + induction over histories with an invariant) + model/implementation correspondence",
    },
}
PROP.setdefault("pre", []).append(facts.make_step(['cache.stale.cases', 'cache.update.conditions', 'cache.remove.cond']))
