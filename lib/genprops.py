"""Obligations over the decision logic regenerated from the source (go/vtrans -> lean/Gnmi/Gen/*.lean,
proved equal to the hand-written model in lean/Gnmi/GenProps/*.lean; docs/GEN_TIE.md).

TIES: obligation module (below Gnmi.GenProps) -> (Go function covered, theorems).
USES: property -> obligation modules whose theorems its check audits (they count as obligations in the
evidence like any other theorem).  A property lists a module when its property theorems are about the
model definition the module ties to the source.  props.py applies this table to the per-property
configurations, so that a broken obligation alarms exactly the properties listed here."""

TIES = {
    "TargetCheckRevision": ("target/target.go (*Config).checkRevision = TargetCfg.checkRevision", ["tie"]),
    "CacheGnmiUpdateLeaf": ("cache/cache.go (*Target).gnmiUpdate, existing leaf: what is done given the verdict (counters, "
                            "leaf written before the feed, suppression condition): shape of Cache.updateCore", ["verdictOf_canon", "shape"]),
    "CacheGnmiUpdateVerdict": ("cache/cache.go (*Target).gnmiUpdate, existing leaf: the timestamp switch = Cache.verdict; "
                               "effects and result = the `some old` arm of Cache.updateCore", ["tie_verdict", "tie_core"]),
    "CacheGnmiRemoveOlder": ("cache/cache.go (*Target).gnmiRemove, age test = Cache.olderThan", ["tie"]),
    "CacheGnmiUpdateDispatch": ("cache/cache.go (*Target).GnmiUpdate, dispatch switch = Cache.Target.dispatch", ["tie"]),
    "SubscribeIsTargetDelete": ("subscribe/subscribe.go isTargetDelete = Sub.isTargetDelete", ["tie_del", "tie_other"]),
    "SubscribeSend": ("subscribe/subscribe.go (*Server).sendSubscribeResponse = the Sub.denied test of Sub.pump "
                      "(ACL before send; timer armed only around Send)", ["tie_send", "tie_timer"]),
    "SubscribeReject": ("subscribe/subscribe.go (*Server).Subscribe after the first Recv: which requests are refused, with "
                        "which status (request checks, HasTarget, single-target ACL, unknown mode) = Sub.subscribe",
                        ["subscribe_eq", "rejection_sound", "tie_reject"]),
    "SubscribeHandler": ("subscribe/subscribe.go (*Server).Subscribe after the first Recv: mode dispatch, what is set up, "
                         "order sync marker / registration / walk = Sub.subscribe", ["tie_eof", "tie", "stream_order"]),
    "Connection": ("connection/connection.go (*connection).done, (*Manager).remove = Conn.doDone, Conn.remove",
                   ["tie_done", "tie_remove"]),
    "ClientReconnectLoop": ("client/reconnect.go (*ReconnectClient).Subscribe, one loop iteration = the S path "
                            "innerRet..connect|returned of ClientLTS.sNext", ["tie", "nil_callbacks"]),
    "Latency": ("latency/latency.go (*window).add, (*window).setAvg = Latency.Window.add, Latency.Window.setAvg",
                ["tie_add", "tie_setAvg", "setAvg_only_writes"]),
    "FakeQueueUpdateTimestamp": ("testing/fake/queue/queue.go (*value).updateTimestamp = FQ.updateTimestamp",
                                 ["tie_unset", "tie_invalid", "tie_ok"]),
    "MetadataResetEntry": ("metadata/metadata.go (*Metadata).ResetEntry = Cache.Meta.resetEntry", ["tie_known", "tie_unknown"]),
    "MetadataResetEntryMd": ("metadata/metadata.go (*Metadata).ResetEntry = Metadata.Md.resetEntry (registries, nil pointers, "
                             "InitZero, ResetAction)", ["tie"]),
}

# A property lists an obligation module only when the truth of its theorems hinges on the decision logic the
# module ties (a broken obligation is an alarm for the property: it must not be one for a property the change
# cannot affect).  E.g. C03/C15 need the *shape* of the existing-leaf arm, not the timestamp rule (C02).
USES = {
    "C02": ["CacheGnmiUpdateLeaf", "CacheGnmiUpdateVerdict", "CacheGnmiRemoveOlder"],
    "C03": ["CacheGnmiUpdateDispatch", "CacheGnmiUpdateLeaf"],
    "C04": ["SubscribeReject", "SubscribeHandler", "SubscribeIsTargetDelete"],
    "C05": ["SubscribeReject", "SubscribeHandler"],
    "C07": ["SubscribeSend", "SubscribeReject"],
    "C08": ["SubscribeSend"],
    "C14": ["MetadataResetEntry", "MetadataResetEntryMd"],
    "C15": ["CacheGnmiUpdateLeaf", "CacheGnmiUpdateDispatch", "Latency"],
    "C16": ["Connection"],
    "C17": ["TargetCheckRevision"],
    "C18": ["ClientReconnectLoop"],
    "C20": ["FakeQueueUpdateTimestamp"],
}

TB = ("decision-logic translator go/vtrans (docs/GEN_TIE.md): atoms (uninterpreted calls, selectors, nil tests) are pure and "
      "denote one value per rendering; Go evaluation order of statements; int64 arithmetic wraps (Gen.wrap64), "
      "time.Time.Sub saturates (Gen.timeSub); loops and other uninterpreted statements are effect labels (their text)")


def apply(props):
    for pid, mods in USES.items():
        p = props.get(pid)
        if p is None:
            continue
        for m in mods:
            mod = "Gnmi.GenProps." + m
            if mod in p["modules"]:
                continue
            p["modules"] = p["modules"] + [mod]
            p["theorems"] = p["theorems"] + ["%s.%s" % (mod, t) for t in TIES[m][1]]
        p["trusted_base"] = list(p.get("trusted_base", [])) + [TB]
        p.setdefault("gen_ties", [TIES[m][0] for m in mods])


# String facts (lib/facts.py, lib/steps_C17.py) that compare the *text* of a condition with what the model
# assumes are subsumed by an obligation that *proves* the regenerated definition equal to the model: when the
# text changed but every obligation of the listed modules was discharged on this run (for this property), the
# change is a harmless rewrite and the fact is excused (recorded in the evidence, not an alarm).  When the
# property does not list the modules, or one of them failed, the fact counts as before.
SUPERSEDES = {
    "target.checkRevision.cmp": ["TargetCheckRevision"],
    "cache.stale.cases": ["CacheGnmiUpdateVerdict"],
    "cache.update.conditions": ["CacheGnmiUpdateLeaf", "CacheGnmiUpdateVerdict"],
    "cache.remove.cond": ["CacheGnmiRemoveOlder"],
    "cache.update.writeThenNotify": ["CacheGnmiUpdateDispatch"],
    "subscribe.stream.order": ["SubscribeHandler"],
    "subscribe.once.closeAfterWalk": ["SubscribeHandler"],
    "subscribe.poll.spawn": ["SubscribeHandler"],
    "subscribe.send.aclBeforeSend": ["SubscribeSend"],
}


def excused(ctx, fact):
    """the modules whose discharged obligations subsume a changed string fact, or None"""
    mods = SUPERSEDES.get(fact)
    if not mods:
        return None
    for m in mods:
        pre = "Gnmi.GenProps.%s." % m
        mine = [o for o in ctx.obligations if o[0].startswith(pre)]
        if not mine or not all(o[1] for o in mine):
            return None
    return mods
