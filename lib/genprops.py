"""Obligations over the decision logic regenerated from the source (go/vtrans -> lean/Gnmi/Gen/*.lean,
proved equal to the hand-written model in lean/Gnmi/GenProps/*.lean; docs/GEN_TIE.md).

TIES: obligation module (below Gnmi.GenProps) -> (Go function covered, theorems).
USES: property -> obligation modules whose theorems its check audits (they count as obligations in the
evidence like any other theorem).  A property lists a module when its property theorems are about the
model definition the module ties to the source.  props.py applies this table to the per-property
configurations, so that a broken obligation alarms exactly the properties listed here."""

TIES = {
    "TargetCheckRevision": ("target/target.go (*Config).checkRevision = TargetCfg.checkRevision", ["tie"]),
    "CacheGnmiUpdateLeaf": ("cache/cache.go (*Target).gnmiUpdate, existing leaf: what is done given the verdict (counters, "
                            "leaf written before the feed, suppression condition): shape of Cache.updateCore", ["verdictOf_canon", "shape"]),
    "CacheGnmiUpdateVerdict": ("cache/cache.go (*Target).gnmiUpdate, existing leaf: the timestamp switch = Cache.verdict; "
                               "effects and result = the `some old` arm of Cache.updateCore", ["tie_verdict", "tie_core"]),
    "CacheGnmiRemoveOlder": ("cache/cache.go (*Target).gnmiRemove, age test = Cache.olderThan", ["tie"]),
    "CacheGnmiUpdateDispatch": ("cache/cache.go (*Target).GnmiUpdate, dispatch switch = Cache.Target.dispatch", ["tie"]),
    "SubscribeIsTargetDelete": ("subscribe/subscribe.go isTargetDelete = Sub.isTargetDelete", ["tie_del", "tie_other"]),
    "SubscribeSend": ("subscribe/subscribe.go (*Server).sendSubscribeResponse = the Sub.denied test of Sub.pump "
                      "(ACL before send; timer armed only around Send)", ["tie_send", "tie_timer"]),
    "SubscribeReject": ("subscribe/subscribe.go (*Server).Subscribe after the first Recv: which requests are refused, with "
                        "which status (request checks, HasTarget, single-target ACL, unknown mode) = Sub.subscribe",
                        ["subscribe_eq", "rejection_sound", "tie_reject"]),
    "SubscribeHandler": ("subscribe/subscribe.go (*Server).Subscribe after the first Recv: mode dispatch, what is set up, "
                         "order sync marker / registration / walk = Sub.subscribe", ["tie_eof", "tie", "stream_order"]),
    "Connection": ("connection/connection.go (*connection).done, (*Manager).remove = Conn.doDone, Conn.remove",
                   ["tie_done", "tie_remove"]),
    "ClientReconnectLoop": ("client/reconnect.go (*ReconnectClient).Subscribe, one loop iteration = the S path "
                            "innerRet..connect|returned of ClientLTS.sNext", ["tie", "nil_callbacks"]),
    "Latency": ("latency/latency.go (*window).add, (*window).setAvg = Latency.Window.add, Latency.Window.setAvg",
                ["tie_add", "tie_setAvg", "setAvg_only_writes"]),
    "FakeQueueUpdateTimestamp": ("testing/fake/queue/queue.go (*value).updateTimestamp = FQ.updateTimestamp",
                                 ["tie_unset", "tie_invalid", "tie_ok"]),
    "MetadataResetEntry": ("metadata/metadata.go (*Metadata).ResetEntry = Cache.Meta.resetEntry", ["tie_known", "tie_unknown"]),
    "MetadataResetEntryMd": ("metadata/metadata.go (*Metadata).ResetEntry = Metadata.Md.resetEntry (registries, nil pointers, "
                             "InitZero, ResetAction)", ["tie"]),
    # ---- round 3 (bGEN2): further regions, docs/GEN_TIE.md §1 second table
    "Coalesce": ("coalesce/coalesce.go (*Queue).Insert, (*Queue).insert, (*Queue).next = Coalesce.insert, Coalesce.insertLocked, "
                 "Coalesce.nextLocked (closed test, coalesce-or-append, duplicate count, dequeue and map entry deletion)",
                 ["tie_insertLocked", "tie_insert", "tie_nextLocked"]),
    "ManagerHandleUpdates": ("manager/manager.go (*Manager).handleUpdates, one iteration of the receive loop = the monitor path "
                             "recv -> got -> (connect once) -> handle | reset -> connErr of Manager.monNext: every Recv error, io.EOF "
                             "included, is followed by m.reset and ends the loop", ["tie", "tie_cancelled", "reset_iff_error"]),
    "ManagerMonitor": ("manager/manager.go (*Manager).createConn (one next hop), (*Manager).monitor and its deferred report = the "
                       "acquire / release bookkeeping Manager.connEff (acquire iff Connection returned nil, defer done() released "
                       "before the deferred connectError)",
                       ["tie_hop", "createConn_acquires_iff_ok", "tie_ledger", "done_before_connectError", "monitor_returns",
                        "tie_deferred"]),
    "CacheReset": ("cache/cache.go (*Target).Reset, (*Cache).Reset, (*Cache).Remove, (*Cache).ConnectError = Cache.Target.reset, "
                   "Cache.State.reset, Cache.State.remove, Cache.State.connectError (order of Reset, unconditional per-root delete "
                   "then announcement, lock held across the call, unknown target ignored)",
                   ["loopRoots_eq", "tie_target_reset", "tie_cache_reset", "tie_cache_remove", "tie_cache_connectError"]),
    "CacheTimestamp": ("cache/cache.go (*Target).checkTimestamp, the prologue and the deferred closure of (*Target).GnmiUpdate = "
                       "Cache.Target.checkTimestamp, Cache.tracksTimestamp?, the last line of Cache.Target.gnmiUpdate (compare and "
                       "store in one critical section; tracking installed for non-meta updates, run iff updateTS)",
                       ["tie_checkTimestamp", "tie_track", "tie_deferred", "tie_gnmiUpdate"]),
    "SubscribeWalk": ("subscribe/subscribe.go (*Server).processSubscription (body, loop body, visitor, deferred report) = "
                      "Sub.walkItems / Sub.doWalk (every path completed and queried, the error of Query dropped, every leaf inserted, "
                      "then the sync marker)", ["leaves_eq", "loop_eq", "tie_walk", "tie_walk_error", "tie_report", "leaf_stops_on_error"]),
    "SubscribeRegister": ("subscribe/subscribe.go addSubscription, loop body = Sub.regQueries (origin of the path appended iff the "
                          "prefix has none)", ["tie_one", "tie"]),
    "SubscribeUpdate": ("subscribe/subscribe.go (*Server).Update, UpdateNotification = Match.serverUpdate, Match.updateNotification "
                        "(one `updated` set per notification, updates then deletes)", ["tie_notification", "tie_update"]),
    "SubscribeMakeResponse": ("subscribe/subscribe.go (*Server).MakeSubscribeResponse: the duplicate count of Sub.toResp is written "
                              "to a deep clone only", ["tie_dup", "only_clone_written", "no_report"]),
    "ConnectionConnect": ("connection/connection.go (*Manager).Connection, (*Manager).dial = the atomic sections r0, r1 (Conn.doR1), "
                          "r3 and d2 (Conn.doD2) of the connection LTS (create-or-join keyed by addr, ref++ before the wait, "
                          "remove then publish the error, ready closed last)",
                          ["tie_r0", "tie_r1_join", "tie_r1_create", "tie_r3", "tie_d2", "dial_shape"]),
    "ClientClose": ("client/reconnect.go (*ReconnectClient).Close / Poll, client/register.go getFirst goroutine = ClientLTS K steps "
                    "closeCs (Cfg.doCloseCs), closeInner, closeWait; ClientFirst fnImpl|fnErr, sendErr (an error is always sent)",
                    ["tie_closeCs", "tie_close", "poll_shape", "tie_worker"]),
    "CtreeEntry": ("ctree/tree.go (*Tree).Query, WalkDeleted, DeleteConditional, Delete = Trie.query / Trie.del on the caller's "
                   "path, unchanged", ["tie_query", "tie_walkDeleted", "tie_deleteConditional", "tie_delete"]),
    "TargetHandleDiffs": ("target/target.go (*Config).handleDiffs, the three loop bodies = TargetCfg.requestChanged, "
                          "TargetCfg.diffOld, TargetCfg.addLeft (whole-message comparison of requests)",
                          ["tie_req", "tie_old", "tie_new", "tie_handleDiffs"]),
    "FakeQueueAddValue": ("testing/fake/queue/queue.go (*UpdateQueue).addValue, prologue = FQ.Val.withTs and the latest tracking of "
                          "FQ.addValue (exact int64 comparison)", ["tie"]),
    "PathToStrings": ("path/path.go ToStrings (body and element loop) = PV.toStrings (fresh slice in the deprecated-element branch)",
                      ["loopElems_eq", "tie", "tie_nil"]),
    # ---- round 4 (bGEN3): further regions, docs/GEN_TIE.md §9 (go/vtrans/regions3.go)
    "MatchTrie": ("match/match.go (*Match).AddQuery + remove closure, (*branch).addQuery, removeQuery (+ deferred empty), "
                  "(*Match).Update, UpdateOnce, (*branch).update client loop = one unfolding of Match.addQuery, Match.removeQuery, "
                  "Match.updateClients (write lock / read lock; child pruned iff the recursion reports it empty)",
                  ["tie_locks", "chain_eq", "tie_add_leaf", "tie_add_new", "tie_add_found", "tie_remove_leaf", "tie_remove_step",
                   "tie_remove_absent", "tie_remove_deferred", "tie_update_client", "tie_branch_update",
                   "addQueryL_eq", "removeQueryL_eq", "tie_add_step", "tie_remove_general"]),
    "ClientBase": ("client/client.go (*BaseClient).Subscribe (installation), Close, Impl, Poll, one iteration of run = the S steps "
                   "install, handled, check, runErr and the K step Cfg.doBcClose of the client LTS",
                   ["tie_install", "tie_connFail", "tie_iteration", "tie_close", "tie_impl", "poll_shape"]),
    "ManagerGNMIUpdate": ("manager/manager.go (*Manager).handleGNMIUpdate, NewManager = MgrOpt.target followed by the guarded call "
                          "site MgrOpt.site true (nil response, four arms, nil callbacks); nil ConnectionManager refused",
                          ["tie", "calls_only_configured", "tie_new"]),
    "CtreeAdd": ("ctree/tree.go (*Tree).Add, terminalAdd, intermediateAdd (+ deferred closure), slowAdd, Get: lock balance of the "
                 "read->write upgrade (every return path releases the read lock exactly once) and the case analysis of Trie.add / "
                 "Trie.get at the node", ["balanced", "tie_deferred", "tie_add", "tie_terminal", "tie_intermediate",
                                          "refuse_is_none", "tie_slow", "tie_get"]),
    "ShapesManager": ("manager/manager.go (*Manager).Add, Remove, Reconnect, subscribe: map written only under m.mu; Add's four "
                      "refusals then registration + retryMonitor; Remove cancels, waits for finished, deletes; Reconnect under t.mu "
                      "iff set; handleUpdates only after stream opened and request sent (shape the manager LTS assumes)",
                      ["tie_add", "tie_remove", "tie_reconnect", "tie_subscribe", "tie_customize"]),
    "ShapesCacheMeta": ("cache/cache.go (*Target).Sync, Connect, updateMeta: sync=true; connected=true then delete connectError; "
                        "latestTimestamp read under tsmu and written before UpdateReset", ["tie_cache_meta"]),
    "ShapesSubscribeLoops": ("subscribe/subscribe.go head of (*Server).Subscribe (NewRPCACL failure = Unauthenticated, before any "
                             "Recv), one poll of processPollingSubscription, one item of sendStreamingResults (timer armed only "
                             "around the sync-marker Send; target delete ends the stream unless target is *)",
                             ["tie_head", "tie_poll", "tie_stream_timer", "tie_stream_sync", "tie_stream_delete"]),
    "LatencyL": ("latency/latency.go (*Latency).Compute, (*Latency).update + deferred closure = Latency.L.computeLat, L.closeSlot, "
                 "L.flush (scaled sum, min 0 = unset, start set once; slot added to every window before the reset; deferred "
                 "window update registered before the early return)",
                 ["tie_compute", "tie_closeSlot", "deferred_always", "tie_flush"]),
    "PathComplete": ("path/path.go CompletePath = PV.completePath (origin in both: error; origin in path with prefix elements: error)",
                     ["tie"]),
    "ShapesCoalesceClose": ("coalesce/coalesce.go (*Queue).Close: closed at most once, under the lock", ["tie_coalesce_close"]),
}

# A property lists an obligation module only when the truth of its theorems hinges on the decision logic the
# module ties (a broken obligation is an alarm for the property: it must not be one for a property the change
# cannot affect).  E.g. C03/C15 need the *shape* of the existing-leaf arm, not the timestamp rule (C02).
USES = {
    "C01": ["ManagerHandleUpdates"],
    "C02": ["CacheGnmiUpdateLeaf", "CacheGnmiUpdateVerdict", "CacheGnmiRemoveOlder", "CacheTimestamp", "CtreeEntry"],
    "C03": ["CacheGnmiUpdateDispatch", "CacheGnmiUpdateLeaf", "CacheReset"],
    "C04": ["SubscribeReject", "SubscribeHandler", "SubscribeIsTargetDelete", "SubscribeWalk", "SubscribeRegister"],
    "C05": ["SubscribeReject", "SubscribeHandler", "SubscribeWalk", "SubscribeMakeResponse", "ShapesSubscribeLoops"],
    "C06": ["SubscribeRegister", "SubscribeUpdate", "MatchTrie"],
    "C07": ["SubscribeSend", "SubscribeReject", "ShapesSubscribeLoops"],
    "C08": ["SubscribeSend", "Coalesce", "SubscribeMakeResponse", "ShapesSubscribeLoops"],
    "C09": ["CtreeEntry", "CtreeAdd"],
    "C10": ["CtreeAdd"],
    "C11": ["Coalesce", "ShapesCoalesceClose"],
    "C12": ["ManagerGNMIUpdate"],
    "C13": ["ManagerHandleUpdates", "ManagerMonitor", "ManagerGNMIUpdate", "ShapesManager"],
    "C14": ["MetadataResetEntry", "MetadataResetEntryMd", "CacheReset", "SubscribeWalk", "ShapesCacheMeta"],
    "C15": ["CacheGnmiUpdateLeaf", "CacheGnmiUpdateDispatch", "Latency", "CacheReset", "CacheTimestamp", "LatencyL"],
    "C16": ["Connection", "ConnectionConnect", "ManagerMonitor", "ShapesManager"],
    "C17": ["TargetCheckRevision", "TargetHandleDiffs"],
    "C18": ["ClientReconnectLoop", "ClientClose", "ClientBase"],
    "C19": ["PathToStrings", "PathComplete"],
    "C20": ["FakeQueueUpdateTimestamp", "FakeQueueAddValue"],
}

TB = ("decision-logic translator go/vtrans (docs/GEN_TIE.md): atoms (uninterpreted calls, selectors, nil tests) are pure and "
      "denote one value per rendering; Go evaluation order of statements; int64 arithmetic wraps (Gen.wrap64), "
      "time.Time.Sub saturates (Gen.timeSub); loops and other uninterpreted statements are effect labels (their text)")


def apply(props):
    for pid, mods in USES.items():
        p = props.get(pid)
        if p is None:
            continue
        for m in mods:
            mod = "Gnmi.GenProps." + m
            if mod in p["modules"]:
                continue
            p["modules"] = p["modules"] + [mod]
            p["theorems"] = p["theorems"] + ["%s.%s" % (mod, t) for t in TIES[m][1]]
        p["trusted_base"] = list(p.get("trusted_base", [])) + [TB]
        p.setdefault("gen_ties", [TIES[m][0] for m in mods])
        man = p.get("manifest")
        if isinstance(man, dict) and "level_text" in man and "docs/GEN_TIE.md" not in man["level_text"]:
            man["level_text"] = (man["level_text"].rstrip() + " The decision logic of the Go functions the model definitions follow is "
                                 "re-translated from the source on every run and proved equal to them (docs/GEN_TIE.md; obligation modules "
                                 + ", ".join("Gnmi.GenProps." + m for m in mods) + ").")


# String facts (lib/facts.py, lib/steps_C17.py) that compare the *text* of a condition with what the model
# assumes are subsumed by an obligation that *proves* the regenerated definition equal to the model: when the
# text changed but every obligation of the listed modules was discharged on this run (for this property), the
# change is a harmless rewrite and the fact is excused (recorded in the evidence, not an alarm).  When the
# property does not list the modules, or one of them failed, the fact counts as before.
SUPERSEDES = {
    "target.checkRevision.cmp": ["TargetCheckRevision"],
    "cache.stale.cases": ["CacheGnmiUpdateVerdict"],
    "cache.update.conditions": ["CacheGnmiUpdateLeaf", "CacheGnmiUpdateVerdict"],
    "cache.remove.cond": ["CacheGnmiRemoveOlder"],
    "cache.update.writeThenNotify": ["CacheGnmiUpdateDispatch"],
    "subscribe.stream.order": ["SubscribeHandler"],
    "subscribe.once.closeAfterWalk": ["SubscribeHandler"],
    "subscribe.poll.spawn": ["SubscribeHandler"],
    "subscribe.send.aclBeforeSend": ["SubscribeSend"],
    "subscribe.walk.order": ["SubscribeWalk"],
    "subscribe.updateNotification.set": ["SubscribeUpdate"],
    "cache.reset.order": ["CacheReset"],
    "cache.remove.announces": ["CacheReset"],
    "target.handleDiffs.handler_calls": ["TargetHandleDiffs"],
}


def excused(ctx, fact):
    """the modules whose discharged obligations subsume a changed string fact, or None"""
    mods = SUPERSEDES.get(fact)
    if not mods:
        return None
    for m in mods:
        pre = "Gnmi.GenProps.%s." % m
        mine = [o for o in ctx.obligations if o[0].startswith(pre)]
        if not mine or not all(o[1] for o in mine):
            return None
    return mods
