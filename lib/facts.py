"""Regenerated structural facts (go/vfacts, go/ast over /repo's current source) compared with the
expectations the models encode (DESIGN §5.2).  A changed fact breaks the tie even when no generated
input exercises it; the correspondence that runs afterwards is the search for a failing input."""
import json, os, subprocess

import vcheck
import genprops

# fact -> (expected value, the model definition / LTS transition / theorem it justifies)
EXPECT = {
    "subscribe.stream.order": (
        ["c.queue.Insert", "addSubscription", "defer remove", "go s.processSubscription"],
        "Sub.subscribe (.stream): updates_only sync first, REGISTER, then the walk; SubLTS handler S3 before the walker is spawned "
        "(C04.converges depends on it: C04.swap_breaks)"),
    "subscribe.once.closeAfterWalk": (
        ["go func{s.processSubscription;c.queue.Close}"],
        "Sub.subscribe (.once): doWalk then closed := true (C05.once_static_exact, C05L.once_concurrent)"),
    "subscribe.poll.spawn": (["go s.processPollingSubscription"], "Sub.subscribe (.poll) / Sub.poll"),
    "subscribe.handler.checks": (
        ["s.o.acl.NewRPCACL", "stream.Recv", "s.c.HasTarget", "c.acl.Check", "go func{}", "go s.sendStreamingResults"],
        "Sub.subscribe: ACL creation, first Recv, HasTarget, single-target ACL check, in this order (C07.single_target_denied_early)"),
    "subscribe.feed.calls": (
        ["c.q.Insert"], "the feed callback only inserts into the subscriber's queue: writer steps have no guard on senders "
        "(C08.writer_independent_of_senders)"),
    "subscribe.send.aclBeforeSend": (
        ["c.acl.Check", "r.t.Reset", "defer r.t.Stop", "r.stream.Send"],
        "Sub.pump: denied check before the send; timer armed only around Send (C07.never_sends_denied, C08.timer_armed_only_in_send)"),
    "subscribe.timer.stoppedAtCreation": (
        ["time.NewTimer", "t.Stop", "go func{}", "t.Reset", "t.Stop"],
        "the send timer is stopped at creation and armed around the sync-marker send (D24 fix): expiry enabled only while a send is pending (C08)"),
    "subscribe.sender.loop": (
        ["go func{}", "c.queue.Next", "c.stream.Send", "s.sendSubscribeResponse", "isTargetDelete"],
        "Sub.pump: next, sync marker sent directly, other items through sendSubscribeResponse, then the target-delete test"),
    "subscribe.walk.order": (
        ["path.CompletePath", "s.c.Query", "c.queue.Insert", "c.queue.Insert"],
        "Sub.doWalk: complete the path, query, insert each leaf, finally insert the sync marker"),
    "subscribe.updateNotification.set": (
        ["make", "m.UpdateOnce", "m.UpdateOnce"], "one `updated` set per notification, always allocated (C06.once_per_notification)"),
    "cache.update.writeThenNotify": (
        {"default": None, "len(n.GetDelete()) == 1": ["t.gnmiRemove", "t.client"], "len(n.GetUpdate()) == 1": ["t.gnmiUpdate", "t.client"],
         "len(n.GetUpdate())+len(n.GetDelete()) > 1": ["t.gnmiUpdate", "t.client", "t.gnmiRemove", "t.client"],
         "n.Atomic": ["t.gnmiUpdate", "t.client"]},
        "Cache.Target.dispatch: in every arm the tree write precedes the feed callback (SubLTS writer W1;W2; C04 no_missed_change)"),
    "cache.stale.cases": (
        ["n.GetTimestamp() < old.GetTimestamp()", "n.GetTimestamp() == old.GetTimestamp()",
         "t.futureThreshold > 0 && nts.Sub(Now()) > t.futureThreshold"],
        "Cache.verdict: the three arms in this order (C02.stale_iff, C02.future_iff)"),
    "cache.update.conditions": (
        ["!proto.Equal(old, n)", "latest.UnixNano() <= 0", "nts.Sub(latest) <= t.futureThreshold",
         "!n.Atomic && !old.GetAtomic() && value.Equal(old.Update[0].Val, n.Update[0].Val) && t.eventDriven"],
        "Cache.verdict / Cache.updateCore: same-timestamp equality, first-update and threshold sub-arms, suppression condition"),
    "cache.remove.cond": (
        ["v.(*pb.Notification).GetTimestamp() < n.GetTimestamp()"], "Cache.olderThan (C02.delete_exact)"),
    "cache.Target.syncts.lockset": (
        ["checkTimestamp locks=true", "latest locks=true", "resetTimestamp locks=true", "setSync locks=true", "synced locks=true",
         "updateMeta locks=true"],
        "every function of cache.Target that touches the fields sync / ts does so under tsmu (C15: no unsynchronised access between the "
        "update stream and the periodic refresh)"),
    "cache.reset.order": (
        ["t.resetTimestamp", "t.meta.Clear", "t.updateMeta", "t.t.Delete", "t.client"], "Cache.Target.reset (C14.reset_clears)"),
    "cache.remove.announces": (["delete", "c.client"], "Cache.State.remove: forget, then announce (C14.remove_forgets)"),
    "coalesce.Insert.blocking": (
        {"bareSends": 0, "selects": 2, "withDefault": 2}, "Queue.Insert never blocks: every select has a default (C08, C11 producer steps)"),
    "collector.add.calls": (["c.cache.Add", "c.tm.Add"], "configured targets are registered with the cache before they are managed (C01)"),
    "collector.update.stamp": (
        None, "the collector's Update closure forces prefix.Target, defaults the origin to openconfig, creates a missing prefix (C01 stampTarget)"),
    "collector.wiring": (
        ["cache.New", "c.cache.GnmiUpdate", "c.start", "subscribe.NewServer", "c.cache.SetClient"], "collector wiring (C01 Pipeline)"),
    "gnmi_cli.executeSubscribe.parses": (["s"], "the loaded request text (flag or file) is what gets parsed (C01.cli_invocations_equivalent)"),
}

STAMP_SUFFIX = ['v.Prefix = &gnmipb.Path{Origin: "openconfig", Target: target}', 'prefix.Origin = "openconfig"', "prefix.Target = target"]


def make_step(names):
    def facts(ctx, cfg):
        tool, out = vcheck.go_build(ctx, "vfacts")
        if tool is None:
            ctx.problems.append(("build", "fact extractor build failed:\n" + out[-2000:], None))
            return
        r = subprocess.run([tool, vcheck.REPO], capture_output=True, text=True)
        try:
            got = json.loads(r.stdout)
        except Exception:
            ctx.problems.append(("fact", "fact extractor failed: " + (r.stderr or r.stdout)[-1000:], None))
            for n in names:
                ctx.obligations.append(("fact " + n, False, "extractor failed"))
            return
        bad = 0
        for n in names:
            want, where = EXPECT[n]
            have = got.get(n, "<not found in source>")
            if n == "collector.update.stamp":
                ok = isinstance(have, list) and have[-3:] == STAMP_SUFFIX
                want = STAMP_SUFFIX
            else:
                ok = have == want
            if not ok:
                mods = genprops.excused(ctx, n)
                if mods:
                    ctx.obligations.append(("fact " + n, True, "source text changed (now %r); subsumed: the definition regenerated "
                                            "from the source is proved equal to the model (Gnmi.GenProps.%s)" % (have, ", ".join(mods))))
                    vcheck.log("  fact %s: text changed, subsumed by the discharged obligations of %s (harmless rewrite)" % (n, ", ".join(mods)))
                    continue
            ctx.obligations.append(("fact " + n, ok, where if ok else "expected %r, source has %r" % (want, have)))
            if not ok:
                bad += 1
                ctx.problems.append(("fact", "fact %s changed: the model assumes %r (%s); the source now has %r" % (n, want, where, have), None))
        vcheck.log("  facts: %d checked against the source, %d changed" % (len(names), bad))
    return facts
