"""Per-property configuration: theorems audited, components exercised, budgets.

Each property lives in its own module lib/props_<id>.py defining ID and PROP; this module
collects them.  Fields of PROP:
  modules      Lean modules holding the property theorems (Gnmi.Props.<id>, generated props)
  theorems     fully qualified theorem names audited with `#print axioms` on every run
  components   correspondence runs: {"c": <vcorr component>, "label"?, "gen_args"?,
               "quick": {"n": random sequences, "exhaustive": bool, "seeds": k}, "thorough": {...},
               "min_len"?: shortest sequence counted as non-trivial (default 3; 1 where one line is a whole scenario)}
  pre / extra  optional python callables step(ctx, cfg) run before / after the correspondences
  replay       optional callable replay(ctx, cfg, path) used by `./check <id> --replay <file>` instead of the
               generic in-process replay
  monitor      "spec" (compare impl with the abstract spec column) or "model"
  level, trusted_base, assumptions, rule   evidence fields
  manifest     {"level_text", "level_note", "technique", "design_ref"} for MANIFEST.json
"""
import glob, importlib, os

COMMON_TB = [
    "Go runtime, compiler and standard library; protobuf/gRPC libraries (not modelled)",
    "Lean compiler/runtime for the model driver executable only (cannot make a theorem true)",
]

PROPS = {}
for _f in sorted(glob.glob(os.path.join(os.path.dirname(os.path.abspath(__file__)), "props_C*.py"))):
    _m = importlib.import_module(os.path.basename(_f)[:-3])
    PROPS[_m.ID] = _m.PROP

import genprops
genprops.apply(PROPS)     # obligations over the regenerated decision logic (docs/GEN_TIE.md)
