"""Per-property configuration: theorems audited, components exercised, budgets."""

COMMON_TB = [
    "Go runtime, compiler and standard library; protobuf/gRPC libraries (not modelled)",
    "Lean compiler/runtime for the model driver executable only (cannot make a theorem true)",
]

PROPS = {}

PROPS["C09"] = {
    "modules": ["Gnmi.Props.C09"],
    "theorems": ["Gnmi.C09." + t for t in [
        "history_refinement", "reachable_wf", "step_refines", "add_refines", "add_fails_iff",
        "content_prefixFree", "query_spec", "get_spec", "get_none_spec", "walkSorted_content",
        "walkSorted_sorted", "delete_eq_query", "delete_rest", "delete_wf", "delete_empty",
        "delete_through_leaf", "add_after_delete", "readd_after_delete"]],
    "components": [
        {"c": "ct", "quick": {"n": 3000, "exhaustive": True}, "thorough": {"n": 40000, "exhaustive": True, "seeds": 4}},
    ],
    "monitor": "spec",
    "level": "proof",
    "trusted_base": COMMON_TB + ["ctree modelled sequentially (locks ignored; concurrency is C10)"],
    "assumptions": ["stored values are non-nil (the API uses nil as 'absent')",
                    "Leaf.Update is applied to leaf nodes only", "single goroutine"],
}
