"""C04 clauses (a) snapshot-then-sync, (b) exactly one sync, (c) updates_only: sync first — over the
*sequential* code-shaped Subscribe model (Model/Subscribe.lean), for the GOp histories of C04Gate
(Subscribe calls, cache API calls, flow control) and BOTH values of updates_only.
Props/C04Sync.lean, lemmas Lemmas/SubscribeSyncSeq.lean.  Merge into lib/props_C04.py:

    from c04sync_part import MODULES, THEOREMS, LEVEL_TEXT
    PROP["modules"] += MODULES; PROP["theorems"] += THEOREMS; PROP["manifest"]["level_text"] += LEVEL_TEXT

lean/Gnmi.lean must import Gnmi.Lemmas.SubscribeSyncSeq and Gnmi.Props.C04Sync.
"""

MODULES = [
    "Gnmi.Lemmas.SubscribeSyncSeq",
    "Gnmi.Props.C04Sync",
]

THEOREMS = ["Gnmi.C04Sync." + t for t in [
    # (a) the initial snapshot, exactly, then the marker (and the CompletePath-error case)
    "stream_initial_exact", "stream_initial_exact_run", "stream_initial_origin_conflict", "subscribe_stream_accepted",
    # (b) exactly one sync marker: every GOp history, both updates_only values, no side condition; + poll/eof/expire
    "stream_one_sync", "stream_one_sync_sent", "stream_one_sync_all_ops", "gstep_allSync", "new_syncInv",
    # (c) updates_only: the marker first, nothing before it
    "updates_only_sync_first", "gstep_allFirst", "new_syncFirst",
    # updates_only: what the subscriber holds (first SEQ theorems without updatesOnly = false)
    "updates_only_converges_pending_partial", "updates_only_converges_partial", "updates_only_converges_exact_partial",
    "tracked_uinv", "track", "okRun_split", "gstep_subs",
    # non-vacuity
    "histU_ok", "histU_noStar", "histU_views", "histU_held", "histG_second",
    # witnesses: the CompletePath-rejected request is accepted under updates_only; a send timeout can discard the marker
    "origin_conflict_updates_only_accepted", "expire_loses_marker",
]] + ["Gnmi.SubSync." + t for t in [
    # counting: the sender, every offered event, refresh and flow control keep the number of markers
    "syncs_eq_count", "pump_syncs", "enqueue_syncs", "feedSub_syncs", "gateF_syncs", "stepF_syncs", "doWalk_syncs",
    # position
    "pump_syncFirst", "feedSub_syncFirst", "gateF_syncFirst", "stepF_syncFirst",
    # what subscribe appends (any pregated); the initial subscribers
    "subscribe_shape", "streamSub_exact", "uoSub_eq",
    # the shadow of an updates_only subscriber commutes with every per-subscriber function
    "pump_shadow", "enqueue_shadow", "feedSub_shadow", "gateF_shadow", "stepF_shadow", "pend_shadow",
    "uinv_init", "feed_sub_uinv", "setGate_sub_uinv", "stepGate_sub_uinv", "UInv.view", "UInv.drained",
    # replay at a key depends on the suffix from the last response that decides it
    "lookup_foldl_decided", "lookup_foldl_not_decided",
]]

LEVEL_TEXT = (
    " Sync placement over the same code-shaped model (Props/C04Sync.lean), for every history of Subscribe calls, cache API calls and "
    "flow-control operations and BOTH values of updates_only: stream_initial_exact (an accepted STREAM subscription in a reachable state "
    "is sent exactly the snapshot — one update per matching visible leaf with the cache's current notification, no leaf twice, nothing "
    "else — then the sync marker), stream_one_sync (at most one marker among sent + held + queued, exactly one while alive; no side "
    "condition on the history, any pregated set; stream_one_sync_all_ops adds poll/eof/send-timeout), updates_only_sync_first (nothing "
    "sent or the marker first; nothing precedes it), and updates_only_converges_partial / _pending_partial / _exact_partial (an "
    "updates_only subscriber followed by the C04Gate invariant of its snapshot-taking shadow: on every allowed matched key its view "
    "agrees with the cache, or holds nothing there while the cache holds what it held at registration; nothing else in the view). "
    "The two cases these _partial theorems leave out - the event form for keys rewritten to their registration-time value, and requests "
    "whose paths CompletePath rejects (accepted under updates_only since no walk runs) - are closed in Props/C04UpdatesOnly.lean "
    "(updates_only_converges_full proves the full statement updates_only_converges).")
