"""Extra steps of the C16 check: the cn harness under the Go race detector.

The scripted protocol releases several requesters / done funcs together (`reqs`, `dones`)
and `storm` runs unscripted goroutines, so the race detector sees real concurrent executions
of Connection / dial / done.  A reported data race in package connection means the LTS's
atomic sections are not the code's (the tie is broken); a divergence is handled as in the
normal correspondence.  Runs in the thorough tier, or in any tier with VERIF_RACE=1.
"""
import os, subprocess
import vcheck


def race_step(ctx, cfg):
    if ctx.tier != "thorough" and not os.environ.get("VERIF_RACE"):
        return
    vrace, out = vcheck.go_build(ctx, "vcorr", race=True)
    if vrace is None:
        ctx.problems.append(("build", "race-enabled harness build failed:\n" + out[-3000:], None))
        return
    vcorr, _ = vcheck.go_build(ctx, "vcorr")
    n = 2500 if ctx.tier == "thorough" else 400
    r = subprocess.run([vcorr, "gen", "-c", "cn", "-tier", ctx.tier, "-seed", str(ctx.seed * 7919 + 13), "-n", str(n)],
                       capture_output=True, text=True, env=vcheck.GOENV)
    ops = [l for l in r.stdout.split("\n") if l]
    ops += ["cn new", "cn storm %d 32 200" % ctx.seed, "cn new", "cn storm %d 8 400" % (ctx.seed + 1)]
    env = dict(vcheck.GOENV, GORACE="halt_on_error=0")
    impl, r1 = vcheck.run_lines([vrace, "run"], ops, timeout=1800, env=env)
    mod, _ = vcheck.run_lines(vcheck.model_bin(), ops)
    races = r1.stderr.count("WARNING: DATA RACE")
    ctx.obligations.append(("race detector: cn harness (%d ops incl. storm)" % len(ops), races == 0 and r1.returncode == 0,
                            "%d data races reported" % races))
    if races or r1.returncode != 0:
        ctx.problems.append(("race", "race detector run of the cn harness: %d data races, exit %d\n%s" % (
            races, r1.returncode, r1.stderr[-3000:]), None))
    bad = 0
    for seq in vcheck.split_sequences(ops):
        lines = [ops[i] for i in seq]
        for j, i in enumerate(seq):
            a = impl[i] if i < len(impl) else "<no-output>"
            m = (mod[i] if i < len(mod) else "<no-output>").split("\t")[0]
            if a != m:
                bad += 1
                if bad <= 2:
                    ctx.problems.append(("divergence", "implementation (race build) and model disagree on a cn sequence",
                                         {"component": "cn(race)", "ops": lines[:j + 1],
                                          "impl": [impl[k] if k < len(impl) else "<no-output>" for k in seq[:j + 1]],
                                          "model": [(mod[k] if k < len(mod) else "<no-output>").split("\t")[0] for k in seq[:j + 1]],
                                          "spec": [(mod[k] if k < len(mod) else "<no-output>").split("\t")[-1] for k in seq[:j + 1]],
                                          "first_divergence": j}))
                break
    ctx.cov["evaluations"] += len(ops)
    ctx.cov["components"]["cn(race)"] = {"evaluations": len(ops), "data_races": races, "diverging": bad}
    vcheck.log("  cn under -race: %d ops, %d data races, %d diverging" % (len(ops), races, bad))
