"""Extra check step of C11: the concurrent validation runs under the race detector
(thorough tier).  The LTS of Model/CoalesceLTS.lean treats every locked section and every
channel operation of coalesce.go as one atomic transition; a data race inside coalesce.go
would break that reading, so the free-running concurrent runs of the harness (`co conc`)
are repeated with `-race`.  A race report, a monitor violation or a build failure is a
problem of kind `divergence` with the op line as failing input."""
import os, subprocess
import vcheck


def race_stage(ctx, cfg):
    if ctx.tier != "thorough" and not os.environ.get("VERIF_C11_RACE"):
        return
    vrace, out = vcheck.go_build(ctx, "vcorr", race=True)
    if vrace is None:
        ctx.problems.append(("build", "race build of the harness failed:\n" + out[-3000:], None))
        return
    modes = ["drain", "close", "cancel", "both"]
    n = 0
    for j in range(60):
        seed = ctx.seed * 7919 + j
        lines = ["co new", "co conc %d %d %d %s" % (seed, 1 + j % 4, 50 + 37 * (j % 9), modes[j % 4])]
        env = dict(vcheck.GOENV, GORACE="halt_on_error=1 exitcode=66")
        try:
            r = subprocess.run([vrace, "run"], input="\n".join(lines) + "\n", capture_output=True, text=True,
                               timeout=600, env=env)
        except subprocess.TimeoutExpired:
            ctx.problems.append(("divergence", "concurrent run under -race timed out", {
                "component": "co-race", "ops": lines, "impl": ["ok", "timeout"], "model": ["ok", "ok"],
                "spec": ["ok", "ok"], "first_divergence": 1}))
            return
        obs = r.stdout.split("\n")
        got = obs[1] if len(obs) > 1 else "<no-output>"
        n += 2
        if r.returncode != 0 or got != "ok":
            if "DATA RACE" in r.stderr:
                got = "data-race"
            ctx.problems.append(("divergence", "concurrent run under the race detector: %s\n%s" % (got, r.stderr[-1500:]), {
                "component": "co-race", "ops": lines, "impl": ["ok", got], "model": ["ok", "ok"],
                "spec": ["ok", "ok"], "first_divergence": 1}))
            return
    ctx.cov["evaluations"] += n
    ctx.cov["components"]["co-race"] = {"runs": 60, "evaluations": n, "race_reports": 0}
    vcheck.log("  co-race: 60 concurrent runs under -race, no report")


def summarise(ctx, cfg):
    """evidence: how many schedules of the LTS were replayed on / validated against the real goroutines"""
    k = ctx.cov["components"].get("co", {}).get("op_kinds", {})
    ctx.cov["traces_validated_breakdown"] = {
        "two_phase_next_replays (consumer parked between q.next() and the select)": k.get("nresume", 0),
        "really_blocked_consumer_wakeups (nrelease)": k.get("nrelease", 0),
        "insert_split_into_atomic_sections (pcheck/pinsert/ppost/pins)": sum(k.get(x, 0) for x in ("pcheck", "pinsert", "ppost", "pins")),
        "free_running_concurrent_runs_with_trace_monitors": k.get("conc", 0),
    }
    ctx.cov["traces_validated_against_impl"] = sum(ctx.cov["traces_validated_breakdown"].values())
