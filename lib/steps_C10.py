"""C10: extra steps of the check (see lib/props_C10.py, DESIGN §8 C10).

pre   hook_probe   if /repo/ctree carries the `ctree.add.upgrade` schedule point
                   (proposed_hooks/ctree_upgrade.diff) the harness is built with the extra tag
                   `ctreehook` and `cc win/win2` drive real goroutines through the hook;
                   otherwise the window is forced from outside (read lock held by the harness).
pre   lock_facts   regenerated facts about the lock operations of every ctree method the LTS
                   transitions stand for (normalised source text, compared with expectations).
extra race_stress  `-race` build of the harness; free-running stress (a) without handle updates
                   concurrent with deletes: must be race free and all monitors `ok`;
                   (b) with them: the known access pair of defect D15 is reported as
                   KNOWN-FINDING when listed in KNOWN_FINDINGS.txt, anything else is a violation.
"""
import os, re, subprocess

import vcheck

HOOK_CALL = 'verifPoint("ctree.add.upgrade")'
D15_CASE = "race:ctree.Leaf.Update/ctree.Tree.internalDelete"


def _tree_go():
    with open(os.path.join(vcheck.REPO, "ctree", "tree.go")) as fh:
        return fh.read()


def hook_present():
    try:
        src = _tree_go()
    except OSError:
        return False
    if HOOK_CALL not in src:
        return False
    on = os.path.join(vcheck.REPO, "ctree", "verif_on.go")
    return os.path.exists(on) and "VerifHook" in open(on).read()


def hook_probe(ctx, cfg):
    present = hook_present()
    ctx.cov.setdefault("c10", {})["upgrade_hook_present"] = present
    if not present:
        vcheck.log("  hook ctree.add.upgrade: absent (window forced from outside with a held read lock)")
        return
    ov = vcheck.overlay_file(ctx.scratch)
    out = os.path.join(ctx.scratch, "vcorr")
    r = subprocess.run(["go", "build", "-overlay", ov, "-tags", "verif,ctreehook", "-o", out, "./zz_verif/cmd/vcorr"],
                       cwd=vcheck.REPO, env=vcheck.GOENV, capture_output=True, text=True)
    if r.returncode != 0:
        ctx.problems.append(("build", "harness build (with ctree hook) failed:\n" + (r.stdout + r.stderr)[-3000:], None))
        return
    ctx.bins["vcorr"] = out
    vcheck.log("  hook ctree.add.upgrade: present (real goroutines are parked at the schedule point)")
    # regression cases that need the hook (kept apart from corpus/C10/*.ops, which must run without it)
    import glob
    n = 0
    for f in sorted(glob.glob(os.path.join(vcheck.VERIF, "corpus", ctx.prop, "hook", "*.ops"))):
        with open(f) as fh:
            lines = [l for l in fh.read().split("\n") if l and not l.startswith("#")]
        idx, im, mo, sp = vcheck.eval_seq(ctx, out, lines)
        n += len(lines)
        if idx is not None:
            payload = {"component": "corpus/hook/" + os.path.basename(f), "ops": lines, "impl": im[:len(lines)],
                       "model": mo[:len(lines)], "spec": sp[:len(lines)], "first_divergence": idx}
            ctx.problems.append(("divergence", "corpus case hook/%s diverges" % os.path.basename(f), payload))
    ctx.cov["evaluations"] += n
    ctx.cov["components"]["corpus-hook"] = {"evaluations": n}


# ---------------------------------------------------------------- facts

def _func_body(src, header_re):
    m = re.search(header_re, src)
    if not m:
        return None
    i = src.index("{\n", m.end())
    depth, j = 0, i
    while j < len(src):
        if src[j] == "{":
            depth += 1
        elif src[j] == "}":
            depth -= 1
            if depth == 0:
                return src[i + 1:j]
        j += 1
    return None


def _lock_ops(body):
    """sequence of lock operations on mutexes, in source order, with `defer` marked"""
    if body is None:
        return None
    ops = []
    for m in re.finditer(r"(defer\s+)?(\w+)\.mu\.(RLock|RUnlock|Lock|Unlock)\(\)", body):
        ops.append(("defer " if m.group(1) else "") + m.group(3))
    return ops


# fact -> (function header regex, expected lock-operation sequence, the LTS element it justifies)
LOCK_FACTS = {
    "ctree.Get.locks": (r"func \(t \*Tree\) Get\(", ["defer RUnlock", "RLock"],
                        "rlockRoot/rlockChild + unlock: read lock held while recursing (Thread.stack)"),
    "ctree.queryInternal.locks": (r"func \(t \*Tree\) queryInternal\(", ["defer RUnlock", "RLock"],
                                  "query frames: read lock held while the children are visited"),
    "ctree.walkInternal.locks": (r"func \(t \*Tree\) walkInternal\(", ["defer RUnlock", "RLock"],
                                 "Walk = Query(nil): same lock pattern"),
    "ctree.walkInternalSorted.locks": (r"func \(t \*Tree\) walkInternalSorted\(", ["defer RUnlock", "RLock"],
                                       "WalkSorted: same lock pattern as Walk"),
    "ctree.terminalAdd.locks": (r"func \(t \*Tree\) terminalAdd\(", ["defer Unlock", "Lock"],
                                "termRoot/termWrite: one write-locked section"),
    "ctree.intermediateAdd.locks": (r"func \(t \*Tree\) intermediateAdd\(", ["RUnlock", "RLock", "RUnlock", "defer Unlock", "Lock"],
                                    "deferred conditional RUnlock; upgRelease = RUnlock, upgAcquire = Lock, write lock kept until return"),
    "ctree.slowAdd.locks": (r"func \(t \*Tree\) slowAdd\(", [],
                            "insert: runs under the caller's write lock, takes none itself"),
    "ctree.Leaf.Value.locks": (r"func \(l \*Leaf\) Value\(", ["defer RUnlock", "RLock"], "hval: the node's own read lock only"),
    "ctree.Leaf.Update.locks": (r"func \(l \*Leaf\) Update\(", ["defer Unlock", "Lock"], "hupd: the node's own write lock only"),
    "ctree.DeleteConditional.locks": (r"func \(t \*Tree\) DeleteConditional\(", ["defer Unlock", "Lock"],
                                      "delete: root write lock around the whole internalDelete"),
    "ctree.WalkDeleted.locks": (r"func \(t \*Tree\) WalkDeleted\(", ["defer Unlock", "Lock"],
                                "delete: root write lock around the whole internalDelete"),
    "ctree.enumerateChildren.locks": (r"func \(t \*Tree\) enumerateChildren\(", [],
                                      "visit: runs under the read lock taken by queryInternal"),
}


def lock_facts(ctx, cfg):
    try:
        src = _tree_go()
    except OSError as e:
        ctx.problems.append(("fact", "cannot read ctree/tree.go: %s" % e, None))
        return
    src = re.sub(r"//[^\n]*", "", src)
    bad = 0
    for name, (hdr, want, where) in sorted(LOCK_FACTS.items()):
        have = _lock_ops(_func_body(src, hdr))
        ok = have == want
        ctx.obligations.append(("fact " + name, ok, where if ok else "expected %r, source has %r" % (want, have)))
        if not ok:
            bad += 1
            ctx.problems.append(("fact", "fact %s changed: the LTS assumes %r (%s); ctree/tree.go now has %r"
                                 % (name, want, where, have), None))
    # the re-check after the upgrade (slowAdd): `br := b[path[0]]` guarded by `if br == nil`
    body = _func_body(src, r"func \(t \*Tree\) slowAdd\(") or ""
    norm = re.sub(r"\s+", " ", body)
    ok = "br := b[path[0]] if br == nil { br = newBranch(path[1:], value) b[path[0]] = br }" in norm
    ctx.obligations.append(("fact ctree.slowAdd.recheck", ok,
                            "guard of `insert` (hasChild nd k = false) / absence of `clobber` in Step true"))
    if not ok:
        bad += 1
        ctx.problems.append(("fact", "fact ctree.slowAdd.recheck changed: the LTS (rc = true) assumes slowAdd inserts the new "
                             "branch only when b[path[0]] is still nil after the lock upgrade", None))
    # which variant of the race clause describes internalDelete
    idel = _lock_ops(_func_body(src, r"func \(t \*Tree\) internalDelete\("))
    ctx.cov.setdefault("c10", {})["internalDelete_locks"] = idel
    vcheck.log("  facts: %d lock-pattern facts checked against ctree/tree.go, %d changed" % (len(LOCK_FACTS) + 1, bad))


def internal_delete_locks_nodes():
    try:
        src = re.sub(r"//[^\n]*", "", _tree_go())
    except OSError:
        return False
    ops = _lock_ops(_func_body(src, r"func \(t \*Tree\) internalDelete\("))
    return bool(ops) and "RLock" in " ".join(ops)


# ---------------------------------------------------------------- -race stress

RACE_BLOCK = re.compile(r"WARNING: DATA RACE\n(.*?)\n==================", re.S)


def _classify(block):
    """returns ('d15' | 'other', summary). A race report has two access stacks; the first frame
    after each `... at 0x... by goroutine N:` header is the accessing function."""
    acc = []
    lines = block.split("\n")
    for i, l in enumerate(lines):
        m = re.match(r"\s*(Previous )?([Rr]ead|[Ww]rite|[Aa]tomic \w+) at 0x[0-9a-f]+ by (main )?goroutine", l)
        if m and i + 1 < len(lines):
            fn = lines[i + 1].strip()
            loc = lines[i + 2].strip() if i + 2 < len(lines) else ""
            kind = "write" if "rite" in m.group(2) else "read"
            fn = re.sub(r"\(\)$", "", fn)
            fn = fn.replace("github.com/openconfig/gnmi/", "")
            acc.append((kind, fn, re.sub(r"^.*/(ctree/\S+?)(:\d+).*$", r"\1\2", loc)))
    fns = sorted((k, f) for k, f, _ in acc)
    summary = " vs ".join("%s %s %s" % a for a in acc)
    if fns == [("read", "ctree.(*Tree).internalDelete"), ("write", "ctree.(*Leaf).Update")]:
        return "d15", summary
    return "other", summary


def _run_stress(ctx, binpath, lines, timeout):
    env = dict(vcheck.GOENV, GORACE="halt_on_error=0 exitcode=0 history_size=2")
    try:
        r = subprocess.run([binpath, "run"], input="\n".join(lines) + "\n", capture_output=True, text=True,
                           timeout=timeout, env=env)
    except subprocess.TimeoutExpired as e:
        return None, (e.stderr or b"").decode() if isinstance(e.stderr, bytes) else (e.stderr or "")
    return r.stdout.split("\n")[:len(lines)], r.stderr


def race_stress(ctx, cfg):
    vrace, out = vcheck.go_build(ctx, "vcorr", race=True)
    if vrace is None:
        ctx.problems.append(("build", "-race harness build failed against the working tree:\n" + out[-3000:], None))
        return
    thorough = ctx.tier == "thorough"
    rounds = 2000 if thorough else 500
    seeds = [ctx.seed * 7919 + k for k in range(6 if thorough else 3)]
    c10 = ctx.cov.setdefault("c10", {})

    # (a) no handle update concurrent with a delete: race free, monitors ok
    lines = ["cc new"]
    for i, sd in enumerate(seeds):
        lines.append("cc stress %d %d %d nohd" % (sd, [8, 3, 16, 2, 12, 5][i % 6], rounds))
    obs, err = _run_stress(ctx, vrace, lines, 900)
    ok = obs is not None and all(o == "ok" for o in obs)
    blocks = RACE_BLOCK.findall(err or "")
    ctx.obligations.append(("-race stress without handle-update/delete overlap: monitors ok, no race report",
                            ok and not blocks, "%d race reports; observations %r" % (len(blocks), obs)))
    ctx.cov["evaluations"] += len(lines)
    c10["race_stress_nohd"] = {"lines": lines, "observations": obs, "race_reports": len(blocks)}
    if not ok:
        bad = next((i for i, o in enumerate(obs or []) if o != "ok"), 0)
        payload = {"component": "cc -race stress", "ops": lines[:bad + 1], "impl": (obs or ["<timeout>"])[:bad + 1],
                   "model": ["ok"] * (bad + 1), "spec": ["ok"] * (bad + 1), "first_divergence": bad,
                   "monitor_failed": True, "kind_hint": "failing-schedule",
                   "how": "history monitor named in impl[first_divergence] failed on the free-running stress (seeded program; "
                          "schedule is the Go scheduler's): VERIF_CC_DEBUG=1 prints the history"}
        ctx.problems.append(("divergence", "cc stress under -race: monitor `%s` failed" % ((obs or ["timeout"])[bad] if obs else "timeout"), payload))
    for b in blocks[:3]:
        kind, summary = _classify(b)
        payload = {"component": "cc -race stress (nohd)", "ops": lines, "impl": ["DATA RACE"], "model": ["ok"], "spec": ["ok"],
                   "first_divergence": 0, "monitor_failed": True, "race_report": b[:4000], "access_pair": summary}
        ctx.problems.append(("divergence", "race detector report on the stress without handle updates concurrent with "
                             "deletes: " + summary, payload))

    # (b) handle updates concurrent with deletes
    lines = ["cc new", "cc stress %d 4 %d d15" % (seeds[0], 40 if thorough else 12),
             "cc stress %d 8 %d hd" % (seeds[0], rounds // 2)]
    obs, err = _run_stress(ctx, vrace, lines, 900)
    blocks = RACE_BLOCK.findall(err or "")
    known = vcheck.known_findings(ctx.prop)
    d15 = others = 0
    d15_summary = ""
    for b in blocks:
        kind, summary = _classify(b)
        if kind == "d15":
            d15 += 1
            d15_summary = summary
            continue
        others += 1
        if others <= 3:
            payload = {"component": "cc -race stress (hd)", "ops": lines, "impl": ["DATA RACE"], "model": ["ok"], "spec": ["ok"],
                       "first_divergence": 0, "monitor_failed": True, "race_report": b[:4000], "access_pair": summary}
            ctx.problems.append(("divergence", "race detector report other than the known pair: " + summary, payload))
    okb = obs is not None and all(o == "ok" for o in obs)
    if not okb:
        bad = next((i for i, o in enumerate(obs or []) if o != "ok"), 0)
        payload = {"component": "cc -race stress (hd)", "ops": lines[:bad + 1], "impl": (obs or ["<timeout>"])[:bad + 1],
                   "model": ["ok"] * (bad + 1), "spec": ["ok"] * (bad + 1), "first_divergence": bad, "monitor_failed": True}
        ctx.problems.append(("divergence", "cc stress (handle updates concurrent with deletes): monitor failed", payload))
    fixed = internal_delete_locks_nodes()
    c10["race_stress_hd"] = {"lines": lines, "observations": obs, "d15_reports": d15, "other_reports": others,
                             "internalDelete_takes_node_locks": fixed}
    ctx.cov["evaluations"] += len(lines)
    if d15:
        kf = known.get(D15_CASE)
        if kf and not fixed:
            ctx.known.append("KNOWN-FINDING: property=%s %s [%d race reports: %s]" % (ctx.prop, kf["text"], d15, d15_summary))
        else:
            b = next(b for b in blocks if _classify(b)[0] == "d15")
            payload = {"component": "cc -race stress (hd)", "ops": lines, "impl": ["DATA RACE"], "model": ["ok"], "spec": ["ok"],
                       "first_divergence": 0, "monitor_failed": True, "race_report": b[:4000], "access_pair": d15_summary}
            ctx.problems.append(("divergence", "data race between Leaf.Update through a retained handle and internalDelete "
                                 "(theorem C10.race_witness)", payload))
    ctx.obligations.append(("-race stress with handle updates concurrent with deletes: only the D15 access pair is reported",
                            others == 0 and okb, "%d D15 reports, %d other reports" % (d15, others)))
    vcheck.log("  -race stress: nohd %s; hd: %d reports of the D15 pair, %d other" %
               ("clean" if c10["race_stress_nohd"]["race_reports"] == 0 and ok else "NOT clean (see evidence)", d15, others))
