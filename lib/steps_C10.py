"""C10: extra steps of the check (see lib/props_C10.py, DESIGN §8 C10).

pre   hook_probe   the `ctree.add.upgrade` schedule point (build tag verif) must be present in
                   /repo/ctree: `cc win/win2/windh` park real goroutines at it (a fact: its removal
                   breaks the tie; the harness does not build without it).
pre   lock_facts   regenerated facts about the lock operations of every ctree method the LTS
                   transitions stand for (normalised source text, compared with expectations),
                   incl. the re-check of slowAdd and "internalDelete reads every non-root node
                   under that node's read lock" (the repair of D15: theorem C10.race_free).
extra race_stress  `-race` build of the harness; free-running stress (a) without and (b) with
                   handle updates concurrent with deletes: all monitors `ok` and NO race report
                   of any kind.
"""
import os, re, subprocess

import vcheck

HOOK_CALL = 'verifPoint("ctree.add.upgrade")'


def _tree_go():
    with open(os.path.join(vcheck.REPO, "ctree", "tree.go")) as fh:
        return fh.read()


def hook_present():
    try:
        src = _tree_go()
    except OSError:
        return False
    if HOOK_CALL not in src:
        return False
    on = os.path.join(vcheck.REPO, "ctree", "verif_on.go")
    return os.path.exists(on) and "VerifHook" in open(on).read()


def hook_probe(ctx, cfg):
    present = hook_present()
    ctx.cov.setdefault("c10", {})["upgrade_hook_present"] = present
    ctx.obligations.append(("fact ctree.add.upgrade.hook", present,
                            "schedule point between RUnlock and Lock of intermediateAdd (upgRelease -> upgAcquire): "
                            "the forced-window schedules of go/vcorr/cc.go park goroutines there"))
    if not present:
        ctx.problems.append(("fact", "the schedule point verifPoint(\"ctree.add.upgrade\") (ctree/tree.go, ctree/verif_on.go) "
                             "is gone: the upgrade window can no longer be forced on the real code", None))
    vcheck.log("  hook ctree.add.upgrade: %s" % ("present" if present else "ABSENT"))


# ---------------------------------------------------------------- facts

def _func_body(src, header_re):
    m = re.search(header_re, src)
    if not m:
        return None
    i = src.index("{\n", m.end())
    depth, j = 0, i
    while j < len(src):
        if src[j] == "{":
            depth += 1
        elif src[j] == "}":
            depth -= 1
            if depth == 0:
                return src[i + 1:j]
        j += 1
    return None


def _lock_ops(body):
    """sequence of lock operations on mutexes, in source order, with `defer` marked"""
    if body is None:
        return None
    ops = []
    for m in re.finditer(r"(defer\s+)?(\w+)\.mu\.(RLock|RUnlock|Lock|Unlock)\(\)", body):
        ops.append(("defer " if m.group(1) else "") + m.group(3))
    return ops


# fact -> (function header regex, expected lock-operation sequence, the LTS element it justifies)
LOCK_FACTS = {
    "ctree.Get.locks": (r"func \(t \*Tree\) Get\(", ["defer RUnlock", "RLock"],
                        "rlockRoot/rlockChild + unlock: read lock held while recursing (Thread.stack)"),
    "ctree.queryInternal.locks": (r"func \(t \*Tree\) queryInternal\(", ["defer RUnlock", "RLock"],
                                  "query frames: read lock held while the children are visited"),
    "ctree.walkInternal.locks": (r"func \(t \*Tree\) walkInternal\(", ["defer RUnlock", "RLock"],
                                 "Walk = Query(nil): same lock pattern"),
    "ctree.walkInternalSorted.locks": (r"func \(t \*Tree\) walkInternalSorted\(", ["defer RUnlock", "RLock"],
                                       "WalkSorted: same lock pattern as Walk"),
    "ctree.terminalAdd.locks": (r"func \(t \*Tree\) terminalAdd\(", ["defer Unlock", "Lock"],
                                "termRoot/termWrite: one write-locked section"),
    "ctree.intermediateAdd.locks": (r"func \(t \*Tree\) intermediateAdd\(", ["RUnlock", "RLock", "RUnlock", "defer Unlock", "Lock"],
                                    "deferred conditional RUnlock; upgRelease = RUnlock, upgAcquire = Lock, write lock kept until return"),
    "ctree.slowAdd.locks": (r"func \(t \*Tree\) slowAdd\(", [],
                            "insert: runs under the caller's write lock, takes none itself"),
    "ctree.Leaf.Value.locks": (r"func \(l \*Leaf\) Value\(", ["defer RUnlock", "RLock"], "hval: the node's own read lock only"),
    "ctree.Leaf.Update.locks": (r"func \(l \*Leaf\) Update\(", ["defer Unlock", "Lock"], "hupd: the node's own write lock only"),
    "ctree.DeleteConditional.locks": (r"func \(t \*Tree\) DeleteConditional\(", ["defer Unlock", "Lock"],
                                      "delete: root write lock around the whole internalDelete"),
    "ctree.WalkDeleted.locks": (r"func \(t \*Tree\) WalkDeleted\(", ["defer Unlock", "Lock"],
                                "delete: root write lock around the whole internalDelete"),
    "ctree.enumerateChildren.locks": (r"func \(t \*Tree\) enumerateChildren\(", [],
                                      "visit: runs under the read lock taken by queryInternal"),
    # read-side node operations of the extended LTS (Model/CTreeConcX.lean, Props/C10Safe.lean)
    "ctree.Tree.Value.locks": (r"func \(t \*Tree\) Value\(", ["defer RUnlock", "RLock"],
                               "nRLock/nRUnlock (leaf node), rlockRoot/unlock (root, Api.rootValue): ONE read lock"),
    "ctree.Tree.IsBranch.locks": (r"func \(t \*Tree\) IsBranch\(", ["defer RUnlock", "RLock"],
                                  "nRLock/nRUnlock, Api.rootIsBranch: one read lock"),
    "ctree.Tree.Children.locks": (r"func \(t \*Tree\) Children\(", ["defer RUnlock", "RLock"],
                                  "nRLock/nRUnlock, Api.rootChildren: one read lock around isBranch() and the assertion"),
    "ctree.isBranch.locks": (r"func \(t \*Tree\) isBranch\(", [],
                             "rootCheck / body of a node operation: isBranch() takes no lock"),
    "ctree.GetLeafValue.locks": (r"func \(t \*Tree\) GetLeafValue\(", [],
                                 "GetLeafValue = Get (all locks released on return) then Value on the result"),
    "ctree.Walk.locks": (r"func \(t \*Tree\) Walk\(", [], "Api.walk: walkInternal(nil) only"),
    "ctree.WalkSorted.locks": (r"func \(t \*Tree\) WalkSorted\(", [], "Api.walkSorted: walkInternalSorted(nil) only"),
}

# fact -> (function header regex, text that must occur in the normalised body, texts that must not
# occur, the LTS element it justifies): no method re-acquires a read lock it already holds
# (theorem C10Safe.no_recursive_rlock_node; C10Safe.deadlock_with_recursive_rlock is what happens otherwise)
NESTED_FACTS = {
    "ctree.Tree.Value.no_nested_rlock": (r"func \(t \*Tree\) Value\(", ["if t.isBranch() { return nil } return t.leafBranch"],
                                         [".IsBranch()", ".Children()", ".Value()", ".Get("],
                                         "Variant.rv = false: Value calls the lock-free isBranch (no transition nRLock2)"),
    "ctree.Tree.Children.no_nested_rlock": (r"func \(t \*Tree\) Children\(",
                                            ["if t.isBranch() { ret := make(branch) for k, v := range t.leafBranch.(branch) {"],
                                            [".IsBranch()", ".Children()", ".Value()", ".Get("],
                                            "rootCheck then getHit under one read lock: the unchecked assertion follows isBranch() "
                                            "in the same critical section (C10Safe.never_panics, panic condition badAssert)"),
    "ctree.Tree.IsBranch.no_nested_rlock": (r"func \(t \*Tree\) IsBranch\(", ["return t.isBranch()"],
                                            [".IsBranch()", ".Children()", ".Value()", ".Get("],
                                            "one read lock, lock-free body"),
    "ctree.isBranch.comma_ok": (r"func \(t \*Tree\) isBranch\(", ["_, ok := t.leafBranch.(branch) return ok"], [],
                                "isBranch never panics (comma-ok assertion)"),
    "ctree.walkInternalSorted.lookup_under_lock": (r"func \(t \*Tree\) walkInternalSorted\(",
                                                  ["if err := b[name].walkInternalSorted(append(p, name), f); err != nil {"],
                                                  ["t.mu.RUnlock() if"],
                                                  "panic condition childGone: the second lookup b[name] happens while t is still read locked"),
}


def lock_facts(ctx, cfg):
    try:
        src = _tree_go()
    except OSError as e:
        ctx.problems.append(("fact", "cannot read ctree/tree.go: %s" % e, None))
        return
    src = re.sub(r"//[^\n]*", "", src)
    bad = 0
    for name, (hdr, want, where) in sorted(LOCK_FACTS.items()):
        have = _lock_ops(_func_body(src, hdr))
        ok = have == want
        ctx.obligations.append(("fact " + name, ok, where if ok else "expected %r, source has %r" % (want, have)))
        if not ok:
            bad += 1
            ctx.problems.append(("fact", "fact %s changed: the LTS assumes %r (%s); ctree/tree.go now has %r"
                                 % (name, want, where, have), None))
    for name, (hdr, must, mustnot, where) in sorted(NESTED_FACTS.items()):
        body = _func_body(src, hdr)
        norm = re.sub(r"\s+", " ", body or "")
        ok = body is not None and all(m in norm for m in must) and not any(m in norm for m in mustnot)
        ctx.obligations.append(("fact " + name, ok, where if ok else "body is now: %s" % norm[:300]))
        if not ok:
            bad += 1
            ctx.problems.append(("fact", "fact %s changed: the extended LTS (Props/C10Safe.lean) assumes %s; ctree/tree.go now has: %s"
                                 % (name, where, norm[:300]), None))
    # the re-check after the upgrade (slowAdd): `br := b[path[0]]` guarded by `if br == nil`
    body = _func_body(src, r"func \(t \*Tree\) slowAdd\(") or ""
    norm = re.sub(r"\s+", " ", body)
    ok = "br := b[path[0]] if br == nil { br = newBranch(path[1:], value) b[path[0]] = br }" in norm
    ctx.obligations.append(("fact ctree.slowAdd.recheck", ok,
                            "guard of `insert` (hasChild nd k = false) / absence of `clobber` in Step true"))
    if not ok:
        bad += 1
        ctx.problems.append(("fact", "fact ctree.slowAdd.recheck changed: the LTS (rc = true) assumes slowAdd inserts the new "
                             "branch only when b[path[0]] is still nil after the lock upgrade", None))
    # internalDelete: every non-root node is read under its own read lock (repair of D15)
    ibody = _func_body(src, r"func \(t \*Tree\) internalDelete\(") or ""
    inorm = re.sub(r"\s+", " ", ibody)
    want = "var lb interface{} if root { lb = t.leafBranch } else { t.mu.RLock() lb = t.leafBranch t.mu.RUnlock() }"
    rec_calls = re.findall(r"\.internalDelete\(([^()]*(?:\([^()]*\)[^()]*)*)\)", ibody)
    top_calls = []
    for hdr in (r"func \(t \*Tree\) DeleteConditional\(", r"func \(t \*Tree\) WalkDeleted\("):
        top_calls += re.findall(r"t\.internalDelete\((.*)\)", _func_body(src, hdr) or "")
    ok = (want in inorm and inorm.count("t.leafBranch") == 2 and _lock_ops(ibody) == ["RLock", "RUnlock"]
          and len(rec_calls) == 2 and all(c.strip().endswith(", false") for c in rec_calls)
          and len(top_calls) == 2 and all(c.strip().endswith(", true") for c in top_calls))
    ctx.obligations.append(("fact ctree.internalDelete.node_lock", ok,
                            "delReadLocks true: the delete step reads node x under [root W, x R] (theorem C10.race_free)"))
    if not ok:
        bad += 1
        ctx.problems.append(("fact", "fact ctree.internalDelete.node_lock changed: the model (accesses true) assumes that "
                             "internalDelete reads t.leafBranch of every non-root node between t.mu.RLock() and t.mu.RUnlock() "
                             "(root flag true only in DeleteConditional/WalkDeleted); without it Leaf.Update through a retained "
                             "handle races with deletes (C10.race_witness_prefix)", None))
    vcheck.log("  facts: %d lock-pattern facts checked against ctree/tree.go, %d changed"
               % (len(LOCK_FACTS) + len(NESTED_FACTS) + 2, bad))


# ---------------------------------------------------------------- -race stress

RACE_BLOCK = re.compile(r"WARNING: DATA RACE\n(.*?)\n==================", re.S)


def _classify(block):
    """returns ('d15' | 'other', summary). A race report has two access stacks; the first frame
    after each `... at 0x... by goroutine N:` header is the accessing function."""
    acc = []
    lines = block.split("\n")
    for i, l in enumerate(lines):
        m = re.match(r"\s*(Previous )?([Rr]ead|[Ww]rite|[Aa]tomic \w+) at 0x[0-9a-f]+ by (main )?goroutine", l)
        if m and i + 1 < len(lines):
            fn = lines[i + 1].strip()
            loc = lines[i + 2].strip() if i + 2 < len(lines) else ""
            kind = "write" if "rite" in m.group(2) else "read"
            fn = re.sub(r"\(\)$", "", fn)
            fn = fn.replace("github.com/openconfig/gnmi/", "")
            acc.append((kind, fn, re.sub(r"^.*/(ctree/\S+?)(:\d+).*$", r"\1\2", loc)))
    fns = sorted((k, f) for k, f, _ in acc)
    summary = " vs ".join("%s %s %s" % a for a in acc)
    if fns == [("read", "ctree.(*Tree).internalDelete"), ("write", "ctree.(*Leaf).Update")]:
        return "d15", summary
    return "other", summary


def _run_stress(ctx, binpath, lines, timeout):
    env = dict(vcheck.GOENV, GORACE="halt_on_error=0 exitcode=0 history_size=2")
    try:
        r = subprocess.run([binpath, "run"], input="\n".join(lines) + "\n", capture_output=True, text=True,
                           timeout=timeout, env=env)
    except subprocess.TimeoutExpired as e:
        return None, (e.stderr or b"").decode() if isinstance(e.stderr, bytes) else (e.stderr or "")
    return r.stdout.split("\n")[:len(lines)], r.stderr


def race_stress(ctx, cfg):
    vrace, out = vcheck.go_build(ctx, "vcorr", race=True)
    if vrace is None:
        ctx.problems.append(("build", "-race harness build failed against the working tree:\n" + out[-3000:], None))
        return
    thorough = ctx.tier == "thorough"
    rounds = 2000 if thorough else 500
    seeds = [ctx.seed * 7919 + k for k in range(6 if thorough else 3)]
    c10 = ctx.cov.setdefault("c10", {})

    # (a) no handle update concurrent with a delete: race free, monitors ok
    lines = ["cc new"]
    for i, sd in enumerate(seeds):
        lines.append("cc stress %d %d %d nohd" % (sd, [8, 3, 16, 2, 12, 5][i % 6], rounds))
    obs, err = _run_stress(ctx, vrace, lines, 900)
    ok = obs is not None and all(o == "ok" for o in obs)
    blocks = RACE_BLOCK.findall(err or "")
    ctx.obligations.append(("-race stress without handle-update/delete overlap: monitors ok, no race report",
                            ok and not blocks, "%d race reports; observations %r" % (len(blocks), obs)))
    ctx.cov["evaluations"] += len(lines)
    c10["race_stress_nohd"] = {"lines": lines, "observations": obs, "race_reports": len(blocks)}
    if not ok:
        bad = next((i for i, o in enumerate(obs or []) if o != "ok"), 0)
        payload = {"component": "cc -race stress", "ops": lines[:bad + 1], "impl": (obs or ["<timeout>"])[:bad + 1],
                   "model": ["ok"] * (bad + 1), "spec": ["ok"] * (bad + 1), "first_divergence": bad,
                   "monitor_failed": True, "kind_hint": "failing-schedule",
                   "how": "history monitor named in impl[first_divergence] failed on the free-running stress (seeded program; "
                          "schedule is the Go scheduler's): VERIF_CC_DEBUG=1 prints the history"}
        ctx.problems.append(("divergence", "cc stress under -race: monitor `%s` failed" % ((obs or ["timeout"])[bad] if obs else "timeout"), payload))
    for b in blocks[:3]:
        kind, summary = _classify(b)
        payload = {"component": "cc -race stress (nohd)", "ops": lines, "impl": ["DATA RACE"], "model": ["ok"], "spec": ["ok"],
                   "first_divergence": 0, "monitor_failed": True, "race_report": b[:4000], "access_pair": summary}
        ctx.problems.append(("divergence", "race detector report on the stress without handle updates concurrent with "
                             "deletes: " + summary, payload))

    # (b) handle updates concurrent with deletes (directed + random): also race free since the
    # repair of D15; every report is a violation
    lines = ["cc new", "cc stress %d 4 %d d15" % (seeds[0], 40 if thorough else 12),
             "cc stress %d 8 %d hd" % (seeds[0], rounds // 2), "cc stress %d 3 %d hd" % (seeds[1], rounds // 2)]
    obs, err = _run_stress(ctx, vrace, lines, 900)
    blocks = RACE_BLOCK.findall(err or "")
    okb = obs is not None and all(o == "ok" for o in obs)
    if not okb:
        bad = next((i for i, o in enumerate(obs or []) if o != "ok"), 0)
        payload = {"component": "cc -race stress (hd)", "ops": lines[:bad + 1], "impl": (obs or ["<timeout>"])[:bad + 1],
                   "model": ["ok"] * (bad + 1), "spec": ["ok"] * (bad + 1), "first_divergence": bad, "monitor_failed": True}
        ctx.problems.append(("divergence", "cc stress (handle updates concurrent with deletes): monitor failed", payload))
    for b in blocks[:3]:
        kind, summary = _classify(b)
        what = ("data race between Leaf.Update through a retained handle and internalDelete (defect D15 is back: "
                "C10.race_witness_prefix)" if kind == "d15" else
                "race detector report on the stress with handle updates concurrent with deletes: " + summary)
        payload = {"component": "cc -race stress (hd)", "ops": lines, "impl": ["DATA RACE"], "model": ["ok"], "spec": ["ok"],
                   "first_divergence": 0, "monitor_failed": True, "race_report": b[:4000], "access_pair": summary}
        ctx.problems.append(("divergence", what, payload))
    c10["race_stress_hd"] = {"lines": lines, "observations": obs, "race_reports": len(blocks)}
    ctx.cov["evaluations"] += len(lines)
    ctx.obligations.append(("-race stress with handle updates concurrent with deletes: monitors ok, no race report",
                            okb and not blocks, "%d race reports; observations %r" % (len(blocks), obs)))
    vcheck.log("  -race stress: nohd %d race reports, hd %d race reports" % (c10["race_stress_nohd"]["race_reports"], len(blocks)))
