"""C12, from the wire to the cache (component `wi`): merged into lib/props_C12.py."""

WIRE_PROP = {
    "modules": ["Gnmi.Props.C12Wire", "Gnmi.Props.C12Opt"],
    "theorems": ["Gnmi.C12W." + t for t in [
        "toNoti_joinKey", "toNoti_updKey", "toNoti_delKey", "toNoti_key_order", "toNoti_stamp", "toNoti_stamp_praw_nil",
        "wireGnmiUpdate_wireValid", "wire_ingest_sinv", "wire_ingest_total",
        "mgr_recv_total", "mgr_session_total", "wire_session_total", "mgrRecv_is_step", "mgrSession_reachable",
        "wire_rejected_preserves",
        "subscribe_all_requests_total", "later_requests_unread", "later_content_ignored", "pollRounds_reads",
        "later_nonpoll_rejected_false"]] + ["Gnmi.C12Opt." + t for t in [
        # the receive loop with any subset of its optional callbacks configured (Model/ManagerOpt.lean; `wi opt`)
        "opt_session_total", "opt_session_total_wire", "opt_session_filter", "full_session_shape", "optLoop_guarded",
        "unguarded_sync_panics", "unguarded_update_panics", "unguarded_connect_panics", "unguarded_reset_panics"]],
    "components": [
        {"c": "wi", "quick": {"n": 1500, "exhaustive": True}, "thorough": {"n": 20000, "exhaustive": True, "seeds": 4}},
    ],
    "trusted_base": [
        "wire-to-cache translation lean/Gnmi/Model/WireIngest.lean (Wire.toNoti over the C19 model of path.ToStrings; "
        "Cache.GnmiUpdate, manager.handleUpdates with the collector's callbacks and Server.Subscribe over a whole request "
        "stream on decoded messages), tied to the code by the wi correspondence: the REAL manager.handleUpdates loop "
        "(overlay seam manager.VerifHandleUpdates, go/pkg_manager/verif_session.go) on a scripted response stream, wired to a REAL cache.Cache with the "
        "collector's callbacks; the rendered leaves and feed events carry the raw renderings the translation produced, so "
        "it is compared field by field with what the cache stored. The Update closure of cmd/gnmi_collector (package main) "
        "is re-stated in go/vcorr/wi.go; its process-level tie is C01's",
    ],
    "assumptions": [
        "wi generator restriction: values the cache model's value type cannot hold exactly - nil payloads / nil leaf-list "
        "elements (not WireValid) and a leaf-list nested in a leaf-list (WireValid: value.Equal recurses into it, the model "
        "treats it as an opaque never-equal arm, so only the *suppression* of an unchanged nested list differs) - are "
        "translated and stored but never written twice to one leaf; unknown protobuf fields and Notification.alias are not "
        "part of the message shape (proto.Equal would compare them)",
        "subscribe_all_requests_total is over the quiescent schedule of the harness (a later request is delivered once the "
        "sync response of the running walk went out; cache unchanged during the RPC); interleavings are C04-C08",
    ],
    "level_text_part":
        " Optional callbacks (Props/C12Opt.lean over Model/ManagerOpt.lean): for every subset of Config.Connect / Sync / Update / "
        "Reset left nil and every response stream gRPC can deliver, handleUpdates runs to the end of the stream without a panic "
        "(opt_session_total) and invokes exactly the configured callbacks of the fully configured session, in its order "
        "(opt_session_filter, full_session_shape); each of the four nil checks is shown necessary by a decided witness; tied to the "
        "code by `wi opt` (a Manager built by NewManager from a Config holding exactly the callbacks of the mask, all 16 masks)."
        " Wire to cache (Props/C12Wire.lean over Model/WireIngest.lean): Wire.toNoti states the reduction the Go code performs "
        "implicitly between a decoded gnmi.Notification and what the cache reads (path.ToStrings on prefix and paths incl. "
        "deprecated elements and keys, origin, nil prefix / path / value, atomic, timestamp, canonical renderings standing "
        "for proto.Equal) and is proved to be the cache's own reading (toNoti_joinKey: the model's index = joinPrefixAndPath "
        "on the message, slice panic included; toNoti_key_order: independent of key-map iteration order via C19; "
        "toNoti_stamp: commutes with the collector's target stamping of Model/Pipeline); wire_ingest_total composes it with "
        "ingest_total (every WireValid notification x every reachable cache state), mgr_session_total / wire_session_total "
        "compose manager_handle_total, ingest_total and meta_refresh_no_panic over the whole handleUpdates loop (Connect, "
        "update -> closure -> GnmiUpdate, sync -> Sync, error/unset -> logged, Reset at the end), mgrSession_reachable closes "
        "the loop (a session leaves an API-reachable state), wire_rejected_preserves lifts rejected_preserves to whole wire "
        "messages. subscribe_all_requests_total: Server.Subscribe over the whole request stream (first request + any later "
        "requests of any shape) never panics; later_requests_unread / later_content_ignored say what the code does with "
        "later requests (ONCE/STREAM never read them, POLL treats any message as a poll trigger); the expectation that a "
        "later non-poll request ends the RPC with an error is false of the code (later_nonpoll_rejected_false, witness "
        "corpus/C12/wi_later_request_ignored.ops).",
}
