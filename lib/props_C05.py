from subprops import SUB_TB, SUB_ASSUMPTIONS, su_component

import facts

ID = "C05"
PROP = {
    "modules": ["Gnmi.Props.C05", "Gnmi.Props.C05Reach"],
    "theorems": ["Gnmi.C05." + t for t in [
        "once_static_exact", "walkItems_mem", "once_origin_conflict", "walk_fold", "insertHandle_walk", "pump_drains",
        "once_static_exact_reachable", "walk_targets_reachable", "walk_functional_reachable", "walk_item_source", "reachable_owner"]] + ["Gnmi.Feed.step_names", "Gnmi.Feed.get_of_mem"],
    "components": [su_component(""), su_component("c08", 150, 1500),
                   # coalesce.go is anchored here too: the queue under its window hooks (C11 is its own property)
                   {"c": "co", "quick": {"n": 1500}, "thorough": {"n": 8000, "seeds": 2}}],
    "monitor": "spec", "level": "proof",
    "trusted_base": SUB_TB, "assumptions": SUB_ASSUMPTIONS + [
        "once_static_exact assumes that a stored notification carries its target's name in the prefix and that a leaf has one value (Functional); "
        "once_static_exact_reachable discharges both for every cache reachable through the API (stored-owner invariant of the feed simulation, "
        "unique keys, unique target names)",
    ],
    "manifest": {
        "level_text": "Lean 4 theorems over the code-shaped sequential model of subscribe.Server: once_static_exact (for every cache content, ACL and "
                      "accepted ONCE request whose paths CompletePath accepts, the stream carries one update per distinct leaf that Cache.Query returns "
                      "for a completed subscription path on a visible target — every such leaf, nothing else, each with its current notification — then "
                      "exactly one sync_response, then status OK), walkItems_mem (the walk collects exactly the Query results of the completed paths), "
                      "once_origin_conflict (error, no sync). POLL and the behaviour with concurrent writers: the su correspondence exercises polls "
                      "(re-walk per trigger, one more sync) and writes placed in the walk window; the all-interleavings statement is the LTS theorem "
                      "(Props/C05L) when listed in the evidence obligations.",
        "level_note": "Trusted: Lean kernel; sequential model validated by the su correspondence on the real Subscribe server (all modes, '*' and "
                      "single targets, origins, globs at every position, 0-3 polls); Go runtime.",
        "technique": "Lean 4 proof (fold invariants over the walk and the sender loop of a code-shaped model) + model/implementation correspondence on the real Subscribe server",
    },
}
PROP.setdefault("pre", []).append(facts.make_step(['subscribe.once.closeAfterWalk', 'subscribe.poll.spawn', 'subscribe.walk.order', 'subscribe.sender.loop']))
PROP["modules"].append("Gnmi.Props.C05L")
PROP["theorems"] += ["Gnmi.C05L." + t for t in ["once_concurrent", "once_ends_ok", "poll_first_round", "poll_rounds", "poll_trigger_enabled", "poll_eof_ok", "onceInv_reach"]]

# POLL clause over the sequential model (docs/POLL_SEQ_NOTES.md)
PROP["modules"] += ["Gnmi.Lemmas.SubscribePoll", "Gnmi.Props.C05Poll"]
PROP["theorems"] += ["Gnmi.C05Poll." + t for t in [
    "once_static_exact_snapshot", "once_static_exact_once", "poll_initial_exact", "poll_initial_exact_in", "poll_initial_exact_reachable",
    "poll_origin_conflict", "poll_trigger_exact", "poll_trigger_exact_reachable", "pollSub_exact",
    "poll_rounds_exact", "poll_rounds_exact_of_good", "poll_sync_count", "subRun_rounds", "prun_shape", "pstep_shape",
    "feed_leaves_poll", "rounds_sync_count", "round_items", "crun_eq_runS",
    "eof_ends_ok", "poll_after_eof", "poll_ended", "poll_unknown", "histP_ok", "p1_live"]] + \
    ["Gnmi.SubPoll." + t for t in [
        "round_exact", "feedSub_idle", "subscribe_shape", "walkItems_isSome", "walkItems_isSome_congr",
        "round_pinv", "good_of_reach", "reach_step", "walk_fail", "walk_once", "walk_body", "insertHandle_keys", "walk_fold_keys",
        "SnapshotOnce.body"]]
# bC05L: the SEQ/LTS simulation extended to ONCE / POLL, poll, eof (Props/C05Refine.lean); run forms of the C05 LTS theorems (Props/C05LRun.lean)
from c05refine_part import MODULES as _C05R_MODULES, THEOREMS as _C05R_THEOREMS, LEVEL_TEXT as _C05R_TEXT
PROP["modules"] += _C05R_MODULES
PROP["theorems"] += _C05R_THEOREMS
PROP["manifest"]["level_text"] += _C05R_TEXT
