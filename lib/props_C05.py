from cacheprops import CACHE_TB, CACHE_ASSUMPTIONS

ID = "C05"
PROP = {
    "unclaimed": True,
    "modules": [], "theorems": [],
    "components": [{"c": "su", "quick": {"n": 400}, "thorough": {"n": 5000, "seeds": 3}}],
    "monitor": "spec", "level": "proof",
    "trusted_base": CACHE_TB, "assumptions": CACHE_ASSUMPTIONS,
    "manifest": {"level_text": "", "level_note": "", "technique": ""},
}
