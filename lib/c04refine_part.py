"""C04/C05/C07/C08: the sequential Subscribe model (Model/Subscribe.lean) is simulated by the Subscribe LTS
(Model/SubscribeLTS.lean), for the concrete instance C06Glue.subSys — STREAM + cache calls + flow control.
Props/C04Refine.lean, lemmas Lemmas/SubscribeRefine.lean.  Merge into lib/props_C04.py:

    from c04refine_part import MODULES, THEOREMS, LEVEL_TEXT
    PROP["modules"] += MODULES; PROP["theorems"] += THEOREMS; PROP["manifest"]["level_text"] += LEVEL_TEXT

lean/Gnmi.lean must import Gnmi.Lemmas.SubscribeRefine and Gnmi.Props.C04Refine.
Corpus: corpus/C04/refine_suppressed_update.ops, corpus/C04/refine_overlap_dups.ops (both agree with the model).
"""

MODULES = [
    "Gnmi.Lemmas.SubscribeRefine",
    "Gnmi.Props.C04Refine",
]

THEOREMS = ["Gnmi.Refine." + t for t in [
    # one SEQ subscriber against its LTS client: sender run, flow control, one feed event, the walk, Subscribe
    "dequeue_sim", "release_sim", "pump_sim", "gateF_sim", "stepF_sim", "ev_fire", "ev_vrel", "ev_live",
    "events_sim", "feed_sim", "updateSub_sim", "handler_accept", "subscribe_reject", "walk_step_sim",
    "walk_finish_sim", "subscribe_sim", "add_sim",
    # the cache model's calls are explained transitions
    "step_events_known", "step_get_isSome",
]] + ["Gnmi.C04Refine." + t for t in [
    "sim_init", "ca_sim", "gop_step_simulated", "expire_simulated", "expire_simulated_partial", "xrun_map_g",
    "seq_step_simulated", "okHist_map_g", "okHist_append", "seq_run_simulated", "seq_reachable_in_lts",
    # LTS invariants transferred to the sequential model
    "seq_one_sync", "seq_never_sends_denied", "converges_of_rel", "seq_converges", "view_eq_replay", "seq_converges_replay",
    # where the two models differ (decided witnesses; replayed on the real server)
    "histE_state", "suppressed_update_not_simulated", "suppressed_update_lts_run",
    # a former difference, repaired in the LTS (bC05L): the walker may visit a leaf once per matching subscription path
    "overlap_dup_agrees",
    # two former differences, repaired in the LTS (bLTSFIX): the mode switch sits at h4, after HasTarget and the ACL check;
    # the send timer is armed around the Send of the sync marker (D24)
    "mode_other_status_agrees", "mode_other_rejected_at_switch", "sync_send_expire_agrees",
    # non-vacuity (histX: two stalled subscribers, one inside the Send of the sync marker, ended by two timeouts)
    "histG_gokHist", "histG_okHist", "histG_run", "histX_okHist", "histX_run",
]]

LEVEL_TEXT = (
    " The sequential model and the LTS are linked by a proved simulation (Props/C04Refine.lean): for the LTS instance built from the "
    "actual requests (C06Glue.subSys), seq_step_simulated — every operation of the STREAM / cache-call / flow-control fragment "
    "(Subscribe of a STREAM request accepted or rejected, any cache API call, gate shut/step/open) and the send timeout "
    "(Sub.expire; expire_simulated, no side condition: the expire step of every client stalled inside a Send, of a data response "
    "or of the sync marker) from a SEQ state related by "
    "Refine.StRel (cache contents = LTS store; every subscriber's queue as handles of the right generation, held response, gate, "
    "responses sent, status) is one finite run of LTS steps (handler, walker visits, writer W1;W2 per event, sender next;build;sent) "
    "ending in a related configuration with the same responses sent in the same order; seq_reachable_in_lts — every SEQ state "
    "reached by such a history is related to a Reach-able configuration, so LTS invariants hold of it: seq_one_sync, "
    "seq_never_sends_denied, seq_converges are C04.one_sync, C07L.never_sends_denied, C04.converges transferred "
    "(seq_converges_replay: on SubStream.replay, the conclusion of C04Gate.stream_converges_gate_open with equality). Partial: ONCE/POLL, "
    "poll/eof are not simulated; side conditions OkRun-like (Clean updates, fresh Adds, no '*' target), no atomic "
    "notification (D25), event-driven emulation off, subscription paths complete. Decided differences of the two models: a "
    "suppressed update (written, not announced) is a quiet write w1Quiet of the LTS: the simulation relation demands an empty "
    "quiet log, so the SEQ state after one is related to no reachable configuration (suppressed_update_not_simulated; the real server "
    "behaves as SEQ: corpus/C04/refine_suppressed_update.ops), while suppressed_update_lts_run exhibits the LTS run with the quiet write "
    "that matches it (same responses sent, same stored notification, quiet log = the one pair of equal-valued notifications, to which "
    "C04.converges applies); the general simulation of suppressing histories is not proved; the initial walk counts a leaf twice when one request holds overlapping paths "
    "(one Query per subscription path): the LTS walker may now visit a leaf once per matching path (Req.extra, C06Glue.extraOf; "
    "SubLTS.visit_beyond_extra: not more often), and overlap_dup_agrees exhibits the run whose client is sent the update with "
    "duplicates = 1 as in SEQ and on the real server (the simulation relation still relates queues and responses up to duplicate "
    "counts: the LTS allows one visit per matching path, it does not force it). Two further former differences "
    "were repaired in the LTS: the handler tests the mode where the code does, in the switch after HasTarget and the ACL check "
    "(Mode.other, rejected at h4: mode_other_status_agrees — NotFound for a missing target, InvalidArgument otherwise, in both "
    "models), and the send timer is armed around the Send of the sync marker as since the repair of D24 (sync_send_expire_agrees: "
    "in every reachable configuration a client stalled in sendSync can expire and ends with timeout).")
