"""Latency clause of C15 (built separately; merged into lib/props_C15.py by the C15 owner).

LAT_PROP has the same field names as a PROP (see lib/props.py); merge by concatenating
modules / theorems / components / trusted_base / assumptions.  Typical use:

    from c15_latency_part import LAT_PROP
    PROP["modules"] += LAT_PROP["modules"]; PROP["theorems"] += LAT_PROP["theorems"]; ...
"""

LAT_PROP = {
    "modules": ["Gnmi.Props.C15Latency"],
    "theorems": ["Gnmi.C15Lat." + t for t in [
        # the clause itself
        "latency_bounds", "latency_bounds_clock", "bounded_between", "latency_between",
        "avg_exact_default_precision", "zero_never_written", "max_written_pos",
        # bookkeeping invariants
        "counts_add_up", "slots_recent", "slide_in_range",
        # stronger reading (what a metadata reader sees): refuted + what holds
        "exported_bounds_witness", "exported_bounds_witness_neg", "exported_bounds_false", "stale_after_idle",
        "exported_bounds_partial",
        # conventions made visible / hypothesis necessary
        "zero_sample_resets_min", "negative_samples_no_max", "nonmonotonic_clock_breaks_bounds"]],
    "components": [
        {"c": "lt", "quick": {"n": 1500, "exhaustive": True},
         "thorough": {"n": 20000, "exhaustive": True, "seeds": 4}},
    ],
    "rule_part": "lt: call sequences (new / compute / update / last / stale / parse) on one latency.Latency with a "
                 "scripted latency.Now and a recording Metadata, from the seeded generator (1-3 windows that are "
                 "multiples of the update period plus zero/negative/non-multiple/duplicate sizes, precisions "
                 "unset/0/1/10/1us/1ms/negative, bursts, idle gaps, jittered and repeated update instants, samples "
                 "0 / negative / huge / around multiples of the precision, occasional backwards clock steps) plus "
                 "the exhaustive scope of all 5-step (thorough: 6-step) sequences over {samples -1,0,3,4, update "
                 "+1 tick, update +0}; the implementation's observation carries a model-independent monitor "
                 "verdict (every written value against the true smallest/largest of the samples the window "
                 "covers, from the harness's own log)",
    "trusted_base": [
        "latency: time.Time/Duration arithmetic as unbounded Int nanoseconds (no int64 overflow of the accumulated "
        "totals, no saturation of Time.Sub: generator keeps |latency| <= ~1e16 ns); the metadata name is identified "
        "with (window size, stat type) (names mapped back through latency.MetadataName by the harness)",
    ],
    "assumptions": [
        "latency: monotonic clock as far as the windows depend on it - the clock readings taken by the update calls "
        "never decrease (UpdMono; implied by all readings non-decreasing); necessary "
        "(nonmonotonic_clock_breaks_bounds); the model and the correspondence also cover backwards steps",
        "latency: configured averaging precision is positive (0/unset = 1 ns); a negative precision is modelled and "
        "exercised by the correspondence but not covered by latency_bounds",
        "latency: the default ComputeFunc (now - ts); theorems are stated over the computed latency values, "
        "so they hold for any ComputeFunc",
    ],
    "level_text_part": "latency clause: Lean 4 theorem latency_bounds over an executable model of latency/latency.go "
                       "(Compute, update/UpdateReset/UpdateLast, window add/slide/isCovered/updateMeta, setAvg/Max/Min "
                       "with the '0 = unset' arms, scale factor): for all sample sequences, window sizes, precisions "
                       "and update instants with non-decreasing update clock readings, every written max equals the "
                       "largest sample the window covers, every written min is one of them (the smallest unless a "
                       "sample is exactly 0), every written avg lies between the smallest and largest sample each "
                       "truncated to the precision (hence within (smallest-sf, largest+sf)); 0 is never written. "
                       "Invariants: counts/totals add up, no slot older than the window. The stronger reading "
                       "(every value a metadata reader sees) is refuted by a decided witness (stale export) and "
                       "proved in the partial form exported_bounds_partial.",
}
