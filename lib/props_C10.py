from props import COMMON_TB
import steps_C10

ID = "C10"
PROP = {
    "modules": ["Gnmi.Props.C10", "Gnmi.Props.C10Safe"],
    "theorems": ["Gnmi.C10." + t for t in [
        "frozen_ancestors", "locks_form_a_path", "write_lock_exclusive",
        "add_linearises", "add_keeps_others", "leaf_stable",
        "delete_atomic", "linearizable_point_ops", "reachable_wf", "attached_handle_is_leaf",
        "no_deadlock", "waits_for_deeper",
        "query_stability", "query_reports_sound", "query_returns",
        "qmust_at_invoke", "qmay_at_invoke", "qmust_later", "qmay_later",
        "race_free", "race_witness_prefix", "race_free_false_before_fix",
        "mutant_loses_leaf", "mutantTrace_not_real"]] + ["Gnmi.C10Safe." + t for t in [
        # extended LTS (Model/CTreeConcX.lean): panic outcomes, RWMutex writer preference, node reads
        "never_panics", "no_panic_enabled", "never_panics_fails_without_recheck",
        "lock_order", "no_recursive_rlock", "no_recursive_rlock_node",
        "no_deadlock_wp", "deadlock_with_recursive_rlock",
        "persistence", "every_step_decreases", "runs_terminate", "every_op_completes", "op_returns",
        "walk_call", "walk_reports_sound", "walk_complete", "qmay_stutter", "qmay_at_walk",
        "children_on_branch_races"]] + ["Gnmi.CX." + t for t in [
        "reach_base", "step_base", "xinv_reach", "no_panic", "xprogress", "rank_step"]],
    "pre": [steps_C10.hook_probe, steps_C10.lock_facts],
    "components": [
        {"c": "cc", "quick": {"n": 600, "exhaustive": True},
         "thorough": {"n": 6000, "exhaustive": True, "seeds": 4}},
    ],
    "extra": [steps_C10.race_stress],
    "monitor": "model",
    "level": "proof",
    "rule": "cc sequences: sequential set-up ops + forced upgrade-window schedules on real goroutines parked at the "
            "ctree.add.upgrade schedule point (win/win2: competing adds beneath the same node; windh: a delete inside a root window) + seeded free-running stress ops "
            "(G goroutines x rounds, histories checked in Go: fresh-branch adds survive, Wing-Gong linearizability of point "
            "ops incl. final content, query stability, deadline); exhaustive scope = all ordered pairs of adds over "
            "{a,b}^<=3 on three initial trees in both window shapes; a sequence is non-trivial when it has >= 3 ops and an "
            "observation other than ok/err/empty; distinct = hash of op lines. Plus -race stress runs (evidence c10.*).",
    "trusted_base": COMMON_TB + [
        "Go memory model below lock granularity and pre-emption inside critical sections: validated with -race and "
        "history monitors, not proved (the theorems are about the locking protocol LTS)",
        "sync.RWMutex modelled as: write lock grantable iff no other holder, read lock iff no other writer (base LTS); in the "
        "extended LTS additionally: Lock() = announce + acquire, RLock() refused while another thread has announced a Lock() on that "
        "mutex (every announced writer bars readers; Go queues further writers on rw.w, which only blocks less)",
        "extended LTS: the per-node RLock/RUnlock pairs inside internalDelete are part of the one atomic delete transition "
        "(enabled only when no Leaf.Update is announced on a node it reads); Walk/WalkSorted visit children in the model trie's "
        "list order (the order is not part of the locking protocol)",
        "the schedule point ctree.add.upgrade (build tag verif) is where the harness parks goroutines; the other "
        "atomic-section boundaries of the LTS are exercised only by the free-running stress",
        "the Go-side history monitors (linearizability search, query stability) are the harness's own code",
    ],
    "assumptions": [
        "stored values are non-nil",
        "Leaf handles are retained for non-root leaf nodes only (GetLeaf on a leaf, the *Leaf of a visit callback); "
        "Value/IsBranch/Children on retained branch nodes are outside the model",
        "visit callbacks do not call back into the tree",
        "Children() on a retained non-root branch node concurrently with deletes was a genuine defect (finding D27, witness C10Safe.children_on_branch_races "
        "over the pre-fix access sets, confirmed with go test -race): internalDelete changed a non-root node's child map under the root lock only; repaired in "
        "/repo by fix 8e5fd17 (proposed_fixes/ctree_children_vs_delete.diff); the stress now calls Children on retained branch nodes in every round, with deletes",
    ],
    "manifest": {
        "level_text": "Lean 4 theorems over a labelled transition system of ctree's locking protocol (any number of threads, any "
                      "schedule): frozen_ancestors (inductive invariant: nobody changes a node another thread holds), "
                      "add_linearises (the mutating step of Add equals sequential add on the current trie, whatever happened in "
                      "the reader->writer upgrade window; leaf_stable: concurrent adds beneath a new branch all survive), "
                      "delete_atomic, linearizable_point_ops (trie = sequential replay of the linearisation log, per-thread "
                      "program order, returned result = logged result), race_free (every conflicting access pair shares a lock; "
                      "race_witness_prefix: it did not before the repair of D15), no_deadlock, query_stability, mutant_loses_leaf (without the re-check a leaf is lost). "
                      "Extended LTS (Props/C10Safe.lean: explicit panic outcomes, sync.RWMutex writer preference with announced Lock(), "
                      "Walk/WalkSorted, root IsBranch/Value/Children, Value/IsBranch/Children/Leaf.Value on leaf nodes; every run projects "
                      "to a run of the base LTS, reach_base): never_panics (no reachable panic outcome; fails without the re-examination "
                      "after the lock upgrade: never_panics_fails_without_recheck), lock_order + no_recursive_rlock (locks are requested "
                      "parent before child, never a read lock on a mutex already held; the recursive RLock of seeded change c10_seed7 gives "
                      "a reachable stuck configuration: deadlock_with_recursive_rlock), no_deadlock_wp (no stuck configuration under writer "
                      "preference), persistence + every_step_decreases + runs_terminate + every_op_completes (lexicographic variant: every "
                      "started operation returns, no livelock), walk_reports_sound / walk_complete. Tied to the code "
                      "by regenerated lock-pattern facts, deterministic forced-window schedules on the real goroutines, seeded "
                      "free-running stress with history monitors, and -race runs.",
        "level_note": "PARTIAL: proof of the locking protocol LTS; Go's memory model below lock granularity and pre-emption inside "
                      "critical sections are validated with -race/stress, not proved.",
        "technique": "Lean 4 proof (inductive invariant of an LTS + refinement to the sequential trie) + schedule replay + "
                     "history checking + race detector",
        "design_ref": "DESIGN.md §8 C10, Appendix E.2",
    },
}

# ---- scenarios judged by Go-side monitors only (the Lean driver answers the constant verdict) ----
PROP["assumptions"] += [
    "monitor-only scenarios (no model run behind them; the theorems that state the same facts are race_free / "
    "linearizability of the LTS): `cc qvd` (a literal-path Query never visits a leaf whose Delete has returned), `cc avd` "
    "(an Add over an existing leaf is not lost against a conditional delete), `cc cdel`; `cc pwd` (a conditional delete "
    "whose condition panics: the model leaves the tree as it was — the callback is shown the first value before anything "
    "is unlinked)",
]
