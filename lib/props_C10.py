from props import COMMON_TB
import steps_C10

ID = "C10"
PROP = {
    "modules": ["Gnmi.Props.C10"],
    "theorems": ["Gnmi.C10." + t for t in [
        "frozen_ancestors", "locks_form_a_path", "write_lock_exclusive",
        "add_linearises", "add_keeps_others", "leaf_stable",
        "delete_atomic", "linearizable_point_ops", "reachable_wf", "attached_handle_is_leaf",
        "no_deadlock", "waits_for_deeper",
        "query_stability", "query_reports_sound", "query_returns",
        "qmust_at_invoke", "qmay_at_invoke", "qmust_later", "qmay_later",
        "race_free_partial", "race_witness", "race_free_false", "race_free_after_fix",
        "mutant_loses_leaf", "mutantTrace_not_real"]],
    "pre": [steps_C10.hook_probe, steps_C10.lock_facts],
    "components": [
        {"c": "cc", "quick": {"n": 600, "exhaustive": True},
         "thorough": {"n": 6000, "exhaustive": True, "seeds": 4}},
    ],
    "extra": [steps_C10.race_stress],
    "monitor": "model",
    "level": "proof",
    "rule": "cc sequences: sequential set-up ops + forced upgrade-window schedules (win/win2: Add A parked between RUnlock and "
            "Lock of intermediateAdd while a competing add beneath the same node completes) + seeded free-running stress ops "
            "(G goroutines x rounds, histories checked in Go: fresh-branch adds survive, Wing-Gong linearizability of point "
            "ops incl. final content, query stability, deadline); exhaustive scope = all ordered pairs of adds over "
            "{a,b}^<=3 on three initial trees in both window shapes; a sequence is non-trivial when it has >= 3 ops and an "
            "observation other than ok/err/empty; distinct = hash of op lines. Plus -race stress runs (evidence c10.*).",
    "trusted_base": COMMON_TB + [
        "Go memory model below lock granularity and pre-emption inside critical sections: validated with -race and "
        "history monitors, not proved (the theorems are about the locking protocol LTS)",
        "sync.RWMutex modelled as: write lock grantable iff no other holder, read lock iff no other writer",
        "forced window without the hook: the competing writer is the real slowAdd run by the harness on the node it "
        "holds read-locked while the adding goroutine is parked in Lock() (seam go/pkg_ctree/verif_c10.go)",
        "the Go-side history monitors (linearizability search, query stability) are the harness's own code",
    ],
    "assumptions": [
        "stored values are non-nil",
        "Leaf handles are retained for non-root leaf nodes only (GetLeaf on a leaf, the *Leaf of a visit callback); "
        "Value/IsBranch/Children on retained branch nodes are outside the model",
        "visit callbacks do not call back into the tree",
    ],
    "manifest": {
        "level_text": "Lean 4 theorems over a labelled transition system of ctree's locking protocol (any number of threads, any "
                      "schedule): frozen_ancestors (inductive invariant: nobody changes a node another thread holds), "
                      "add_linearises (the mutating step of Add equals sequential add on the current trie, whatever happened in "
                      "the reader->writer upgrade window; leaf_stable: concurrent adds beneath a new branch all survive), "
                      "delete_atomic, linearizable_point_ops (trie = sequential replay of the linearisation log, per-thread "
                      "program order, returned result = logged result), race_free_partial + race_witness (the race clause is "
                      "false of the code: defect D15), mutant_loses_leaf (without the re-check a leaf is lost). Tied to the code "
                      "by regenerated lock-pattern facts, deterministic forced-window schedules on the real goroutines, seeded "
                      "free-running stress with history monitors, and -race runs.",
        "level_note": "PARTIAL: proof of the locking protocol LTS; Go's memory model below lock granularity and pre-emption inside "
                      "critical sections are validated with -race/stress, not proved. The race clause holds only up to the known "
                      "finding D15 (Leaf.Update vs internalDelete).",
        "technique": "Lean 4 proof (inductive invariant of an LTS + refinement to the sequential trie) + schedule replay + "
                     "history checking + race detector",
        "design_ref": "DESIGN.md §8 C10, Appendix E.2",
    },
}
