from subprops import SUB_TB, SUB_ASSUMPTIONS, su_component

import facts

ID = "C07"
PROP = {
    "modules": ["Gnmi.Props.C07"],
    "theorems": ["Gnmi.C07." + t for t in [
        "never_sends_denied", "step_ok", "pump_ok", "subscribe_ok", "feed_ok",
        "unauthenticated_if_no_acl", "single_target_denied_early"]],
    "components": [su_component(""), su_component("c08", 150, 1500)],
    "monitor": "spec", "level": "proof",
    "trusted_base": SUB_TB, "assumptions": SUB_ASSUMPTIONS,
    "manifest": {
        "level_text": "Lean 4 theorems over the code-shaped sequential model of subscribe.Server: never_sends_denied (for every sequence of "
                      "subscriptions of any mode and ACL, arbitrary cache contents, arbitrary feed events for allowed and denied targets, polls, "
                      "stalls and drains, every response sent or being sent concerns an authorised target: induction over the operation list with "
                      "the per-subscriber invariant SubOK), single_target_denied_early (permission error before anything is registered, walked or "
                      "sent), unauthenticated_if_no_acl. Tied to subscribe/subscribe.go by the su correspondence with random user x target ACL tables, "
                      "all modes, '*' and single-target requests, updates, deletes and Remove on allowed and denied targets.",
        "level_note": "Trusted: Lean kernel; sequential model validated by the su correspondence; Go runtime. The all-interleavings form is the "
                      "LTS theorem (Props/C07L) when listed in the evidence obligations; 'everything for authorised targets is still delivered' is "
                      "checked by the correspondence (responses compared with the model) and the view monitor.",
        "technique": "Lean 4 proof (invariant by induction over operation sequences of a code-shaped model) + model/implementation correspondence on the real Subscribe server",
    },
}
PROP.setdefault("pre", []).append(facts.make_step(['subscribe.handler.checks', 'subscribe.send.aclBeforeSend']))
PROP["modules"].append("Gnmi.Props.C07L")
PROP["theorems"] += ["Gnmi.C07L." + t for t in ["unauthenticated_if_no_acl", "single_target_denied_early", "never_sends_denied", "never_sends_unwanted",
    "allowed_unaffected", "allowed_unaffected_proj", "allowed_unaffected_partial", "allowed_still_delivered_stream"]]

# bLTSFIX: allowed_still_delivered_stream is C04.converges (now modulo the logged quiet writes of event-driven suppression);
# the exact form under an empty quiet log
PROP["theorems"] += ["Gnmi.C07L.allowed_still_delivered_stream_exact"]
PROP["manifest"]["level_text"] += (
    " (LTS: allowed_still_delivered_stream is stated, like C04.converges, up to the logged quiet writes of event-driven suppression; "
    "allowed_still_delivered_stream_exact is the equality under an empty quiet log. An unknown subscription mode is rejected at the mode "
    "switch, after the ACL check: single_target_denied_early is unaffected.)")
