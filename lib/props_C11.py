from props import COMMON_TB
import steps_C11

ID = "C11"
PROP = {
    "modules": ["Gnmi.Props.C11", "Gnmi.Props.C11Prog"],
    "theorems": ["Gnmi.C11." + t for t in [
        # sequential, all histories
        "reachable_inv", "pending_nodup", "map_domain", "step_refines", "refines_spec", "next_complete",
        "insert_fresh_iff", "fifo_first_insertion", "item_conservation", "dup_exact", "conservation",
        "closed_refuses", "next_returns_head", "next_error_only_when_drained", "counter_bound", "len_spec",
        # LTS, all interleavings
        "order_conservation_inv", "insert_accounting", "no_lost_wakeup", "wakeup_progress",
        "consumer_blocked_iff", "drain_before_closed", "closed_return_drained", "closed_return_only_by_len",
        "cancel_wakes", "close_wakes", "insert_after_close_refused", "closed_stable",
        "delivery_exact", "insert_wakes", "seq_insert_is_schedule", "seq_next_is_schedule"]] + [
        "Gnmi.CoLTS.inv_init", "Gnmi.CoLTS.inv_step", "Gnmi.CoLTS.inv_reach",
        "Gnmi.CoLTS.fire_sound", "Gnmi.CoLTS.fire_complete"] + ["Gnmi.C11Prog." + t for t in [
        # progress of the consumer in run form (Props/C11Prog.lean)
        "run_iff_fireAll", "ready_arm_persists", "ready_arm_persists_run", "select_step_progress",
        "no_lost_wakeup_run", "wake_or_post_run", "consumer_steps_bounded", "wakeup_outcome",
        "first_consumer_step_progress", "wakeup_leads_to", "ready_leads_to", "closed_leads_to_return",
        "select_not_always_enabled", "stale_rounds_unbounded", "fair_consumer_moves", "fair_call_returns",
        "fair_wakeup"]],
    "components": [
        {"c": "co", "quick": {"n": 10000, "exhaustive": True}, "thorough": {"n": 40000, "exhaustive": True, "seeds": 4}},
        # the queue's duplicate counts as the Subscribe server reports them, per subscriber (C11 anchors subscribe.go too:
        # seeded change c11_seed10 let one subscriber's count leak into another's response through the shared cached update)
        __import__("subprops").su_component("c08", 100, 1200),
    ],
    "extra": [steps_C11.race_stage, steps_C11.summarise],
    "monitor": "spec",
    "level": "proof",
    "rule": "op sequences from the seeded generator plus the exhaustive scope (all allowed sequences of length 6 (quick) / 7 "
            "(thorough) over ins 0, ins 1, pcheck 0, pinsert 0, ppost, next 0, next 1, close, nbegin, nresume, nresumec, nrelease, cancel); about one sequence in 15 is a "
            "free-running concurrent run (`conc seed producers n mode`) whose property monitors are evaluated on the Go trace; a "
            "sequence is non-trivial when it has >= 3 ops and at least one observation other than ok/err/empty; distinct = by hash "
            "of its op lines",
    "trusted_base": COMMON_TB + [
        "Go runtime below the atomic sections of coalesce.go (sync.Mutex, channel send/receive/close, select, context): "
        "modelled as atomic LTS transitions; validated by the co harness (replay of LTS schedules: Next parked at the select via ctx.Done(), "
        "Insert split into closed check / real locked section / token post through in-package access; free-running "
        "concurrent runs with trace monitors, -race in the thorough tier), not proved",
        "the goroutine-snapshot deadlock test of the harness (runtime.Stack) used instead of timeouts to observe `hang`",
    ],
    "assumptions": [
        "items are comparable Go values with reflexive equality (an unhashable key panics inside the map access; NaN keys are never found again)",
        "fewer than 2^32 coalesced inserts of one pending item (uint32 counter modelled as Nat; Gnmi.C11.counter_bound)",
        "one consumer goroutine (the way subscribe.go uses the queue); any number of producers and closers",
    ],
    "manifest": {
        "level_text": "Lean 4 theorems. Sequential: for every history of Insert/Next/Len/Close/IsClosed and every resolution of "
                      "Go's random select the model refines the abstract coalescing queue (refines_spec), no item is pending "
                      "twice, delivery order is first-insertion order, delivered duplicate counts are exact, insertions are "
                      "conserved, a closed queue refuses inserts and reports closed only when drained. Concurrent: an LTS whose "
                      "transitions are the atomic sections of coalesce.go (any number of producers/closers, one consumer, "
                      "cancellation at any time) with an inductive invariant giving order/conservation, no lost wake-up, "
                      "drain-before-closed and wake-up by cancel/close for every interleaving. Progress in run form "
                      "(Props/C11Prog.lean): a ready select case stays ready and the consumer stays at the select under every step "
                      "of the other threads, its next step leaves the select, one Next call takes at most stepsBound consumer "
                      "steps (3 when an item is pending) whatever the others do, and on every infinite run weakly fair for the "
                      "consumer and the producers' token post a pending item is delivered (fair_wakeup) and a woken call returns "
                      "(fair_call_returns). The models are tied to "
                      "coalesce/coalesce.go by a differential correspondence (exhaustive small scope + seeded random sequences, "
                      "including replay of LTS schedules on the real code: Next in two phases, parking the real consumer "
                      "goroutine exactly between q.next() and the select, and Insert in its three atomic sections) and by "
                      "free-running concurrent runs whose monitors are checked on the Go trace.",
        "level_note": "Sequential part: full proof. Concurrent part: proof of the protocol LTS; partial in that Go scheduling "
                      "below the atomic sections (mutex, channels, select, context) is validated by the harness and the race "
                      "detector, not proved. Trusted: Lean kernel (axioms propext, Quot.sound only), the hand-written models "
                      "Model/Coalesce.lean and Model/CoalesceLTS.lean, Go runtime.",
        "technique": "Lean 4 proof (refinement by induction over histories; inductive invariant of an LTS) + model/implementation correspondence + monitored concurrent runs",
        "design_ref": "DESIGN.md §8 C11",
    },
}
