from props import COMMON_TB
import steps_C18

ID = "C18"
PROP = {
    "modules": ["Gnmi.Props.C18", "Gnmi.Props.C18Prog"],
    "theorems": ["Gnmi.C18." + t for t in [
        "exactly_one_cancels", "close_dooms", "variant_decreases", "close_terminates",
        "subscribe_terminates", "close_progress", "doomed_progress", "terminates", "both_return",
        "maximal_run_returns", "plain_close_terminates", "at_most_pending_sleep", "keeps_retrying",
        "returns_only_if_cancelled", "loop_continues", "loop_deterministic", "connected_first",
        "order_preserved", "order_exact", "at_most_one_after_close", "no_recv_after_that",
        "silent_after_close", "close_after_init_waits", "driver_runs_are_reachable"]] + [
        "Gnmi.C18Prog." + t for t in [
        "not_closed_not_terminal", "live_not_terminal", "blocked_iff_no_S_step",
        "responsive_not_terminal", "naive_not_terminal_false", "loop_step_persists",
        "S_never_blocked_by_others", "loop_continues_run_from", "loop_run_short", "loop_never_stops",
        "loop_continues_run", "live_only_S", "loop_continues_run_reach",
        "resubscribes_after_every_end", "run_without_close_resubscribes", "live_run_not_maximal",
        "started_vs_ended", "parentCancel_stops"]],
    "components": [
        {"c": "rc", "quick": {"n": 2500, "exhaustive": True},
         "thorough": {"n": 5000, "exhaustive": True, "seeds": 3}},
    ],
    "pre": [steps_C18.facts_step],
    "extra": [steps_C18.race_step, steps_C18.flakes_step],
    # the model *is* the statement of the deterministic part of the property; the racy part is
    # judged by the harness monitors, whose verdict (mon=...) is part of the observation and
    # must be `ok` to agree with the model
    "monitor": "model",
    "level": "proof",
    "trusted_base": COMMON_TB + [
        "Go runtime below the atomic sections of Model/ClientLTS.lean (sync.Mutex, channels, context, time.Sleep); "
        "cenkalti/backoff (only: returns a positive delay); getFirst with a single transport type behaves as a call",
        "the gNMI transport's Subscribe/Recv/defaultRecv run unchanged on a scripted gpb.GNMI_SubscribeClient "
        "(go/pkg_client__gnmi/verif_rc.go builds the Client without a grpc.ClientConn; Close is the harness's)",
    ],
    "assumptions": [
        "Impl hypothesis: InitImpl / Impl.Subscribe / Impl.Recv return once the context is cancelled or Close was "
        "called on the instance (rules connAbort, recvWait, recvAbort; enforced on the scripted transport)",
        "one Subscribe call and one Close call per client; one transport type; valid query of type Stream or Poll",
        "proof of the protocol LTS; the wall-clock bound (both calls return within max(750ms, 1.5*RetryMaxDelay)+eps) "
        "is observed by the harness deadline monitor, not proved",
    ],
    "rule": "one op line = one scenario (wrapper mode, query type, transport script, injection point of Close / "
            "context cancellation); exhaustive = every injection point of a fixed set of scripts; random = seeded "
            "scripts and injection points; a scenario is non-trivial when its trace contains at least one handler "
            "or callback event; distinct = by hash of the op line",
    "manifest": {
        "level_text": "Lean 4 theorems about a labelled transition system of ReconnectClient/BaseClient/transport "
                      "(goroutines S and K, timer, context cancellation; any script, any interleaving): hand-shake "
                      "(exactly_one_cancels), termination by a variant that every transition except the start of a "
                      "backoff sleep decreases plus deadlock freedom (close_terminates, subscribe_terminates, "
                      "terminates, at_most_pending_sleep), callback discipline and retry progress (keeps_retrying, "
                      "loop_continues), Connected first/once and order per stream (connected_first, "
                      "order_preserved), at most one message after Close (at_most_one_after_close, "
                      "silent_after_close). Tied to client/*.go by the rc correspondence: the real "
                      "client.Reconnect/BaseClient/CacheClient and the real gNMI transport Recv path on a scripted "
                      "stream, Close/cancel injected at gated points, traces + return classes compared with the "
                      "model's deterministic schedule (proved to be runs of the LTS), monitors for the racy facts. "
                      "Universal retry progress (Props/C18Prog.lean): while Close has not been called goroutine S is "
                      "never deadlocked except waiting for the transport script inside a session "
                      "(not_closed_not_terminal, exact by blocked_iff_no_S_step); steps of other threads never disable "
                      "S's step (loop_step_persists); from every configuration just after an ended session, EVERY run "
                      "without Close / caller-context cancellation containing 4 S-steps re-subscribes "
                      "(loop_continues_run), and in every such run each ended session is followed by the next "
                      "Subscribe unless the run stops with a loop step of S still enabled "
                      "(resubscribes_after_every_end, run_without_close_resubscribes, started_vs_ended).",
        "level_note": "Proof of the protocol LTS; wall-clock bound observed (deadline monitor), not proved. Trusted: "
                      "Lean kernel, the hand-written LTS as validated by the correspondence, Go runtime semantics "
                      "below the atomic sections, the Impl hypothesis.",
        "technique": "Lean 4 proof (inductive invariants + ranking function over an LTS) + model/implementation "
                     "correspondence with scripted transport and injected Close",
        "design_ref": "DESIGN.md §8 C18, Appendix E.5",
    },
}
