from props import COMMON_TB
import steps_C18

ID = "C18"
PROP = {
    "modules": ["Gnmi.Props.C18", "Gnmi.Props.C18Prog"],
    "theorems": ["Gnmi.C18." + t for t in [
        "exactly_one_cancels", "close_dooms", "variant_decreases", "close_terminates",
        "subscribe_terminates", "close_progress", "doomed_progress", "terminates", "both_return",
        "maximal_run_returns", "plain_close_terminates", "at_most_pending_sleep", "keeps_retrying",
        "returns_only_if_cancelled", "loop_continues", "loop_deterministic", "connected_first",
        "order_preserved", "order_exact", "at_most_one_after_close", "no_recv_after_that",
        "silent_after_close", "close_after_init_waits", "driver_runs_are_reachable"]] + [
        "Gnmi.C18Prog." + t for t in [
        "not_closed_not_terminal", "live_not_terminal", "blocked_iff_no_S_step",
        "responsive_not_terminal", "naive_not_terminal_false", "loop_step_persists",
        "S_never_blocked_by_others", "loop_continues_run_from", "loop_run_short", "loop_never_stops",
        "loop_continues_run", "live_only_S", "loop_continues_run_reach",
        "resubscribes_after_every_end", "run_without_close_resubscribes", "live_run_not_maximal",
        "started_vs_ended", "parentCancel_stops"]],
    "components": [
        {"c": "rc", "quick": {"n": 2500, "exhaustive": True},
         "thorough": {"n": 5000, "exhaustive": True, "seeds": 3}},
    ],
    "pre": [steps_C18.facts_step],
    "extra": [steps_C18.race_step, steps_C18.flakes_step],
    # the model *is* the statement of the deterministic part of the property; the racy part is
    # judged by the harness monitors, whose verdict (mon=...) is part of the observation and
    # must be `ok` to agree with the model
    "monitor": "model",
    "level": "proof",
    "trusted_base": COMMON_TB + [
        "Go runtime below the atomic sections of Model/ClientLTS.lean (sync.Mutex, channels, context, time.Sleep); "
        "cenkalti/backoff (only: returns a positive delay); getFirst with a single transport type behaves as a call",
        "the gNMI transport's Subscribe/Recv/defaultRecv run unchanged on a scripted gpb.GNMI_SubscribeClient "
        "(go/pkg_client__gnmi/verif_rc.go builds the Client without a grpc.ClientConn; Close is the harness's)",
    ],
    "assumptions": [
        "Impl hypothesis: InitImpl / Impl.Subscribe / Impl.Recv return once the context is cancelled or Close was "
        "called on the instance (rules connAbort, recvWait, recvAbort; enforced on the scripted transport)",
        "one Subscribe call and one Close call per client; one transport type; valid query of type Stream or Poll",
        "proof of the protocol LTS; the wall-clock bound (both calls return within max(750ms, 1.5*RetryMaxDelay)+eps) "
        "is observed by the harness deadline monitor, not proved",
    ],
    "rule": "one op line = one scenario (wrapper mode, query type, transport script, injection point of Close / "
            "context cancellation); exhaustive = every injection point of a fixed set of scripts; random = seeded "
            "scripts and injection points; a scenario is non-trivial when its trace contains at least one handler "
            "or callback event; distinct = by hash of the op line",
    "manifest": {
        "level_text": "Lean 4 theorems about a labelled transition system of ReconnectClient/BaseClient/transport "
                      "(goroutines S and K, timer, context cancellation; any script, any interleaving): hand-shake "
                      "(exactly_one_cancels), termination by a variant that every transition except the start of a "
                      "backoff sleep decreases plus deadlock freedom (close_terminates, subscribe_terminates, "
                      "terminates, at_most_pending_sleep), callback discipline and retry progress (keeps_retrying, "
                      "loop_continues), Connected first/once and order per stream (connected_first, "
                      "order_preserved), at most one message after Close (at_most_one_after_close, "
                      "silent_after_close). Tied to client/*.go by the rc correspondence: the real "
                      "client.Reconnect/BaseClient/CacheClient and the real gNMI transport Recv path on a scripted "
                      "stream, Close/cancel injected at gated points, traces + return classes compared with the "
                      "model's deterministic schedule (proved to be runs of the LTS), monitors for the racy facts. "
                      "Universal retry progress (Props/C18Prog.lean): while Close has not been called goroutine S is "
                      "never deadlocked except waiting for the transport script inside a session "
                      "(not_closed_not_terminal, exact by blocked_iff_no_S_step); steps of other threads never disable "
                      "S's step (loop_step_persists); from every configuration just after an ended session, EVERY run "
                      "without Close / caller-context cancellation containing 4 S-steps re-subscribes "
                      "(loop_continues_run), and in every such run each ended session is followed by the next "
                      "Subscribe unless the run stops with a loop step of S still enabled "
                      "(resubscribes_after_every_end, run_without_close_resubscribes, started_vs_ended).",
        "level_note": "Proof of the protocol LTS; wall-clock bound observed (deadline monitor), not proved. Trusted: "
                      "Lean kernel, the hand-written LTS as validated by the correspondence, Go runtime semantics "
                      "below the atomic sections, the Impl hypothesis.",
        "technique": "Lean 4 proof (inductive invariants + ranking function over an LTS) + model/implementation "
                     "correspondence with scripted transport and injected Close",
        "design_ref": "DESIGN.md §8 C18, Appendix E.5",
    },
}
# --- bREG: getFirst (client/register.go) for any number of client types, ReconnectClient.Close before
# Subscribe, CacheClient's handler wrapping (client/cache.go)
PROP["modules"] += ["Gnmi.Props.C18First", "Gnmi.Props.C18CloseFirst", "Gnmi.Props.C18Cache"]
PROP["theorems"] += ["Gnmi.C18First." + t for t in [
    "getFirst_returns", "getFirst_not_stuck", "getFirst_progress", "every_run_bounded",
    "no_goroutine_blocked_forever", "after_return_goroutines_move", "terminal_all_done",
    "maximal_run_all_done", "result_stable", "first_impl_wins", "all_errors_reported",
    "all_fail_reports_all", "losers_closed_safe", "losers_closed", "single_type_is_call", "installs_iff",
    "closed_after_done", "errC_has_room", "dropped_error_deadlocks", "mutant_getFirst_returns_false"]] + [
    "Gnmi.ClientFirst." + t for t in ["variant_step", "inv_reach", "runGF_reach"]] + [
    "Gnmi.C18CloseFirst." + t for t in [
    "closeCs_before_subscribe", "early_close_never_waits", "early_close_single_attempt",
    "early_close_loop_trace", "reconnect_returns_canceled", "early_close_both_return",
    "close_then_subscribe_prompt", "early_close_silent_if_connect_fails", "early_close_two_messages"]] + [
    "Gnmi.C18Cache." + t for t in [
    "forwards_in_order", "cache_is_identity_on_callbacks", "no_handler", "synced_once", "poll_closes"]]
PROP["assumptions"] += [
    "getFirst (client/register.go) is proved for any number of client types on its own LTS (Model/ClientFirst.lean); "
    "the client LTS keeps treating the connect step as one call, which is what getFirst is for one type "
    "(C18First.single_type_is_call) and, for several, what first_impl_wins / getFirst_returns say of its result",
    "hypothesis on fn (InitImpl / Impl.Subscribe): a blocked call returns once ctx is cancelled (rule fnAbort), "
    "stated like the Impl hypothesis above; enforced on the scripted InitImpls of `rc new gf`",
]
PROP["manifest"]["level_text"] += (
    " getFirst (Props/C18First.lean, LTS Model/ClientFirst.lean: caller, one goroutine per client type, "
    "buffered errC / unbuffered implC / done, cancellation at any point; any number of types, any outcome script, "
    "any interleaving): from every reachable configuration a run of at most 4*len(types)+5 transitions ends with "
    "getFirst returned, and no unreturned configuration is stuck unless some fn is blocked with a live ctx "
    "(getFirst_returns); every transition decreases a variant and every maximal run ends with the caller and "
    "every goroutine returned (every_run_bounded, maximal_run_all_done, no_goroutine_blocked_forever); an Impl "
    "is returned iff some fn succeeded, and it is one of the successes (first_impl_wins); every other "
    "successful Impl is closed exactly once, the returned one never (losers_closed); an error result carries "
    "every type's failure exactly once (all_errors_reported); with one type getFirst is a call "
    "(single_type_is_call). The variant of seeded change c18_seed7 (error dropped once ctx is done) is refuted "
    "by a reachable stuck configuration (dropped_error_deadlocks). Tied to client/register.go by "
    "`rc new gf`: client.NewImpl over 0..4 scripted client types, gates opened in scripted order, cancellation "
    "in between, compared with the model's schedule (runGF_reach) + monitors (winner, leak, dblclose, errs, "
    "deadline). ReconnectClient.Close BEFORE Subscribe (Props/C18CloseFirst.lean, same client LTS): Close never "
    "waits, Subscribe makes exactly one attempt with a cancelled context and returns ctx.Err(), both return "
    "(early_close_both_return, early_close_single_attempt); no handler call if the transport honours the "
    "cancelled context when connecting (early_close_silent_if_connect_fails), but 'at most one message after "
    "Close' does not hold for an early Close with a transport that connects and hands out buffered messages "
    "regardless (early_close_two_messages). CacheClient's handler wrapping (Props/C18Cache.lean) forwards every "
    "transport notification to the caller's handler exactly once, in order, with the caller's result "
    "(cache_is_identity_on_callbacks); Error values are not forwarded."
)

# --- bREG-2: Close while Poll calls are in flight (ReconnectClient.Poll / BaseClient.Poll; seeded change c18_seed8)
PROP["modules"] += ["Gnmi.Props.C18Poll"]
PROP["theorems"] += ["Gnmi.C18Poll." + t for t in [
    "base_step_lifts", "close_returns_with_poll_in_flight", "poll_returns_after_close",
    "both_return_with_polls", "doomed_progress_with_polls", "poll_holding_mu_deadlocks",
    "mutant_close_blocked"]] + [
    "Gnmi.ClientPoll." + t for t in ["preach_base", "poll_step_frame", "poll_progress", "noLock_reach",
                                     "runPScenario_reach"]]
PROP["assumptions"] += [
    "Poll callers (Model/ClientPoll.lean wraps the client LTS; its own transitions are unchanged, so every C18 "
    "theorem applies to the projection): Poll is called on a stream on which Connected was already delivered; the "
    "effect of a Poll caller's impl.Close() after a failed Recv on a concurrent Recv of goroutine S on the same "
    "instance (two receivers on one gRPC stream) is recorded but not fed back; hypothesis on the Impl as above "
    "(the Send of the poll request and Recv return once the context is cancelled or the instance is closed)",
]
PROP["manifest"]["level_text"] += (
    " Poll callers (Props/C18Poll.lean; LTS Model/ClientPoll.lean = the client LTS plus any number of Poll "
    "caller threads following ReconnectClient.Poll -> BaseClient.Poll -> impl.Poll, run): Close never waits on a "
    "Poll caller (close_returns_with_poll_in_flight: its transitions are enabled exactly as without Poll callers, "
    "or it waits for a Subscribe whose context is cancelled); once the Subscribe context is cancelled every "
    "in-flight Poll returns by transitions of its own within a rank (poll_returns_after_close); from every "
    "doomed configuration a run without new sleep ends with Subscribe, Close and every Poll returned, and nothing "
    "is stuck before (both_return_with_polls, doomed_progress_with_polls). The variant of seeded change c18_seed8 "
    "(Poll holding p.mu across the blocking call) is refuted by a reachable configuration in which only the "
    "environment's cancellation is enabled (poll_holding_mu_deadlocks). Tied to the code by `rc new poll`: "
    "Reconnect(BaseClient|CacheClient) with a Poll query on the real gNMI transport over a scripted stream, 0..2 "
    "Poll calls (answered / never answered / buffered / Send fails, overlapping), Close or cancel injected inside "
    "the disconnect callback at every point or while the re-dial blocks; traces, return classes of Subscribe, "
    "Close and every Poll, and monitors compared with the model's schedule (runPScenario_reach)."
)

# ---- a Poll in flight across a SECOND Subscribe of the same BaseClient, then Close (go/vcorr/rc_pxr.go) ----
# (the assumption that stood here -- "judged by the harness monitor on the real BaseClient only, not proved" -- is
# obsolete: modelled in Model/ClientResub.lean and proved in Props/C18Resub.lean, see below)

# --- bPXR: one BaseClient, several transports: Subscribe again while a Poll is in flight, then Close
PROP["modules"] += ["Gnmi.Props.C18Resub"]
PROP["theorems"] += ["Gnmi.C18Resub." + t for t in [
    "cinv_reach", "after_close_at_most_one", "after_close_crit_at_most_one", "closed_stays_set",
    "run_terminates", "poll_returns", "replaced_transport_closed", "pxrFinal_reach",
    "pxr_scenario_reachable", "mutant_installed_only_delivers_all", "repository_same_schedules",
    "resubscribe_after_close_reopens"]] + [
    "Gnmi.ClientResub." + t for t in ["stepFn_sound", "runFn_sound"]]
PROP["assumptions"] += [
    "BaseClient with several transports (Model/ClientResub.lean, client/client.go:112-222): the mu regions of "
    "Subscribe (140-147), Close (169-175), Impl (180-185) and run's RLock (208-210) are single transitions (every "
    "access to closed/clientImpl is inside one; a concurrent Recv does not read them, so it commutes out of a "
    "region); Close returns in a second transition. Hypothesis on the Impl: a message received before Impl.Close is "
    "still handed out by Recv afterwards, Recv on a closed drained transport fails, nothing is received on a closed "
    "transport, Recv on an open empty transport blocks (a gRPC stream; pxrImpl of go/vcorr/rc_pxr.go); the handler "
    "returns nil; Poll-type query (the sync marker ends run with nil)",
    "remark (code behaviour, not a defect): BaseClient.Subscribe sets c.closed = false (client.go:146), so a "
    "Subscribe AFTER Close re-opens delivery for a Poll caller still reading a replaced transport "
    "(C18Resub.resubscribe_after_close_reopens; `rc new pxr <k> after` observes `reopened` on the real BaseClient); "
    "after_close_at_most_one is stated for runs without a Subscribe after Close's critical section",
]
PROP["manifest"]["level_text"] += (
    " A Poll in flight across a second Subscribe of the same BaseClient, then Close (Props/C18Resub.lean; LTS "
    "Model/ClientResub.lean: one BaseClient with closed / clientImpl, any number of transports with any buffered "
    "content and arrivals, any number of Subscribe, Poll and Close callers, every interleaving): as long as no "
    "Subscribe installs an Impl after Close's critical section, every caller's run loop - on the installed or a "
    "replaced transport - enters the handler at most once after Close returned (after_close_at_most_one); every "
    "transport somebody still reads is the installed one or closed, so with closed set every run loop returns by "
    "its own transitions within 3*buffered+3 (run_terminates, poll_returns). The variant of seeded change "
    "c18_seed10 (run honouring closed only for the installed Impl) is refuted by decided runs delivering all k = 3 "
    "updates after Close returned (mutant_installed_only_delivers_all); a Subscribe after Close re-opens delivery "
    "(resubscribe_after_close_reopens: code behaviour, recorded as a remark). Tied to client/client.go by `rc new "
    "pxr <k> [mid|before|none|after]`: the real BaseClient over scripted transports, the first update's handler "
    "held across Subscribe #2 / Close; verdict and the counts after=<n> total=<m> compared with the model's "
    "schedule (pxrFinal_reach)."
)

PROP["assumptions"] += [
    "`rc new rs2` (a second Subscribe on one ReconnectClient after a first one ended by its caller's context, then Close) "
    "is outside Model/ClientLTS.lean (one Subscribe and one Close per client): judged by the harness monitor on the real "
    "ReconnectClient over BaseClient only, not proved",
]
