from props import COMMON_TB
import steps_C17

ID = "C17"
PROP = {
    "modules": ["Gnmi.Props.C17"],
    "theorems": ["Gnmi.C17." + t for t in [
        "load_gate", "load_nil", "load_classes", "load_handlers", "validate_iff", "checkRevision_iff",
        "good_new", "new_fails_iff", "good_load",
        "handleDiffs_eq_specDiff", "handleDiffs_all", "nil_handlers_filter", "diff_calls_iff",
        "diff_exact", "unchanged_silent", "changed_announced", "order_irrelevant",
        "history_converges", "history_converges_from_empty", "history_converges_run",
        "revision_monotone", "load_eq_specLoad"]],
    "pre": [steps_C17.facts],
    "components": [
        {"c": "tg", "quick": {"n": 4000, "exhaustive": True},
         "thorough": {"n": 30000, "exhaustive": True, "seeds": 4}},
    ],
    "monitor": "spec",
    "level": "proof",
    "rule": "op sequences (new / load / cur / validate on one target.Config with recording handlers) from the seeded "
            "generator plus the exhaustive scope of all ordered pairs of a small universe of configurations; the "
            "implementation's observation carries a model-independent monitor verdict (replay of all handler calls "
            "vs the effective view of Current(), gate, call discipline, argument not modified); a sequence is "
            "non-trivial when it has >= 3 ops and an observation other than ok/err/empty; distinct = hash of op lines",
    "trusted_base": COMMON_TB + [
        "proto.Equal = structural equality and proto.Clone = identity on the message universe the harness builds "
        "(no unknown fields, no NaN; nil-vs-empty slices/maps and shared-vs-fresh objects are varied by the harness)",
        "payload digests: Target and SubscribeRequest contents are abstracted to injective digests "
        "(deterministic wire form looked up in the harness registry)",
        "target.Config modelled sequentially (Load holds c.mu for its whole critical section)",
    ],
    "assumptions": [
        "a Go map has pairwise distinct keys (Cfg.WF; hypothesis of the theorems, cannot be violated by a caller)",
        "values of Configuration.request are non-nil messages (what every protobuf decoder produces); the model itself "
        "also covers nil values, the harness does not generate them because proto.Clone in Current() reads nil as empty",
        "a configuration handed to Load/NewConfigWithBase is not modified by the caller afterwards (Load keeps the pointer)",
        "history theorems (diff_exact, history_converges) are about a Handler with all three callbacks set; "
        "nil callbacks drop exactly their own calls (nil_handlers_filter)",
    ],
    "manifest": {
        "level_text": "Lean 4 theorems over an executable model of target/target.go, for all configurations and all histories "
                      "of loads: load_gate (accepted iff valid and strictly newer; otherwise no call, state unchanged), "
                      "handleDiffs_eq_specDiff / diff_calls_iff (the calls are exactly the per-name difference of the "
                      "effective views), diff_exact (replaying them in any order turns effective(old) into "
                      "effective(new); distinct names), history_converges (induction over any history from empty or a "
                      "validated base), unchanged_silent, order_irrelevant (map iteration order). Tied to the code by the "
                      "tg correspondence (exhaustive pairs of a small universe + seeded random histories, with a "
                      "model-independent replay monitor on the Go side) and regenerated source facts.",
        "level_note": "Trusted: Lean kernel (axioms propext, Quot.sound, Classical.choice only), the hand-written model "
                      "Model/TargetCfg.lean as validated by the correspondence harness and the facts, proto.Equal/Clone, "
                      "Go runtime. Assumes non-nil request values and callers that do not modify a loaded configuration.",
        "technique": "Lean 4 proof (refinement of handleDiffs to a declarative diff; induction over load histories) + "
                     "model/implementation correspondence + regenerated source facts",
        "design_ref": "DESIGN.md §8 C17",
    },
}
