"""C06: extra step of the check (see lib/props_C06.py)."""
import glob, os, subprocess
import vcheck


def columns_agree(ctx, cfg):
    """(1) The model driver's two columns (trie model / registration-set spec) are proved equal for
    every history (Props/C06: *_refines_spec); re-check it on everything evaluated in this run, so
    that a driver whose spec column drifted from the theorems cannot go unnoticed.
    (2) Property monitor on the corpus: implementation vs the spec column, op by op."""
    vcorr, out = vcheck.go_build(ctx, "vcorr")
    if vcorr is None:
        return
    files = sorted(glob.glob(os.path.join(ctx.scratch, "*.ops")))
    files += sorted(glob.glob(os.path.join(vcheck.VERIF, "corpus", ctx.prop, "*.ops")))
    n = bad = 0
    for f in files:
        with open(f) as fh:
            lines = [l for l in fh.read().split("\n") if l and not l.startswith("#")]
        if not lines:
            continue
        r = subprocess.run([vcheck.model_bin()], input="\n".join(lines) + "\n", capture_output=True, text=True)
        mod = r.stdout.split("\n")
        impl = None
        if "/corpus/" in f:
            impl, _ = vcheck.run_lines([vcorr, "run"], lines, env=vcheck.GOENV)
        for i, l in enumerate(lines):
            cols = (mod[i] if i < len(mod) else "<no-output>\t<no-output>").split("\t")
            n += 1
            if cols[0] != cols[-1]:
                bad += 1
                if bad <= 3:
                    ctx.problems.append(("tie", "model and spec columns of the driver disagree on `%s`: %s vs %s "
                                         "(Props/C06 *_refines_spec no longer describes the driver)" % (l, cols[0], cols[-1]), None))
            if impl is not None and (impl[i] if i < len(impl) else "<no-output>") != cols[-1]:
                k = max(0, i - 12)
                payload = {"component": "corpus/" + os.path.basename(f), "ops": lines[:i + 1],
                           "impl": impl[:i + 1], "model": [x.split("\t")[0] for x in mod[:i + 1]],
                           "spec": [x.split("\t")[-1] for x in mod[:i + 1]], "first_divergence": i,
                           "monitor_failed": True}
                if not any(p[0] == "divergence" and p[2] and p[2].get("component") == payload["component"] for p in ctx.problems):
                    ctx.problems.append(("divergence", "corpus case %s: implementation violates the property monitor"
                                         % os.path.basename(f), payload))
                break
    ctx.obligations.append(("driver columns agree (model = spec) on %d evaluated ops" % n, bad == 0, "%d disagreements" % bad))
    vcheck.log("  columns: %d ops, %d model/spec disagreements" % (n, bad))
