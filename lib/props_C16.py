from props import COMMON_TB
import steps_C16

ID = "C16"
PROP = {
    "modules": ["Gnmi.Props.C16", "Gnmi.Props.C16Mgr", "Gnmi.Props.C16Prog", "Gnmi.Props.C13Hops",
                "Gnmi.GenProps.ManagerCreateConn"],
    "extra": [steps_C16.race_step],
    "theorems": ["Gnmi.C16." + t for t in [
        "inv_init", "inv_step", "inv_reach", "no_panic", "map_wellformed",
        "single_flight", "in_flight_registered", "join_in_flight", "outcome_stable", "outcome_stable_run",
        "joiners_get_outcome",
        "ref_is_holders", "registered_iff", "unregistered_unheld", "registered_has_holder",
        "never_closed_while_held", "handed_conn_open", "conn_unique",
        "closed_le_one", "last_release_closes_and_forgets", "earlier_release_keeps_open", "closed_is_forgotten",
        "next_request_dials_afresh", "all_released_all_closed",
        "done_idempotent", "done_again_noop", "done_after_error_noop",
        "failed_request_holds_nothing", "failed_object_unregistered",
        # progress in run form (Props/C16Prog.lean)
        "step_oframe", "step_rframe", "dial_enabled", "dial_rank_decreases", "others_keep_dial", "dial_step_persists",
        "dial_steps_bound", "dial_steps_le_four", "ready_after_rank", "ready_after_four", "ready_stable",
        "dial_completes", "waiter_woken", "wait_only_r2", "waiter_pc_stable", "ready_wake_stable",
        "waiter_woken_fair", "waiter_enabled_after_dial"]] + ["Gnmi.C16Mgr." + t for t in [
        # the holder's side: manager/manager.go releases every connection it acquires, exactly once
        "ginv_init", "ginv_step", "ginv_reach", "acquire_iff", "release_iff", "none_iff",
        "held_le_one", "held_iff_in_session",
        "released_when_idle", "released_in_backoff", "released_before_dial_returns", "released_before_error_callbacks",
        "released_when_finished",
        "remove_releases", "remove_returns_released", "removed_never_again",
        "release_once", "exec_ledger",
        "dial_succeeds_after_cancel", "dial_succeeds_after_cancel_released"]] + [
        "Gnmi.Manager.Reach.ghost", "Gnmi.Manager.GReach.reach", "Gnmi.Manager.applyMove_sound"] + ["Gnmi.C13Hops." + t for t in [
        # the holder's side for multi-hop targets: createConn's loop acquires exactly what `dialOk` acquires
        "createConn_ledger", "createConn_all_fail", "createConn_success_calls", "hstep_refines", "HReach.greach",
        "hops_acquire_only_on_success", "hops_ledger", "hops_held_le_one", "hops_released_when_idle", "hops_release_once",
        "hops_no_call_after_success"]] + [
        "Gnmi.GenProps.ManagerCreateConn." + t for t in ["tie_loop", "tie_createConn", "tie_defer"]],
    "components": [
        {"c": "cn", "quick": {"n": 1500, "exhaustive": True}, "thorough": {"n": 12000, "exhaustive": True, "seeds": 4}},
        # manager.Manager as the holder: the mg scenarios with the emphasis on the connection side (dial injections,
        # the real connection.Manager underneath in `runc` lines); one line is a whole scenario
        {"c": "mg", "label": "mg-conn", "gen_args": ["-profile", "conn"], "min_len": 3,
         "quick": {"n": 60, "exhaustive": True}, "thorough": {"n": 600, "exhaustive": True, "seeds": 3}},
        # createConn's next-hop loop through its seam (per call: result, deadline, whose done comes back) and whole
        # sessions with Config.Timeout on the real connection.Manager (ledger; ends empty, every connection shut)
        {"c": "mh", "label": "mh-conn", "quick": {"n": 30, "exhaustive": False}, "thorough": {"n": 300, "exhaustive": True, "seeds": 2}},
    ],
    # there is no separate abstract spec: the LTS *is* what the theorems are about; the driver
    # returns the model observation in both columns, so every divergence is a failing input
    "monitor": "spec",
    "level": "proof",
    "trusted_base": COMMON_TB + [
        "the LTS Model/ConnLTS.lean as a description of connection/connection.go: its transitions are the code's "
        "atomic sections (lock..unlock, channel receive/close, the Dial call); validated by the cn correspondence "
        "(sequential op scripts over real goroutines, observed at quiescence) but not proved",
        "Go memory model for mutex-protected sections and channel close/receive happens-before",
        "grpc-go: ClientConn.Close() moves the connection to connectivity.Shutdown synchronously; NewClient does not connect",
        "the manager LTS Model/ManagerLTS.lean (C13) with the connection ledger Model/ManagerConn.lean as a description of "
        "manager.go's createConn / monitor (acquire = Connection returned nil error, release = monitor's deferred done); "
        "validated by the mg correspondence (ledger of every Connection return and done call on the real manager), not proved",
    ],
    "assumptions": [
        "the Dial function returns a non-nil *grpc.ClientConn iff it returns a nil error",
        "callers invoke only the done func they were handed (any number of times, from any goroutine)",
        "a requester blocked on a shared dial does not watch its own context (as coded); only the creator's context reaches Dial",
        "progress (C16Prog): the return of the Dial function is a step of the dial goroutine (d1b); a Dial call that never "
        "returns is a dialer that is never scheduled — excluded by the fairness hypothesis of the leads-to reading, not by the code",
        "manager side: a ConnectionManager may return a connection although the context was cancelled meanwhile (modelled: dialOk "
        "has no context guard); createConn's loop over next hops is one program counter (Pc.dial)",
    ],
    "rule": "cn op sequences (req/reqs/release/cancel/done/dones/state/storm) from the seeded generator plus every sequence of "
            "length 4 over a 12-op alphabet; each op's observation is the whole manager state at quiescence (dial invocations "
            "per address, registered objects with ref, every requester's status and connection, open/shut per connection, "
            "parked dials, model-independent monitors); a sequence is non-trivial when it has >= 3 ops and some observation "
            "other than ok/err/empty; distinct = by hash of its op lines.  mg-conn: run/runc scenario lines (fault script per "
            "attempt, Remove/Reconnect injected at script-relative moments incl. while dialling with the dial failing (d) or "
            "succeeding (s)); per target the callback trace, API returns, acq (compared with the Lean ledger), leak/twice/uad "
            "(must be 0), and for runc the real connection.Manager's table size and open connections at the end (must be 0)",
    "manifest": {
        "level_text": "Lean 4 theorems about a labelled transition system of connection.Manager whose transitions are the code's atomic "
                      "sections: an inductive invariant (inv_init, inv_step) over all interleavings, any number of requesters/addresses, "
                      "all dial outcomes and cancellations, from which single_flight, ref_is_holders, never_closed_while_held, "
                      "closed exactly once and forgotten (closed_le_one, last_release_closes_and_forgets, closed_is_forgotten, "
                      "next_request_dials_afresh, all_released_all_closed), done_idempotent and done_after_error_noop follow; the nil "
                      "dereference in Manager.remove is unreachable (no_panic). Tied to connection/connection.go by the cn correspondence: "
                      "real goroutines, scripted Dial returning real lazily-connecting grpc.ClientConns, observed at quiescence; exhaustive "
                      "small scope + seeded random scripts + unscripted stress, with model-independent monitors.  The holder's side "
                      "(manager/manager.go): theorems C16Mgr.* about the manager LTS with a connection ledger (held_le_one, "
                      "released_when_idle, remove_releases, release_once, for every fault script and schedule, including a dial that "
                      "succeeds after its context was cancelled), tied to the code by the mg correspondence, which keeps a ledger of "
                      "every successful Connection return and every done call of the real manager.Manager, also with the real "
                      "connection.Manager underneath (ends empty, every connection Shutdown). Multi-hop targets (Props/C13Hops.lean): "
                      "createConn's loop over the next hops acquires exactly one handle iff it returns a connection (createConn_ledger), the "
                      "hop-level LTS refines the manager LTS with the same ledger (hstep_refines, hops_ledger), so held_le_one, "
                      "released_when_idle and release_once hold whatever the number of hops and the order they are tried in; tied to the "
                      "code by the mh correspondence (createConn through a seam; sessions with Config.Timeout set). "
                      "Progress in run form (Props/C16Prog.lean): the dial goroutine of a not yet ready object always has an enabled step "
                      "(dial_enabled), each of its steps decreases a variant <= 4 (dial_rank_decreases), no other thread changes its pc or "
                      "disables it (others_keep_dial, dial_step_persists), so along every schedule the object is ready after 4 dial steps "
                      "(dial_steps_bound, ready_after_four), every waiter is woken by a run of <= 4 dial steps (waiter_woken) and, for all "
                      "schedules, a waiter that has not moved is either enabled for good or its dialer is (waiter_woken_fair: the "
                      "weak-fairness leads-to).",
        "level_note": "Proof of the protocol LTS; that the LTS's atomic sections are the code's is validated by the correspondence, not "
                      "proved. Trusted: Lean kernel (axioms propext, Quot.sound, Classical.choice only), Model/ConnLTS.lean, Go runtime "
                      "(mutex, channels), grpc-go Close/GetState.",
        "technique": "Lean 4 proof (inductive invariant of an LTS) + model/implementation correspondence on real goroutines",
        "design_ref": "DESIGN.md §8 C16, Appendix E.4",
    },
}
