from props import COMMON_TB
import steps_C16

ID = "C16"
PROP = {
    "modules": ["Gnmi.Props.C16"],
    "extra": [steps_C16.race_step],
    "theorems": ["Gnmi.C16." + t for t in [
        "inv_init", "inv_step", "inv_reach", "no_panic", "map_wellformed",
        "single_flight", "in_flight_registered", "join_in_flight", "outcome_stable", "outcome_stable_run",
        "joiners_get_outcome",
        "ref_is_holders", "registered_iff", "unregistered_unheld", "registered_has_holder",
        "never_closed_while_held", "handed_conn_open", "conn_unique",
        "closed_le_one", "last_release_closes_and_forgets", "earlier_release_keeps_open", "closed_is_forgotten",
        "next_request_dials_afresh", "all_released_all_closed",
        "done_idempotent", "done_again_noop", "done_after_error_noop",
        "failed_request_holds_nothing", "failed_object_unregistered"]],
    "components": [
        {"c": "cn", "quick": {"n": 1500, "exhaustive": True}, "thorough": {"n": 12000, "exhaustive": True, "seeds": 4}},
    ],
    # there is no separate abstract spec: the LTS *is* what the theorems are about; the driver
    # returns the model observation in both columns, so every divergence is a failing input
    "monitor": "spec",
    "level": "proof",
    "trusted_base": COMMON_TB + [
        "the LTS Model/ConnLTS.lean as a description of connection/connection.go: its transitions are the code's "
        "atomic sections (lock..unlock, channel receive/close, the Dial call); validated by the cn correspondence "
        "(sequential op scripts over real goroutines, observed at quiescence) but not proved",
        "Go memory model for mutex-protected sections and channel close/receive happens-before",
        "grpc-go: ClientConn.Close() moves the connection to connectivity.Shutdown synchronously; NewClient does not connect",
    ],
    "assumptions": [
        "the Dial function returns a non-nil *grpc.ClientConn iff it returns a nil error",
        "callers invoke only the done func they were handed (any number of times, from any goroutine)",
        "a requester blocked on a shared dial does not watch its own context (as coded); only the creator's context reaches Dial",
    ],
    "rule": "cn op sequences (req/reqs/release/cancel/done/dones/state/storm) from the seeded generator plus every sequence of "
            "length 4 over a 12-op alphabet; each op's observation is the whole manager state at quiescence (dial invocations "
            "per address, registered objects with ref, every requester's status and connection, open/shut per connection, "
            "parked dials, model-independent monitors); a sequence is non-trivial when it has >= 3 ops and some observation "
            "other than ok/err/empty; distinct = by hash of its op lines",
    "manifest": {
        "level_text": "Lean 4 theorems about a labelled transition system of connection.Manager whose transitions are the code's atomic "
                      "sections: an inductive invariant (inv_init, inv_step) over all interleavings, any number of requesters/addresses, "
                      "all dial outcomes and cancellations, from which single_flight, ref_is_holders, never_closed_while_held, "
                      "closed exactly once and forgotten (closed_le_one, last_release_closes_and_forgets, closed_is_forgotten, "
                      "next_request_dials_afresh, all_released_all_closed), done_idempotent and done_after_error_noop follow; the nil "
                      "dereference in Manager.remove is unreachable (no_panic). Tied to connection/connection.go by the cn correspondence: "
                      "real goroutines, scripted Dial returning real lazily-connecting grpc.ClientConns, observed at quiescence; exhaustive "
                      "small scope + seeded random scripts + unscripted stress, with model-independent monitors.",
        "level_note": "Proof of the protocol LTS; that the LTS's atomic sections are the code's is validated by the correspondence, not "
                      "proved. Trusted: Lean kernel (axioms propext, Quot.sound, Classical.choice only), Model/ConnLTS.lean, Go runtime "
                      "(mutex, channels), grpc-go Close/GetState.",
        "technique": "Lean 4 proof (inductive invariant of an LTS) + model/implementation correspondence on real goroutines",
        "design_ref": "DESIGN.md §8 C16, Appendix E.4",
    },
}
