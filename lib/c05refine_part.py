"""C05/C04: the simulation of the sequential Subscribe model (Model/Subscribe.lean) by the Subscribe LTS
(Model/SubscribeLTS.lean) extended to ONCE / POLL subscriptions and to the poll / eof operations
(Lemmas/SubscribeRefinePoll.lean, Props/C05Refine.lean), and the run forms of the LTS theorems of C05
(Props/C05LRun.lean: PollQuiet derived, once_ends_ok_run, poll_rounds_counted).  Merge into lib/props_C05.py and
lib/props_C04.py:

    from c05refine_part import MODULES, THEOREMS, LEVEL_TEXT
    PROP["modules"] += MODULES; PROP["theorems"] += THEOREMS; PROP["manifest"]["level_text"] += LEVEL_TEXT

lean/Gnmi.lean must import Gnmi.Props.C05LRun, Gnmi.Lemmas.SubscribeRefinePoll and Gnmi.Props.C05Refine.
Corpus: corpus/C05/eof_with_response_held.ops (a half-close while the sender holds a response: nothing more is delivered;
Model/Subscribe.lean's `eof` was repaired to drop the held response; Gnmi.C05Refine.eof_held_agrees).
"""

MODULES = [
    "Gnmi.Props.C05LRun",
    "Gnmi.Lemmas.SubscribeRefinePoll",
    "Gnmi.Props.C05Refine",
]

THEOREMS = ["Gnmi.SubLTS." + t for t in [
    # the walker may visit a leaf once per matching subscription path (Req.extra), not more often
    "count_le_extra_of_not_mem", "visit_beyond_extra",
]] + ["Gnmi.C05L." + t for t in [
    # run forms over the LTS: the premise PollQuiet of poll_rounds derived; every maximal run of a ONCE RPC ends it
    "progInv_reach", "quiet_of_stuck", "pollQuiet_of_stuck", "stuck_of_quiet", "stuck_of_fin",
    "poll_rounds_env", "poll_first_round_env", "noAbort_status", "once_ends_ok_run", "once_ends_ok_run_accepted",
    "quiet_step", "ended_step", "poll_rounds_counted",
    # maximal runs exist: the server threads of an RPC terminate (measure progMeasure)
    "sum_visit_lt", "cntTodo_visit", "progMeasure_step", "server_run_terminates", "once_ends_ok_progress",
]] + ["Gnmi.Refine." + t for t in [
    # a live ONCE / POLL subscriber against its LTS client: sender run (with drained), flow control
    "pdequeue_sim", "prelease_sim", "ppump_sim", "ppumpAll_sim", "gateF_simX", "stepF_simX",
    # a cache call seen by an unregistered subscriber: stale handles, freeze, refresh
    "irelW_upd", "irelW_del", "pev_step", "prefresh", "staleFree_of_no_handles", "staleFree_of_noLaterCover", "staleFree_of_B",
    "staleFree_of_all_upd", "staleFree_of_all_del",
    # the whole state
    "StRel.toX", "subs_local_gen", "event_simX", "events_simX", "feed_simX", "updateSub_simX", "mapSubs_simX", "newSub_simX",
    "add_simX", "expire_simX",
    # the walk over a queue that may hold items; Subscribe of every mode; poll; eof
    "any_handle_iff", "pwalk_step", "pwalk_items", "pwalk_finish", "walk_facts", "pdoWalk_sim", "pwalked_rel",
    "subscribe_rejectX", "phandler_accept", "subscribe_unfoldX", "subscribe_casesX", "subscribe_localX", "subscribe_simX",
    "poll_localX", "poll_simX", "eof_localX", "eof_simX",
]] + ["Gnmi.C05Refine." + t for t in [
    "sim_init", "ca_sim", "seq_step_simulated", "seq_run_simulated", "seq_reachable_in_lts",
    # C05L theorems transferred to SEQ-reachable states, and compared with the SEQ theorems
    "once_of_rel", "seq_once_concurrent", "once_agrees", "seq_never_sends_denied",
    "local_all_cnt", "poll_sim_cnt", "pollQuiet_of_rel", "seq_poll_round", "poll_round_agrees",
    # a former difference, repaired in the sequential model: a half-close while a response is held
    "ended_sends_nothing", "eof_held_agrees", "histEof_okHist",
    # non-vacuity
    "histP_okHist", "histP_run", "histP_mid", "okHist_append_left", "histP_okHist8",
]]

LEVEL_TEXT = (
    " The simulation of the sequential model by the LTS (Props/C04Refine.lean) is extended to every mode and every operation "
    "(Props/C05Refine.lean, lemmas Lemmas/SubscribeRefinePoll.lean): C05Refine.seq_step_simulated — Subscribe with a STREAM, ONCE, POLL "
    "or unknown-mode request (accepted or rejected), any cache API call, gate shut/step/open, a poll trigger, a half-close and the "
    "send timeout (C04Sync.XOp), from a SEQ state related by Refine.StRelX (StRel plus Refine.PLiveRel: a live ONCE/POLL subscriber — "
    "never registered, queue of handles and the sync marker, closed for ONCE once the walk is over) is one finite run of LTS steps "
    "(handler, walker visit…finish over a queue that may already hold items, poll, eof, W1;W2 per event, sender next;build;sent, "
    "drained ending a ONCE RPC with OK, expire) ending in a related configuration: closed queues related, ended RPCs with the same "
    "status, the same responses in the same order; seq_reachable_in_lts for such histories. Side conditions beyond C04Refine's: the "
    "call carries a request (Recv returning EOF first is not an LTS step) whose paths complete; Refine.StaleFree on cache calls "
    "(for an unregistered subscriber holding a handle queued: no update of that leaf is followed in the same call by a delete "
    "covering it — SEQ freezes the value held before the call, the leaf object holds the written one; decidable per history: "
    "staleFree_of_B). A half-close needs no side condition: a response held inside a gated Send when the client half-closes is "
    "dropped in both models (Sub.eof was repaired to clear it, as Sub.expire does; LTS: ended_sends_nothing; eof_held_agrees; the real "
    "server: corpus/C05/eof_with_response_held.ops). Transfers: "
    "seq_never_sends_denied (C07L.never_sends_denied for histories with subscribers of every mode); "
    "seq_once_concurrent (C05L.once_concurrent at every SEQ-reachable state: only syncs and updates of matched allowed keys, at most "
    "one sync, exactly one and last when ended OK; once_of_rel adds what only the LTS can say — values held during the call, keys "
    "present throughout the walk — for the related reachable configuration), once_agrees (whenever once_static_exact's conclusion holds "
    "of the subscriber, the LTS client was sent the abstraction of body++[sync] and once_concurrent's clauses hold of it); "
    "seq_poll_round (C05L.poll_rounds for a poll trigger of the sequential model, through poll_rounds_counted: any schedule with exactly "
    "one poll step of the client, counted through the run by poll_sim_cnt) and poll_round_agrees (under poll_trigger_exact's hypotheses the "
    "LTS round is, up to duplicate counts, the abstraction of the exact snapshot followed by one sync). Run forms over the LTS "
    "(Props/C05LRun.lean): Stuck = no server goroutine of the RPC (handler, walker, sender) can move; quiet_of_stuck / "
    "pollQuiet_of_stuck derive the premise PollQuiet of poll_rounds from reachability, an open RPC, a reading client and stuck "
    "server threads (progress invariant ProgInv); poll_rounds_env / poll_first_round_env are poll_rounds with these environment "
    "hypotheses only (writers unconstrained); once_ends_ok_run — every run from the initial configuration in which the ONCE RPC is "
    "neither cancelled nor timed out and which ends with its client reading and its server threads stuck has ended the RPC: OK with "
    "exactly one sync, last, after an update for every matched allowed key present throughout the walk, or one of the handler's "
    "four rejections (reason stated) with nothing sent; once_ends_ok_run_accepted: always OK for a valid request on '*'; "
    "server_run_terminates — such maximal runs exist: with the client reading and writers silent, the server threads of an RPC reach "
    "a stuck configuration within progMeasure steps (progMeasure_step: every handler/walker/sender step decreases it); "
    "once_ends_ok_progress combines the two.")
