"""C12, receive surfaces (`rx`): the property monitor.

The generic pipeline reports every impl/model divergence and decides "failing input" by comparing
the implementation with the spec column as strings.  For the rx component the property is
narrower than the digest the correspondence compares: *no panic on a WireValid message* and *a
rejected message leaves the client tree as it was*.  This step
  * classifies the rx divergences the generic stages found: a failing input iff the
    implementation panicked (observation contains `panic`, or the process died: `<no-output>`)
    where the spec column does not, or a `recv` op was rejected by both sides with different
    trees; any other divergence (a digest that differs) breaks the tie only
    (`no-failing-input-found`);
  * searches the run left in the scratch directory for a panicking op (ops are independent: the
    replay is `rx new` + the op) and reports it first.
"""
import os

import vcheck


def _panicked(obs):
    return "panic" in obs or obs == "<no-output>"


def _fails(op, impl, spec):
    if _panicked(impl) and not _panicked(spec):
        return True
    f = op.split()
    if len(f) > 1 and f[1] == "recv" and impl.startswith("err:") and spec.startswith("err:") and impl != spec:
        return True
    return False


def rx_monitor(ctx, cfg):
    mine = [p for p in ctx.problems if p[0] == "divergence" and p[2] and str(p[2].get("component", "")).startswith("rx")]
    corp = [p for p in ctx.problems if p[0] == "divergence" and p[2] and str(p[2].get("component", "")).startswith("corpus/rx")]
    for _, _, payload in mine + corp:
        d = payload.get("first_divergence")
        if d is None or d >= len(payload.get("ops", [])):
            continue
        impl = payload["impl"][d] if d < len(payload["impl"]) else "<no-output>"
        spec = payload["spec"][d] if d < len(payload["spec"]) else ""
        payload["monitor_failed"] = _fails(payload["ops"][d], impl, spec)
    if not mine or any(p[2].get("monitor_failed") for p in mine):
        return
    # search: a panicking op anywhere in the diverging run
    paths = [os.path.join(ctx.scratch, "rx.%s" % x) for x in ("ops", "impl", "model")]
    if not all(os.path.exists(p) for p in paths):
        return
    ops, impl, mod = [open(p).read().split("\n") for p in paths]
    vcorr, _ = vcheck.go_build(ctx, "vcorr")
    # ... and in a fresh, wider random generation
    import subprocess
    r = subprocess.run([vcorr, "gen", "-c", "rx", "-tier", ctx.tier, "-seed", str(ctx.seed + 7919), "-n", "3000"],
                       capture_output=True, text=True, env=vcheck.GOENV)
    if r.returncode == 0:
        wops = [l for l in r.stdout.split("\n") if l]
        wimpl, _ = vcheck.run_lines([vcorr, "run"], wops, env=vcheck.GOENV)
        wmod, _ = vcheck.run_lines(vcheck.model_bin(), wops)
        ops, impl, mod = ops + wops, impl[:len(ops)] + [""] * (len(ops) - len(impl)) + wimpl, mod[:len(ops)] + [""] * (len(ops) - len(mod)) + wmod
    for i, op in enumerate(ops):
        if not op or op.split()[1:2] == ["new"]:
            continue
        a = impl[i] if i < len(impl) and impl[i] != "" else "<no-output>"
        cols = (mod[i] if i < len(mod) else "<no-output>\t<no-output>").split("\t")
        if not _fails(op, a, cols[-1]):
            continue
        seq = ["rx new", op]
        im, _ = vcheck.run_lines([vcorr, "run"], seq, env=vcheck.GOENV)
        mo, _ = vcheck.run_lines(vcheck.model_bin(), seq)
        a2 = im[1] if len(im) > 1 and im[1] != "" else "<no-output>"
        c2 = (mo[1] if len(mo) > 1 else "<no-output>\t<no-output>").split("\t")
        if _fails(op, a2, c2[-1]):
            payload = {"component": "rx", "generator": "search", "ops": seq, "impl": [im[0], a2],
                       "model": ["ok", c2[0]], "spec": ["ok", c2[-1]], "first_divergence": 1, "monitor_failed": True}
            ctx.problems.insert(0, ("divergence", "a WireValid message makes the implementation panic (rx search)", payload))
            return


def conc_race(ctx, cfg):
    """`wi conc` under the race detector: Subscribe RPCs of several peers at once on one subscribe.Server with the
    statistics option, while the cache is written to.  Every report is a violation (a concurrent map access is a
    crash of the whole process that no single message explains)."""
    import re
    vrace, out = vcheck.go_build(ctx, "vcorr", race=True)
    if vrace is None:
        ctx.problems.append(("build", "-race harness build failed against the working tree:\n" + out[-3000:], None))
        return
    rounds = 60 if ctx.tier == "thorough" else 12
    lines = ["wi new"] + ["wi conc %d %d" % (ctx.seed * 7919 + k, rounds) for k in range(3 if ctx.tier == "thorough" else 2)]
    env = dict(vcheck.GOENV, GORACE="halt_on_error=0")
    obs, r = vcheck.run_lines([vrace, "run"], lines, timeout=900, env=env)
    err = getattr(r, "stderr", "") or ""
    blocks = re.findall(r"WARNING: DATA RACE.*?={18}", err, re.S)
    ok = len(obs) == len(lines) and all(o in ("ok", "mon=ok") for o in obs)
    ctx.obligations.append(("-race: concurrent Subscribe RPCs on one server with statistics (wi conc): monitors ok, no race report",
                            ok and not blocks, "%d race reports; observations %r" % (len(blocks), obs)))
    ctx.cov["evaluations"] += len(lines)
    ctx.cov.setdefault("c12", {})["conc_race"] = {"lines": lines, "observations": obs, "race_reports": len(blocks)}
    if not ok or blocks:
        bad = next((i for i, o in enumerate(obs) if o not in ("ok", "mon=ok")), len(obs) if len(obs) < len(lines) else 1)
        bad = min(bad, len(lines) - 1)
        payload = {"component": "wi conc (-race)", "ops": lines[:bad + 1], "impl": (obs + ["<no-output>"] * len(lines))[:bad + 1],
                   "model": (["ok"] + ["mon=ok"] * len(lines))[:bad + 1], "spec": (["ok"] + ["mon=ok"] * len(lines))[:bad + 1],
                   "first_divergence": bad, "monitor_failed": True, "kind_hint": "failing-schedule",
                   "race_report": (blocks[0][:4000] if blocks else ""),
                   "how": "run the -race build of the harness on these lines; the schedule is the Go scheduler's"}
        ctx.problems.append(("divergence", "wi conc under -race: %s" % (("race detector report: " + blocks[0].split("\n")[1][:200]) if blocks else "monitor failed / process died"), payload))
