from props import COMMON_TB
import steps_C20

ID = "C20"
PROP = {
    "modules": ["Gnmi.Props.C20", "Gnmi.Props.C20More", "Gnmi.Props.C20Fixed"],
    "theorems": ["Gnmi.C20." + t for t in [
        "build_never_fails", "built_inv", "built_vals", "addValue_is_sorted_insert", "sorted_invariant",
        "next_keeps_sorted", "emission_nondecreasing", "emissions_chain", "first_emission_is_configured",
        "delta_bounds", "repeat_at_most", "repeat_exact", "exhausted_stays", "repeat_unbounded", "in_range",
        "accepted_initial_in_range", "sync_after_firsts", "sync_once", "deterministic", "error_is_config",
        "error_only_on_defect", "exCfg_accepted",
        # Props/C20More.lean
        "dropped_exact", "count_exact", "emitted_all_iff_dropped", "dropped_final", "dropped_count_stays",
        "unbounded_never_dropped", "unbounded_count_unbounded", "sync_timestamp_exact", "sync_emitted_at_latest",
        "foldlM_add_latest", "latestFrom_ge", "latestFrom_attained",
        # Props/C20Fixed.lean (FixedQueue)
        "run_conservation", "emits_take", "after_drop", "exhausted_nil", "next_no_panic", "next_good",
        "next_delay_law", "next_last_keeps_delay", "next_nodelay", "nodelay_never_sleeps", "slept_nonneg",
        "lastTS_mono", "sorted_delays", "stale_delay", "panic_loses_response", "delay_wraps"]],
    "components": [
        {"c": "fq", "quick": {"n": 1500, "exhaustive": True}, "thorough": {"n": 6000, "exhaustive": True, "seeds": 4}},
        {"c": "fx", "quick": {"n": 1500, "exhaustive": True}, "thorough": {"n": 8000, "exhaustive": True, "seeds": 4}},
    ],
    # classification of divergences (failing input <=> a Go-side, model-independent monitor fails) and
    # the monitor-only search for a failing input when only the tie broke
    "extra": [steps_C20.classify_and_search],
    "monitor": "spec",
    "level": "proof",
    "rule": "fq sequences: one fake configuration (0-8 values of every kind, range/list/constant arms, repeats 0/1/k/-k, "
            "per-value and global seeds, equal timestamps, ~10% with one configuration defect) + up to 200 Next calls on TWO real "
            "generators and the model, optionally a fake-agent run (Client.Run on an in-memory stream) compared response by "
            "response; ~8% of the sequences drive math/rand's Int63n/Int31n/Intn/Float64/Shuffle on scripted adversarial draws. "
            "Exhaustive scope: every kind/distribution arm x 5 repeat settings x 4 delta settings x PRNG ownership as "
            "single-value configurations, 19 defective configurations, ordered pairs of arms at equal/adjacent timestamps with "
            "and without sync. Every `new` line is also the verdict of the model-independent monitors (ordering, delta bounds, "
            "range/options/rotation, repeat counts, sync position, determinism, error-only-on-defect) on 60-200 further Next "
            "calls of a separate pair of real generators and of the real fake agent. A sequence is non-trivial when it has >= 3 "
            "ops and an observation other than ok/err/nil; distinct = by hash of its op lines",
    "trusted_base": COMMON_TB + [
        "math/rand: Int63n, Int31n, int31n, Intn, Float64, Shuffle transcribed (Model/FakeQueue.lean) on top of a raw draw stream; "
        "the additive lagged Fibonacci source itself is not modelled: the harness hands the model the raw Int63() draws of an "
        "identically seeded rand.NewSource",
        "float64: theorems hold for every strict total order (NaN excluded); the driver executes with Lean Float (IEEE double, "
        "no fused multiply-add on amd64), observations compared by bit pattern",
        "proto.Clone / proto.Equal as value copy / structural equality",
    ],
    "assumptions": [
        "NoOverflow: no int64 overflow in timestamps, values, deltas, range widths (the model checks each such operation and "
        "answers `overflow`; the generators stay inside; every infinite stream with a positive delta eventually leaves this domain)",
        "configurations accepted by the code's own validity checks (Accepted/ValidPV) for the run theorems; rejected "
        "configurations are covered by error_only_on_defect and by the correspondence (error results, post-error behaviour)",
        "oneof wrappers hold non-nil messages (true of every configuration read from text or wire format)",
        "non-zero global seed (seed 0 means wall-clock seeding); doubles finite, no NaN",
        "delay=false: the real-time sleep between emissions (enable_delay) is not modelled; single goroutine (the mutex is ignored)",
        "ordering implies starvation, not a defect: a value re-queued with delta 0 and unbounded repeat is emitted forever "
        "before anything later, so repeat_exact is a safety statement (at most r in any prefix, exactly r at exhaustion)",
    ],
    "manifest": {
        "level_text": "Lean 4 theorems about an executable model of testing/fake/queue (UpdateQueue.Next/addValue, the per-kind "
                      "updaters, math/rand's bounded-integer/Float64/Shuffle algorithms over an arbitrary raw draw stream) and of "
                      "the fake agent's reset/valToResp, for every accepted configuration, every draw stream and every number of "
                      "Next calls: the binary search is sorted insertion and the bucket invariant is preserved (sorted_invariant), "
                      "emission timestamps are non-decreasing (emission_nondecreasing), the emissions of each value form a chain of "
                      "nextValue steps from the configured value (emissions_chain) with steps within [delta_min, delta_max] "
                      "(delta_bounds), values within range / option list (in_range), at most `repeat` emissions and exactly `repeat` "
                      "at exhaustion, unbounded values never dropped (repeat_at_most, repeat_exact, repeat_unbounded), the injected "
                      "sync after the first emission of every configured value and at most once (sync_after_firsts, sync_once), "
                      "no error/panic on accepted configurations and errors only from the listed defects (error_is_config, "
                      "error_only_on_defect), determinism. The model is tied to the Go code by a differential correspondence "
                      "(two real generators + model on shared raw PRNG draws, fake agent in process, math/rand on scripted draws) "
                      "and by model-independent monitors evaluated on the real generator. "
                      "Props/C20More.lean: per-value repeat count in EVERY prefix (dropped_exact: still queued with remaining k and emitted "
                      "r-k times, or dropped and emitted exactly r times, never again - dropped_final), and the injected sync carries exactly "
                      "the largest initial timestamp (sync_timestamp_exact, sync_emitted_at_latest). Props/C20Fixed.lean over "
                      "Model/FixedQueue.lean (fixed_queue.go, tied by the fx correspondence on the real FixedQueue): strict FIFO and "
                      "exactly the added responses for every Add/Next history (run_conservation), the delay law as coded "
                      "(next_delay_law, sorted_delays, stale_delay, delay_wraps), no panic unless a nil entry / nil notification is queued "
                      "with checkDelay (next_no_panic, panic_loses_response).",
        "level_note": "Trusted: Lean kernel (axioms propext, Quot.sound, Classical.choice only), the hand-written model "
                      "Model/FakeQueue.lean as validated by the correspondence harness, Go runtime and math/rand's source (rngSource). "
                      "Assumes no int64 overflow (checked in the model), no NaN, non-zero seed.",
        "technique": "Lean 4 proof (inductive invariant over Next iterations, per-value chain refinement, PRNG as a parameter) + "
                     "model/implementation correspondence with Go-side property monitors",
        "design_ref": "DESIGN.md §8 C20",
    },
}
