from props import COMMON_TB
import steps_C20

ID = "C20"
PROP = {
    "modules": ["Gnmi.Props.C20", "Gnmi.Props.C20More", "Gnmi.Props.C20Fixed", "Gnmi.Props.C20Agent"],
    "theorems": ["Gnmi.C20." + t for t in [
        "build_never_fails", "built_inv", "built_vals", "addValue_is_sorted_insert", "sorted_invariant",
        "next_keeps_sorted", "emission_nondecreasing", "emissions_chain", "first_emission_is_configured",
        "delta_bounds", "repeat_at_most", "repeat_exact", "exhausted_stays", "repeat_unbounded", "in_range",
        "accepted_initial_in_range", "sync_after_firsts", "sync_once", "deterministic", "error_is_config",
        "error_only_on_defect", "exCfg_accepted",
        # Props/C20More.lean
        "dropped_exact", "count_exact", "emitted_all_iff_dropped", "dropped_final", "dropped_count_stays",
        "unbounded_never_dropped", "unbounded_count_unbounded", "sync_timestamp_exact", "sync_emitted_at_latest",
        "foldlM_add_latest", "latestFrom_ge", "latestFrom_attained",
        # Props/C20Fixed.lean (FixedQueue)
        "run_conservation", "emits_take", "after_drop", "exhausted_nil", "next_no_panic", "next_good",
        "next_delay_law", "next_last_keeps_delay", "next_nodelay", "nodelay_never_sleeps", "slept_nonneg",
        "lastTS_mono", "sorted_delays", "stale_delay", "panic_loses_response", "delay_wraps",
        # Props/C20Agent.lean (what a subscriber of the fake agent receives; Model/FakeAgent.lean)
        "valToResp_faithful", "valToResp_ok_iff", "wireOf_facts", "stream_is_emits_general", "stream_is_emits",
        "stream_transfer", "stream_length", "stream_nondecreasing", "stream_repeat_count", "stream_delta_bounds", "pq_gen_end", "stream_end_cases", "eof_iff",
        "held_iff", "unbounded_never_ends", "emit_origin", "sync_emission_iff", "sync_after_firsts_stream",
        "sync_exactly_once_at_end", "no_sync_when_disabled", "pq_fixed", "fixed_stream_verbatim",
        "generator_selection", "subscribe_always_served", "rejected_iff", "unknown_target_not_rejected",
        "stamp_target", "target_only_stamps", "second_subscriber_same_stream", "new_iff",
        "polls_ignored_outside_poll_mode", "poll_replays", "poll_held_when_disable_eof", "instantiate_congr",
        "same_seed_same_stream", "same_seed_same_generator", "built_queue", "built_noUnset",
        "unknown_target_served_witness", "eof_witness", "error_looks_like_eof"]],
    "components": [
        {"c": "fq", "quick": {"n": 1500, "exhaustive": True}, "thorough": {"n": 6000, "exhaustive": True, "seeds": 4}},
        {"c": "fx", "quick": {"n": 1500, "exhaustive": True}, "thorough": {"n": 8000, "exhaustive": True, "seeds": 4}},
        {"c": "fa", "quick": {"n": 500, "exhaustive": True}, "thorough": {"n": 4000, "exhaustive": True, "seeds": 4}},
    ],
    # classification of divergences (failing input <=> a Go-side, model-independent monitor fails) and
    # the monitor-only search for a failing input when only the tie broke
    "extra": [steps_C20.classify_and_search],
    "monitor": "spec",
    "level": "proof",
    "rule": "fq sequences: one fake configuration (0-8 values of every kind, range/list/constant arms, repeats 0/1/k/-k, "
            "per-value and global seeds, equal timestamps, ~10% with one configuration defect) + up to 200 Next calls on TWO real "
            "generators and the model, optionally a fake-agent run (Client.Run on an in-memory stream) compared response by "
            "response; ~8% of the sequences drive math/rand's Int63n/Int31n/Intn/Float64/Shuffle on scripted adversarial draws. "
            "Exhaustive scope: every kind/distribution arm x 5 repeat settings x 4 delta settings x PRNG ownership as "
            "single-value configurations, 19 defective configurations, ordered pairs of arms at equal/adjacent timestamps with "
            "and without sync. Every `new` line is also the verdict of the model-independent monitors (ordering, delta bounds, "
            "range/options/rotation, repeat counts, sync position, determinism, error-only-on-defect) on 60-200 further Next "
            "calls of a separate pair of real generators and of the real fake agent. A sequence is non-trivial when it has >= 3 "
            "ops and an observation other than ok/err/nil; distinct = by hash of its op lines. "
            "fa sequences: one REAL fake agent (fgnmi.New on a loopback listener) per configuration - generated values of every kind "
            "(0-5 values, repeats 0/1/k/-k, kind-less values, ~10% with a defect) or a fixed response list (notifications with and "
            "without prefix, sync, unset, nil-notification wrappers, enable_delay), disable_sync / disable_eof, generator none/custom/"
            "random/fixed - and 1-3 Subscribe RPCs (in process on a scripted stream, or over loopback gRPC) with mode STREAM/ONCE/POLL, "
            "prefix target absent/empty/own/foreign, a read limit and 0-2 Poll requests, plus rejected first requests; every response "
            "(kind, path, value, timestamp, prefix) and the end of the stream (eof / held / awaiting poll / still open / status code) "
            "is compared with Model/FakeAgent.lean. Exhaustive scope: every kind/distribution arm x repeat 1/3/unbounded x 5 "
            "(sync, disable_eof, mode) settings; every fixed list of length <= 2 over 6 response shapes x delay x the 5 settings",
    "trusted_base": COMMON_TB + [
        "math/rand: Int63n, Int31n, int31n, Intn, Float64, Shuffle transcribed (Model/FakeQueue.lean) on top of a raw draw stream; "
        "the additive lagged Fibonacci source itself is not modelled: the harness hands the model the raw Int63() draws of an "
        "identically seeded rand.NewSource",
        "float64: theorems hold for every strict total order (NaN excluded); the driver executes with Lean Float (IEEE double, "
        "no fused multiply-add on amd64), observations compared by bit pattern",
        "proto.Clone / proto.Equal as value copy / structural equality",
        "fa: gRPC transport and the scripted in-process stream; the states `held` / `awaiting poll` are read off the goroutine "
        "dump (runtime.Stack: Client.send parked in [chan receive] inside send / processQueue); rand.NewSource(seed) is a "
        "function of the seed (parameter `src` of same_seed_same_stream)",
    ],
    "assumptions": [
        "NoOverflow: no int64 overflow in timestamps, values, deltas, range widths (the model checks each such operation and "
        "answers `overflow`; the generators stay inside; every infinite stream with a positive delta eventually leaves this domain)",
        "configurations accepted by the code's own validity checks (Accepted/ValidPV) for the run theorems; rejected "
        "configurations are covered by error_only_on_defect and by the correspondence (error results, post-error behaviour)",
        "oneof wrappers hold non-nil messages (true of every configuration read from text or wire format)",
        "non-zero global seed (seed 0 means wall-clock seeding); doubles finite, no NaN",
        "delay=false: the real-time sleep between emissions (enable_delay) is not modelled; single goroutine (the mutex is ignored)",
        "ordering implies starvation, not a defect: a value re-queued with delta 0 and unbounded repeat is emitted forever "
        "before anything later, so repeat_exact is a safety statement (at most r in any prefix, exactly r at exhaustion)",
    ],
    "manifest": {
        "level_text": "Lean 4 theorems about an executable model of testing/fake/queue (UpdateQueue.Next/addValue, the per-kind "
                      "updaters, math/rand's bounded-integer/Float64/Shuffle algorithms over an arbitrary raw draw stream) and of "
                      "the fake agent's reset/valToResp, for every accepted configuration, every draw stream and every number of "
                      "Next calls: the binary search is sorted insertion and the bucket invariant is preserved (sorted_invariant), "
                      "emission timestamps are non-decreasing (emission_nondecreasing), the emissions of each value form a chain of "
                      "nextValue steps from the configured value (emissions_chain) with steps within [delta_min, delta_max] "
                      "(delta_bounds), values within range / option list (in_range), at most `repeat` emissions and exactly `repeat` "
                      "at exhaustion, unbounded values never dropped (repeat_at_most, repeat_exact, repeat_unbounded), the injected "
                      "sync after the first emission of every configured value and at most once (sync_after_firsts, sync_once), "
                      "no error/panic on accepted configurations and errors only from the listed defects (error_is_config, "
                      "error_only_on_defect), determinism. The model is tied to the Go code by a differential correspondence "
                      "(two real generators + model on shared raw PRNG draws, fake agent in process, math/rand on scripted draws) "
                      "and by model-independent monitors evaluated on the real generator. "
                      "Props/C20More.lean: per-value repeat count in EVERY prefix (dropped_exact: still queued with remaining k and emitted "
                      "r-k times, or dropped and emitted exactly r times, never again - dropped_final), and the injected sync carries exactly "
                      "the largest initial timestamp (sync_timestamp_exact, sync_emitted_at_latest). Props/C20Fixed.lean over "
                      "Model/FixedQueue.lean (fixed_queue.go, tied by the fx correspondence on the real FixedQueue): strict FIFO and "
                      "exactly the added responses for every Add/Next history (run_conservation), the delay law as coded "
                      "(next_delay_law, sorted_delays, stale_delay, delay_wraps), no panic unless a nil entry / nil notification is queued "
                      "with checkDelay (next_no_panic, panic_loses_response). "
                      "Props/C20Agent.lean over Model/FakeAgent.lean (client.go Run/reset/nextInQueue/processQueue/send, agent.go New/Subscribe; "
                      "tied by the fa correspondence on the real agent, in process and over loopback gRPC): the responses a subscriber receives "
                      "are exactly the emission sequence converted by valToResp and stamped with the requested target, in order "
                      "(stream_is_emits; up to the first kind-less value in general, stream_is_emits_general), so every theorem about emits "
                      "carries over (stream_transfer, stream_nondecreasing, stream_length, stream_repeat_count, stream_delta_bounds); valToResp keeps path, timestamp, value and kind "
                      "(valToResp_faithful, valToResp_ok_iff); the stream ends with a clean EOF iff not disable_eof, not POLL and the queue ran "
                      "empty, is held with disable_eof, never ends with an unbounded repeat (eof_iff, held_iff, stream_end_cases, "
                      "unbounded_never_ends; a conversion or queue error also looks like a clean EOF: error_looks_like_eof); the sync response "
                      "is sync true, unique, after an update of every configured path, present once at exhaustion, absent with disable_sync "
                      "(sync_after_firsts_stream, sync_exactly_once_at_end, no_sync_when_disabled); the fixed generator replays its responses "
                      "verbatim + sync (fixed_stream_verbatim, generator_selection); request validation (rejected_iff); the requested target only "
                      "stamps prefix.target and is never checked - the expected `unknown_target_rejected` is refuted "
                      "(unknown_target_not_rejected, target_only_stamps, unknown_target_served_witness); every subscriber gets a fresh client "
                      "(second_subscriber_same_stream); POLL replays the same pass per poll (poll_replays, poll_held_when_disable_eof); the "
                      "stream depends on math/rand only through rand.NewSource of the seeds named in the configuration (same_seed_same_stream).",
        "level_note": "Trusted: Lean kernel (axioms propext, Quot.sound, Classical.choice only), the hand-written model "
                      "Model/FakeQueue.lean as validated by the correspondence harness, Go runtime and math/rand's source (rngSource). "
                      "Assumes no int64 overflow (checked in the model), no NaN, non-zero seed.",
        "technique": "Lean 4 proof (inductive invariant over Next iterations, per-value chain refinement, PRNG as a parameter) + "
                     "model/implementation correspondence with Go-side property monitors",
        "design_ref": "DESIGN.md §8 C20",
    },
}
