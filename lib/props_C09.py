from props import COMMON_TB

ID = "C09"
PROP = {
    "modules": ["Gnmi.Props.C09", "Gnmi.Props.C09Children"],
    "theorems": ["Gnmi.C09." + t for t in [
        "history_refinement", "reachable_wf", "step_refines", "add_refines", "add_fails_iff",
        "content_prefixFree", "query_spec", "get_spec", "get_none_spec", "walkSorted_content",
        "walkSorted_sorted", "delete_eq_query", "delete_rest", "delete_wf", "delete_empty",
        "delete_through_leaf", "add_after_delete", "readd_after_delete",
        "children_spec", "children_refines", "children_history", "children_history_sorted",
        "childrenOf_nodup", "mem_childrenOf", "children_nonempty_iff_branch"]],
    "components": [
        {"c": "ct", "quick": {"n": 3000, "exhaustive": True}, "thorough": {"n": 40000, "exhaustive": True, "seeds": 4}},
    ],
    "monitor": "spec",
    "level": "proof",
    "trusted_base": COMMON_TB + ["ctree modelled sequentially (locks ignored; concurrency is C10)"],
    "assumptions": ["stored values are non-nil (the API uses nil as 'absent')",
                    "Leaf.Update is applied to leaf nodes only", "single goroutine"],
    "manifest": {
        "level_text": "Lean 4 theorems: the trie model refines a prefix-free map for every operation sequence (history_refinement) with the single-operation laws (add/query/delete/walkSorted) proved by mutual structural induction; the model is tied to ctree/tree.go by a differential correspondence check (exhaustive small scope + seeded random sequences over the whole exported API). Children (Props/C09Children.lean): after every history, at every path, Get(p).Children() equals the spec's childrenAt of the refined map as a duplicate-free set and as a sorted list (children_history, children_history_sorted); the ct component's `children` operation checks the same on the real code.",
        "level_note": "Trusted: Lean kernel (axioms propext, Quot.sound, Classical.choice only), the hand-written model Model/CTree.lean as validated by the correspondence harness, Go runtime. Assumes non-nil values, single goroutine.",
        "technique": "Lean 4 proof (refinement by mutual structural induction) + model/implementation correspondence",
        "design_ref": "DESIGN.md §8 C09",
    },
}
