from cacheprops import CACHE_TB, CACHE_ASSUMPTIONS, ca_component, MD_COMPONENT, MD_TB, MD_COUNTER_THEOREMS
from c15_latency_part import LAT_PROP

import facts

ID = "C15"
PROP = {
    "modules": ["Gnmi.Props.C15", "Gnmi.Props.C14Meta"],
    "theorems": ["Gnmi.C15." + t for t in [
        "leafcount_truthful", "update_accounting", "empty_accounting", "latest_step",
        "gnmiUpdate1_cnt", "updateCore_cnt"]] + ["Gnmi.Cache.run_sinv"] + MD_COUNTER_THEOREMS,
    "components": [ca_component("", 1500, 20000), MD_COMPONENT],
    "monitor": "spec", "level": "proof",
    "trusted_base": CACHE_TB + MD_TB, "assumptions": CACHE_ASSUMPTIONS,
    "manifest": {
        "level_text": "Lean 4 theorems over the cache model: leafcount_truthful (in every state reachable by any history of notifications and "
                      "lifecycle calls, targetLeaves = number of non-metadata leaves stored = added - deleted), update_accounting (each submitted "
                      "update unit bumps exactly one of updated/suppressed/stale/future or is an error that bumps none), empty_accounting, "
                      "latest_step (latestTimestamp moves only to the max with an accepted, non-metadata notification's timestamp). Tied to the code "
                      "by the ca correspondence observing Metadata() after every step. The counters themselves (metadata.Metadata AddInt/SetInt/"
                      "GetInt/ResetEntry/Clear) are modelled on their own: addInt_sums / getInt_after_setInt / getInt_after_reset (GetInt = value "
                      "established by the last SetInt or reset + the int64 sum of the AddInt calls since, over any history that leaves the "
                      "counter's registration alone), tied to metadata/metadata.go by the md correspondence. Latency and race clauses: see level_note.",
        "level_note": "Trusted: Lean kernel; model validated by the ca correspondence. The latency-window clause and the unsynchronised-access clause "
                      "is decided by " + LAT_PROP["level_text_part"] + " The unsynchronised-access clause is decided by the -race stress step "
                      "and the lockset facts when present in the obligation list of the evidence.",
        "technique": "Lean 4 proof (invariant over all API histories; per-outcome counter laws) + model/implementation correspondence",
    },
}
PROP["modules"] += LAT_PROP["modules"]
PROP["theorems"] += LAT_PROP["theorems"]
PROP["components"] += LAT_PROP["components"]
PROP["trusted_base"] = PROP["trusted_base"] + LAT_PROP["trusted_base"]
PROP["assumptions"] = PROP["assumptions"] + LAT_PROP["assumptions"]
PROP.setdefault("pre", []).append(facts.make_step(['cache.Target.syncts.lockset']))
# round 2 (builder bACC): counters and latest timestamp over whole histories (Props/C15Hist.lean,
# helper lemmas in Lemmas/CacheAccounting.lean)
PROP["modules"] += ["Gnmi.Props.C15Hist"]
PROP["theorems"] += ["Gnmi.C15Hist." + t for t in [
    "unit_accounting", "units_of_shape", "multi_is_fold", "unit_one_bucket", "delete_unit_counted",
    "empty_unit_counted", "history_accounting", "history_buckets", "gnmiUpdate_latest", "maxTs_spec",
    "latest_is_max", "updateMeta_exports_latest", "history_exported_latest",
    "exports_latest_leaf_needs_fresh"]] + ["Gnmi.Acc." + t for t in [
    "gnmiUpdate1_ctr", "gnmiRemove1_ctr", "unit_delta", "multiUpdates_round", "multiDeletes_round",
    "dispatch_multi", "dispatch_ctr", "updateMeta_ctr", "updateMetadata_get", "generateMetaUpdates_leaf"]]
PROP["manifest"]["level_text"] += (
    " Over whole histories (Props/C15Hist.lean): unit_accounting (for a notification of any shape - atomic, single update or delete, "
    "several updates and deletes, empty - the eight counters move by the sum of the deltas of the outcomes of its units, each update unit "
    "landing in exactly one of updated/suppressed/stale/future or in none when it is an error: unit_one_bucket, delete_unit_counted, "
    "empty_unit_counted; multi-update notifications are processed as the fold of dispatch over their units: multiUpdates_round, "
    "multiDeletes_round, dispatch_multi), history_accounting / history_buckets (in every state reachable by any API history on any number "
    "of targets the counters of a target are the sums of these deltas since its last Add/Reset, metadata-refresh writes included), "
    "latest_is_max (Target.ts = maximum timestamp of the accepted non-metadata notifications since Add/Reset, none if there is none) and "
    "updateMeta_exports_latest / history_exported_latest (after updateMeta the metadata object's latestTimestamp is Target.ts, and so is the "
    "stored meta/latestTimestamp leaf unless excluded, blocked or stale - the last condition is necessary: exports_latest_leaf_needs_fresh, "
    "replayed against the code by corpus/C15/hist_client_written_latest_leaf.ops).")

# --- unsynchronised-access clause: lockset obligation over the table regenerated from the source (bCONC)
import gen_lockset          # registers gen_lockset.regen_lockset in vcheck.REGEN_HOOKS (run before the Lean build)
PROP["modules"] += ["Gnmi.GenProps.LocksetCache"]
PROP["theorems"] += ["Gnmi.GenProps.LocksetCache." + t for t in [
    # the clause, decided by the kernel on lean/Gnmi/Gen/LocksetCache.lean
    "cache_lockset_race_free", "cache_lockset_race_free_all", "stream_vs_refresh_race_free",
    "table_well_grouped", "table_race_free_all", "raceFreeG_sound", "raceFree_sound", "raceFree_complete",
    # the table is the one the clause is about
    "table_covers_clause", "extractor_complete", "entry_points_present",
    # the obligation fails on the historical breaks and does not take two RLocks for exclusion
    "d14_shape_race", "d14_shape_rejected", "seed2_shape_race", "seed2_shape_rejected", "rlock_does_not_exclude",
    # lock order, callbacks
    "lock_order", "client_callbacks_outside_target_locks"]]
PROP["pre"].append(gen_lockset.lockset_step)
PROP["trusted_base"] = PROP["trusted_base"] + [
    "lockset: the extractor go/vlockset (go/ast + go/types walk of cache, metadata, latency: must-held mutexes per access incl. defer "
    "stacks run LIFO and callers' mutexes; documented in its header) produces a table that over-approximates the accesses and "
    "under-approximates the mutexes held; mutexes and fields are identified by type, not by object",
]
PROP["assumptions"] = PROP["assumptions"] + [
    "lockset A0: constructors, Option closures and Cache.SetClient run before the object is shared (SetClient: documented "
    "'prior to sending any updates'); A1 (only for cache_lockset_race_free, not for cache_lockset_race_free_all): the target "
    "manager runs one session per target, so two update-stream accesses to ONE target are not concurrent",
    "lockset: one Target owns its Metadata, Latency and windows exclusively (created in Cache.Add, never shared); what other "
    "packages do with the pointers handed out (ctree leaves, client callback, *Metadata beyond its methods) is outside the table",
]
PROP["manifest"]["level_text"] += (
    " Unsynchronised-access clause: Lean 4 theorem cache_lockset_race_free (and the stronger cache_lockset_race_free_all), decided by "
    "the kernel over the access table lean/Gnmi/Gen/LocksetCache.lean that go/vlockset regenerates from cache.go, metadata.go and "
    "latency.go before every Lean build: any two accesses to one struct field, one of them a write, that may run concurrently "
    "(update stream vs UpdateMetadata/UpdateSize, refresh vs refresh, readers of Metadata(), Add/Remove, any other exported entry) "
    "hold a common mutex, at least one of them exclusively; the obligation is shown to fail on the D14 shape and on seeded change "
    "c15_seed2; lock_order: the four mutexes are only ever nested in one order.")
# round 2 (builder bVALEQ4): latency naming / -latency_windows parsing (Model/LatencyNames.lean, Lemmas/LatencyNames.lean,
# Props/C15LatNames.lean); tied to the code by the stateless lt ops dstr / name / pdur / parsew (go/vcorr/lt.go,
# lean/Driver/LT.lean; corpus/C15/lat_names.ops)
PROP["modules"] += ["Gnmi.Model.LatencyNames", "Gnmi.Lemmas.LatencyNames", "Gnmi.Props.C15LatNames"]
PROP["theorems"] += ["Gnmi.C15LatNames." + t for t in [
    # printing and parsing back
    "durationString_roundtrip", "compact_preserves_parse", "compact_roundtrip", "durationString_injective",
    "compactDurationString_injective", "durationString_fits_buffer", "parseDuration_fuel", "parseDuration_int64",
    "parseDuration_sum_wraps", "implDefined_unreachable_partial",
    # names and paths
    "statTypeString_injective", "metaName_split", "metadataName_injective", "metadataName_injective_general",
    "metadataName_unknown_collide", "path_injective",
    # ParseWindows
    "parseWindows_accepts_iff", "parseWindows_rejects_non_multiple", "parseWindows_first_parse_error",
    "parseWindows_first_non_multiple", "parseWindows_zero_period_panics", "parseWindows_zero_period",
    "parseWindows_single", "parseWindows_int64",
    # names of the accepted windows
    "parseWindows_names_distinct", "parseWindows_names_nodup"]] + ["Gnmi.LatNames." + t for t in [
    "formatU_roundtrip", "parseDuration_strip", "roundRNE_exact", "mul_canon", "toU64_canon", "parseLoop_fuel_irrel",
    "parseLoop_ne_outOfFuel", "fmtIntLoop_fuel", "formatU_length_le"]]
PROP["trusted_base"] = PROP["trusted_base"] + [
    "latency naming: Go strings as byte lists; time.Duration.String / time.ParseDuration of the Go standard library modelled "
    "from go1.23.5 src/time (format.go, time.go), float64 as exact IEEE-754 binary64 round-to-nearest-even on non-negative "
    "values (Model/LatencyNames.lean F64); validated against the real functions (lt ops dstr/name/pdur/parsew)",
]
PROP["manifest"]["level_text"] += (
    " Latency naming (Props/C15LatNames.lean, over Model/LatencyNames.lean = CompactDurationString, StatType.String, MetadataName, "
    "Path, ParseWindows and the standard library's Duration.String / ParseDuration with its float64 fraction arithmetic): "
    "compact_roundtrip / durationString_roundtrip (for every int64 duration ParseDuration accepts what CompactDurationString and "
    "Duration.String print and returns the duration; compact_preserves_parse: for any string the suffix surgery does not change "
    "the parse), hence compactDurationString_injective, metadataName_injective and path_injective (no two (window, Avg/Max/Min) "
    "pairs share a metadata name or path), parseWindows_accepts_iff (non-zero period: accepted iff every td parses and every "
    "duration satisfies dur % p == 0 with Go's truncated remainder, result = the parsed durations in order; first error wins), "
    "parseWindows_zero_period_panics (period 0: integer divide by zero as soon as a td parses), parseWindows_names_nodup "
    "(pairwise different accepted windows give pairwise different metadata names); tied to the code by the lt ops "
    "dstr / name / pdur / parsew.")

# round 2 (builder bCACHEX): the cache with its latency object and UpdateSize wired in (Model/CacheX.lean):
# ca profile c15 creates caches WithLatencyWindows / WithAvgLatencyPrecision, scripts latency.Now with the
# same clock as cache.Now, sends the json sizes of the messages on the op line and calls UpdateSize
PROP["components"] += [ca_component("c15", 1500, 20000)]
PROP["modules"] += ["Gnmi.Model.CacheX", "Gnmi.Lemmas.CacheX", "Gnmi.Lemmas.CacheXState", "Gnmi.Props.C15Wire",
                    "Gnmi.Props.C15Size"]
PROP["theorems"] += ["Gnmi.C15Wire." + t for t in [
    # one gnmiUpdate: where Compute is reached
    "compute_sites", "metadata_updates_never_sampled", "no_latency_before_sync",
    "rejected_or_suppressed_not_sampled", "accepted_synced_sampled",
    # one notification
    "unitSample_spec", "notification_samples", "internal_notifications_not_sampled",
    "unsynced_notification_no_samples", "two_update_sync_then_data",
    # histories
    "latency_samples_exact", "step_agreeLat", "hist0_valid", "hist0_ledger",
    # what a refresh exports
    "latency_exported_at_refresh", "updateMetadata_exports", "refresh_exports_bounded", "latency_leaf_value",
    "latPath_injective", "latPath_ne_builtin"]] + [
    "Gnmi.C15Size." + t for t in [
    "updateSize_sum", "updateSize_sum_split", "updateSize_frame", "updateSize_ctr", "updateSize_other_values",
    "updateSize_getInt", "updateSize_all", "updateSize_not_exported_until_refresh",
    "history_accountingX", "history_leafcountX", "step_agreeX", "unitsSinceX_nowin", "histS_sizes"]] + [
    "Gnmi.Cache." + t for t in [
    # the wired functions compute, on the Target, what Model/Cache.lean's functions compute
    "updateCoreX_base", "updateCoreX_lat", "gnmiUpdate1X_base", "gnmiUpdate1X_lat", "multiUpdatesX_base",
    "multiUpdatesX_lat", "dispatchX_base", "dispatchX_lat", "gnmiUpdateX_base", "gnmiUpdateX_lat",
    "updateMetaX_nowin", "resetX_nowin", "stepX_s", "runX_lift", "stepX_inv", "runX_inv",
    "updateMetaX_ok", "updateMetaX_ctr", "resetX_ok", "resetX_lat", "updateMetadataX_get", "query_glob_all"]]
PROP["trusted_base"] = PROP["trusted_base"] + [
    "wired cache lean/Gnmi/Model/CacheX.lean: cache.Now and latency.Now are read from one scripted clock; the latency "
    "entries of generateMetaUpdates' TargetIntValues loop are visited after the string values (Go's map order is "
    "unspecified; the steps write different leaves and only add to counters; refresh events are compared as a set); "
    "the size of a stored notification is a parameter (Env.sizeOf) that the driver instantiates with the length of the "
    "encoding/json rendering: struct framing of pb.Notification computed in Driver/CA.lean (jsonSize), the lengths of "
    "the prefix / update messages of client notifications taken from json.Marshal by the generator (op line), those of "
    "the cache's own metaNoti messages computed in the driver (jsonTargetPrefix / jsonMetaUpdate)",
]
PROP["manifest"]["level_text"] += (
    " Latency wiring and UpdateSize (Model/CacheX.lean = the cache model with Target.lat, the two Compute sites of "
    "gnmiUpdate, UpdateReset in updateMeta, the meta/latency/window/<w>/<stat> leaves of generateMetaUpdates and "
    "Cache.UpdateSize wired in, proved to compute on the Target exactly what Model/Cache.lean computes: *_base, stepX_s, "
    "runX_lift): compute_sites (gnmiUpdate reaches Compute iff the update is real data, the target is in sync and a "
    "leaf is returned - not for metadata-addressed, pre-sync, rejected, stale, future or suppressed updates: "
    "metadata_updates_never_sampled, no_latency_before_sync, rejected_or_suppressed_not_sampled), notification_samples "
    "(any notification shape: one Compute per sampled unit, the sync flag read unit by unit), latency_samples_exact "
    "(for every history of updates, Add/Remove/Reset/Sync/Connect/ConnectError/UpdateMetadata/UpdateSize on any number "
    "of targets, any windows and precision, the latency object of a target is the latency model run on: one "
    "Compute(now - ts) per accepted non-metadata unit processed while in sync since Add, one UpdateReset per "
    "UpdateMetadata/Reset, nothing else), latency_exported_at_refresh / refresh_exports_bounded (what a refresh adds to "
    "the metadata object is UpdateReset's output on those samples, hence - latency_bounds - bounded by the latencies "
    "of the accepted post-sync updates the window covers), latency_leaf_value (the leaf written carries that value); "
    "updateSize_sum (targetSize = sum of the sizes of ALL stored leaves, metadata leaves included), updateSize_frame "
    "(nothing else changes), history_accountingX / history_leafcountX (the counter accounting and the leaf count of "
    "C15Hist / C15 over histories that also contain UpdateSize, for caches with any latency windows). Tied to "
    "cache/cache.go by the ca correspondence, profile c15 (WithLatencyWindows / WithAvgLatencyPrecision caches, "
    "latency.Now on the scripted clock, op updsize, corpus/C15/latency_only_post_sync_accepted.ops).")
# round 2 (builder bCACHEX, follow-up): the latency leaves of a refresh over the whole loop (Props/C15WireLeaves.lean)
PROP["modules"] += ["Gnmi.Props.C15WireLeaves"]
PROP["theorems"] += ["Gnmi.C15Wire." + t for t in [
    "latency_leaves_exported", "updateMetadata_leaves_exported", "latency_leaves_bounded",
    "generateMetaUpdates_keepsK", "genLatOne_other", "latPath_unrelated", "latPath_key_inj", "mem_latKeys",
    "latKeys_nodup", "exported_append_some", "exported_mem",
    "refresh_outside_latency_agrees", "data_outside_latency", "runX_data_agrees_nowin"]]
PROP["manifest"]["level_text"] += (
    " Whole refresh (Props/C15WireLeaves.lean): latency_leaves_exported (after updateMeta, for every configured window w "
    "and statistic st whose metadata entry is set to v and whose name is not excluded, the leaf "
    "meta/latency/window/<w>/<st> holds the integer v, provided nothing is stored above or below that path, a leaf "
    "already there is older than the clock, and CompactDurationString separates the windows; the other steps of the "
    "refresh do not touch it), latency_leaves_bounded (after any history, every latency leaf value the next "
    "UpdateMetadata writes is bounded by the samples of the accepted post-sync updates its window covers), "
    "refresh_outside_latency_agrees (a refresh of a cache with windows leaves every path outside the latency paths - "
    "every data leaf -, the sync flag and the latest timestamp as Model/Cache.lean's refresh does); the history form "
    "runX_data_agrees is stated as a Prop and proved only without windows (runX_data_agrees_nowin).")
# round 3 (builder bCX3): two runs that agree on the data leaves keep agreeing (Props/C15Agree.lean)
PROP["modules"] += ["Gnmi.Props.C15Agree"]
PROP["theorems"] += ["Gnmi.C15Wire." + t for t in [
    "refresh_agreeOutside", "updateCore_congr", "gnmiUpdate1_congr", "multiUpdates_congr", "removeCore_congr",
    "gnmiRemove1_congr", "multiDeletes_congr", "dispatch_congr", "checkTimestamp_congr", "gnmiUpdate_congr",
    "updateCore_meta_agree", "gnmiUpdate1_metaKey_agree", "genMetaOne_agree", "genLatOne_agree",
    "generateMetaUpdates_agree", "updateMeta_agree", "updateMetaX_agree", "refresh_agreeData",
    "gnmiUpdate_metaNoti_agree", "roots_data", "reset_congr", "resetXX_congr", "stepX_agree", "runX_agree",
    "runX_data_agrees_partial", "histMeta_valid", "histMeta_not_outside", "histMeta_latest_differs",
    "histMeta_disagrees", "runX_data_agrees_false"]]
PROP["manifest"]["level_text"] += (
    " Data agreement of the wired cache (Props/C15Agree.lean): AgreeData (two targets have the same data leaves - keys "
    "whose first element is not meta, in storage order -, the same latest timestamp and name; sync flag, counters, "
    "metadata values and meta/ leaves may differ) is preserved by every function of Model/Cache.lean run from two "
    "related targets on the same input: updateCore_congr / gnmiUpdate1_congr / multiUpdates_congr / dispatch_congr / "
    "gnmiUpdate_congr (updates stored under data keys: same result class, same returned leaf, same updateTS flag), "
    "removeCore_congr / gnmiRemove1_congr / multiDeletes_congr (deletes of any shape, wildcards and deletes under meta "
    "included), updateMeta_agree / updateMetaX_agree / refresh_agreeData (a refresh, with or without latency windows, "
    "touches no data leaf, latest or name), reset_congr (Reset deletes the same roots), gnmiUpdate_metaNoti_agree "
    "(Sync / Connect / ConnectError); stepX_agree, runX_agree (one call, a history, on two wired caches with any two "
    "window configurations); runX_data_agrees_partial (along every history from the empty cache whose client updates "
    "are not addressed under meta/ - HistOutside -, for any latency windows, every target of the wired run has the data "
    "leaves and the latest timestamp State.run computes, and the same names are registered). The unrestricted "
    "Prop runX_data_agrees is false (runX_data_agrees_false; decided witness histMeta_latest_differs: a target that writes "
    "meta/latency/window/<w>/max itself after a refresh is answered stale with the window and added without, which "
    "changes updateTS and the latest timestamp), so a restriction on client updates under meta/ is necessary; not "
    "covered by the restricted theorem: the sync-flag clause (a refresh re-derives Target.sync from the metadata value "
    "and the meta/sync leaf, which AgreeData does not track).")
