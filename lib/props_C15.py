from cacheprops import CACHE_TB, CACHE_ASSUMPTIONS, ca_component, MD_COMPONENT, MD_TB, MD_COUNTER_THEOREMS
from c15_latency_part import LAT_PROP

import facts

ID = "C15"
PROP = {
    "modules": ["Gnmi.Props.C15", "Gnmi.Props.C14Meta"],
    "theorems": ["Gnmi.C15." + t for t in [
        "leafcount_truthful", "update_accounting", "empty_accounting", "latest_step",
        "gnmiUpdate1_cnt", "updateCore_cnt"]] + ["Gnmi.Cache.run_sinv"] + MD_COUNTER_THEOREMS,
    "components": [ca_component("", 1500, 20000), MD_COMPONENT],
    "monitor": "spec", "level": "proof",
    "trusted_base": CACHE_TB + MD_TB, "assumptions": CACHE_ASSUMPTIONS,
    "manifest": {
        "level_text": "Lean 4 theorems over the cache model: leafcount_truthful (in every state reachable by any history of notifications and "
                      "lifecycle calls, targetLeaves = number of non-metadata leaves stored = added - deleted), update_accounting (each submitted "
                      "update unit bumps exactly one of updated/suppressed/stale/future or is an error that bumps none), empty_accounting, "
                      "latest_step (latestTimestamp moves only to the max with an accepted, non-metadata notification's timestamp). Tied to the code "
                      "by the ca correspondence observing Metadata() after every step. The counters themselves (metadata.Metadata AddInt/SetInt/"
                      "GetInt/ResetEntry/Clear) are modelled on their own: addInt_sums / getInt_after_setInt / getInt_after_reset (GetInt = value "
                      "established by the last SetInt or reset + the int64 sum of the AddInt calls since, over any history that leaves the "
                      "counter's registration alone), tied to metadata/metadata.go by the md correspondence. Latency and race clauses: see level_note.",
        "level_note": "Trusted: Lean kernel; model validated by the ca correspondence. The latency-window clause and the unsynchronised-access clause "
                      "is decided by " + LAT_PROP["level_text_part"] + " The unsynchronised-access clause is decided by the -race stress step "
                      "and the lockset facts when present in the obligation list of the evidence.",
        "technique": "Lean 4 proof (invariant over all API histories; per-outcome counter laws) + model/implementation correspondence",
    },
}
PROP["modules"] += LAT_PROP["modules"]
PROP["theorems"] += LAT_PROP["theorems"]
PROP["components"] += LAT_PROP["components"]
PROP["trusted_base"] = PROP["trusted_base"] + LAT_PROP["trusted_base"]
PROP["assumptions"] = PROP["assumptions"] + LAT_PROP["assumptions"]
PROP.setdefault("pre", []).append(facts.make_step(['cache.Target.syncts.lockset']))
