from subprops import SUB_TB, SUB_ASSUMPTIONS, su_component
from props_C04 import LTS_TB
import facts

ID = "C08"
PROP = {
    "modules": ["Gnmi.Props.C08"],
    "theorems": ["Gnmi.C08." + t for t in [
        "writer_independent_of_senders", "writer_enabled_iff", "others_progress", "own_steps_invisible", "others_run_without",
        "backlog_bound", "timer_armed_only_in_send", "expire_enabled_iff", "stalled_send_terminates", "ended_stays_silent",
        "pending_dups_exact", "resume_newest_with_dups"]],
    "pre": [facts.make_step(["subscribe.feed.calls", "coalesce.Insert.blocking", "subscribe.send.aclBeforeSend",
                             "subscribe.timer.stoppedAtCreation", "subscribe.sender.loop"])],
    "components": [su_component("c08", 300, 3000),
                   # coalesce.go is anchored here too: the queue under its window hooks (C11 is its own property)
                   {"c": "co", "quick": {"n": 1500}, "thorough": {"n": 8000, "seeds": 2}}],
    "monitor": "spec", "level": "proof",
    "trusted_base": SUB_TB + LTS_TB, "assumptions": SUB_ASSUMPTIONS,
    "manifest": {
        "level_text": "Lean 4 theorems about the Subscribe protocol LTS over all interleavings: writer_independent_of_senders (no writer step has "
                      "a guard on any sender or gate state; enabledness and effect on the cache and on other subscribers are invariant under "
                      "blocking one subscriber's sender forever), others_progress, backlog_bound (queue length <= distinct pending handles + pending "
                      "delete items + 1), timer_armed_only_in_send / stalled_send_terminates (expiry enabled exactly while a send is pending and "
                      "ends the RPC with an error), resume_newest_with_dups (after a stall each pending handle is delivered once with its newest "
                      "value and a dup count equal to the notifications coalesced into it). Partial: actual latencies and the Go scheduler are "
                      "outside the model; tied to the code by facts (the feed callback only calls Queue.Insert, Insert never blocks, timer armed "
                      "only around Send) and the su correspondence with gated in-memory streams (stalls, expiry with a shortened timeout, resumed "
                      "subscribers: conserved insert counts and newest values compared with the model).",
        "level_note": "Trusted: Lean kernel; the LTS as a description of the code (facts + gated-stream correspondence). Wall-clock behaviour is observed, not proved.",
        "technique": "Lean 4 proof (LTS enabledness and invariants over all interleavings) + regenerated source facts + gated-stream correspondence on the real Subscribe server",
    },
}
