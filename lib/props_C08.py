from subprops import SUB_TB, SUB_ASSUMPTIONS, su_component
from props_C04 import LTS_TB
import facts

ID = "C08"
PROP = {
    "modules": ["Gnmi.Props.C08"],
    "theorems": ["Gnmi.C08." + t for t in [
        "writer_independent_of_senders", "writer_enabled_iff", "others_progress", "own_steps_invisible", "others_run_without",
        "backlog_bound", "timer_armed_only_in_send", "expire_enabled_iff", "stalled_send_terminates", "ended_stays_silent",
        "pending_dups_exact", "resume_newest_with_dups",
        # bLTSFIX: the timer is armed around the Send of the sync marker too (repair of D24 followed by the LTS)
        "timer_off_outside_send", "stalled_marker_send_terminates", "stall_persists"]],
    "pre": [facts.make_step(["subscribe.feed.calls", "coalesce.Insert.blocking", "subscribe.send.aclBeforeSend",
                             "subscribe.timer.stoppedAtCreation", "subscribe.sender.loop"])],
    "components": [su_component("c08", 300, 3000),
                   # coalesce.go is anchored here too: the queue under its window hooks (C11 is its own property)
                   {"c": "co", "quick": {"n": 1500}, "thorough": {"n": 8000, "seeds": 2}}],
    "monitor": "spec", "level": "proof",
    "trusted_base": SUB_TB + LTS_TB, "assumptions": SUB_ASSUMPTIONS,
    "manifest": {
        "level_text": "Lean 4 theorems about the Subscribe protocol LTS over all interleavings: writer_independent_of_senders (no writer step has "
                      "a guard on any sender or gate state; enabledness and effect on the cache and on other subscribers are invariant under "
                      "blocking one subscriber's sender forever), others_progress, backlog_bound (queue length <= distinct pending handles + pending "
                      "delete items + 1), timer_armed_only_in_send / stalled_send_terminates (expiry enabled exactly while a send is pending and "
                      "ends the RPC with an error), resume_newest_with_dups (after a stall each pending handle is delivered once with its newest "
                      "value and a dup count equal to the notifications coalesced into it). Partial: actual latencies and the Go scheduler are "
                      "outside the model; tied to the code by facts (the feed callback only calls Queue.Insert, Insert never blocks, timer armed "
                      "only around Send) and the su correspondence with gated in-memory streams (stalls, expiry with a shortened timeout, resumed "
                      "subscribers: conserved insert counts and newest values compared with the model). The LTS follows the repair of "
                      "D24: the timer is armed exactly while a Send is pending, of a data response (sending) or of the sync marker "
                      "(sendSync) — timer_armed_only_in_send, timer_off_outside_send; stalled_send_terminates / "
                      "stalled_marker_send_terminates cover a client that stops reading before the sync marker; stall_persists: a gated "
                      "pending Send stays pending, armed and silent under every step of the system except the subscriber's own expire, "
                      "cancel, eof or gateOpen.",
        "level_note": "Trusted: Lean kernel; the LTS as a description of the code (facts + gated-stream correspondence). Wall-clock behaviour is observed, not proved.",
        "technique": "Lean 4 proof (LTS enabledness and invariants over all interleavings) + regenerated source facts + gated-stream correspondence on the real Subscribe server",
    },
}

# C08 over the sequential, code-shaped Subscribe model (Props/C08Seq.lean): docs/STREAM_SEQ_NOTES.md,
# "Backlog and duplicates (C08Seq)".  The C04Seq/C04Gate chain it rests on is listed for the audit imports.
from c04seq_part import MODULES as _SEQ_MODULES
PROP["modules"] += [m for m in _SEQ_MODULES if m != "Gnmi.Props.C04Atomic"] + [
    "Gnmi.Lemmas.SubscribeBacklog", "Gnmi.Props.C08Seq"]
PROP["theorems"] += ["Gnmi.C08Seq." + t for t in [
    # (1) backlog bounded by the distinct pending leaves; (2) duplicate counts; (3) resuming; (4) others unaffected
    "backlog_bound_seq", "backlog_written_seq",
    "pending_dups_feed", "pending_dups_seq",
    "resume_newest_seq", "resume_exactly_one",
    "gstep_pointwise", "feed_pointwise", "grun_cache", "grun_at", "gate_ops_local", "stall_noninterference",
    "others_unaffected_seq",
    # non-vacuity: a stalled subscriber, k = 3 writes of one leaf and one of another, gateOpen
    "histS_ok", "histS_noStar", "histSeg_ok", "histSeg_noStar", "histOpen_ok", "histOpen_noStar",
    "histS_views", "histSeg_views", "histOpen_views", "histS_s1", "histSeg_dups", "histSeg_backlog",
    "histOpen_resume", "histOpen_others", "seg2_ops",
    # what the naive reading of "exactly one update response per pending leaf" misses: the response in flight, and a
    # leaf deleted and re-created while pending (detached handle, delete item, new handle)
    "inflight_same_leaf_witness", "histD_ok", "histD_noStar", "detached_same_leaf_witness",
    "subRun_seg_blocked",
]] + ["Gnmi.SubBacklog." + t for t in [
    "hkeys_nodup", "mem_cacheLeaves", "coverSafe_of_pw", "coverSafe_qstep", "coverSafe_refresh",
    "entriesFor_qstep", "qfold_entries", "bump_fold_one", "bump_fold_nil", "refreshQueue_skel", "dupsFor_refresh",
    "feedSub_blocked", "pump_queue_suffix", "gateF_open_out", "subscribe_append", "hkeys_feedSub",
]]
PROP["manifest"]["level_text"] += (
    " In addition, over the sequential code-shaped model that the su correspondence drives (Model/Subscribe.lean), for every history of "
    "subscriptions, cache API calls and gateShut/gateStep/gateOpen operations (OkRun side conditions of C03, no target literally named '*'): "
    "backlog_bound_seq / backlog_written_seq (no two queued handle entries for one leaf; every handle entry shows the cache's current "
    "notification of a leaf a registration is compatible with; handle entries <= such leaves, and <= distinct leaves written since the queue "
    "was last empty), pending_dups_feed / pending_dups_seq (the entry's duplicate count = offered updates of the leaf since it was created, "
    "minus one), resume_newest_seq / resume_exactly_one (at gateOpen: the held response, then exactly one response per queue entry in order; a "
    "handle's response carries the cache's current notification and the entry's count; no other update response for that leaf unless a "
    "detached one precedes a delete), gstep_pointwise / stall_noninterference (every operation acts on each subscriber as a function of the "
    "cache and that subscriber alone; erasing all flow-control operations of one subscriber from a history leaves the cache and every other "
    "subscriber exactly the same).")
# C08 clause (d) "terminated with an error after the timeout" over the sequential model (Props/C08Expire.lean), for every history
# of SubEnd.Op operations (all of C07.Op + cache API calls + pregate), no side condition.
PROP["modules"] += ["Gnmi.Lemmas.SubscribeEnd", "Gnmi.Props.C08Expire"]
PROP["theorems"] += ["Gnmi.C08Expire." + t for t in [
    "expire_pointwise", "blocked_only_while_gated", "expire_terminates", "expire_terminates_fields",
    "stall_persists", "stalled_until_expire", "dead_stays_silent", "expired_stays_silent",
    "expire_noninterference", "expire_only_blocked",
    # non-vacuity; a half-close while a response is held drops it (Sub.eof repaired; corpus/C05/eof_with_response_held.ops)
    "st0_reachable", "st0_subs", "st0_after_expire", "eof_while_blocked_witness", "eof_stays_silent",
]] + ["Gnmi.SubEnd." + t for t in [
    "pump_frame", "pump_quiet", "subscribe_inv", "step_pointwise", "step_at", "run_at", "run_inv", "reachable_inv",
    "subStep_dead", "subRun_dead", "subStep_blocked", "expireF_blocked", "expireF_other",
]]
PROP["manifest"]["level_text"] += (
    " The timeout clause over the same sequential model (Props/C08Expire.lean), for every history of subscriptions, cache calls, feed events, "
    "polls, EOF, flow-control operations, timeouts and drains (no side condition): blocked_only_while_gated / expire_terminates (a running "
    "subscriber holding a response it cannot send is ended by expire: not running, error status 'unknown', out unchanged), stall_persists / "
    "stalled_until_expire (until the timeout or an operation of its own client or flow control it stays inside Send, holding the same response, "
    "and is sent nothing), dead_stays_silent / expired_stays_silent (a subscriber that is not running and holds no response is never sent "
    "anything again and never changes status, whatever follows; eof_stays_silent: in particular a POLL subscriber after its half-close, "
    "also when its sender was inside a gated Send — the held response is dropped with the stream, as on the real server), expire_noninterference / expire_only_blocked (expire changes neither the cache "
    "nor any subscriber that is not itself running and inside Send; in the model expire is the timeout of every sender that is inside Send).")
# bEXP: (ii) without the side condition — the reachable-state invariant "a subscriber that is not running holds no response"
# (every operation that sets alive := false leaves blocked = none; the failed walk, the only one that does not clear it, happens
# only at Subscribe, never at a poll: walk_isSome_congr) and dead_stays_silent_any, formerly kept as `def … : Prop`, as a theorem.
PROP["theorems"] += ["Gnmi.C08Expire." + t for t in [
    "walk_isSome_congr", "pump_clean", "dinv_subStep", "subscribe_dinv", "step_dinv", "run_dinv",
    "dead_holds_nothing_reach", "dead_stays_silent_any", "dead_stays_silent_reach", "poll_while_blocked_witness",
]]
PROP["manifest"]["level_text"] += (
    " dead_holds_nothing_reach: in every reachable state of that model a subscriber that is not running holds no response (the sender ends "
    "one only while it holds nothing, gateOpen / gateStep deliver the held response first, eof and expire drop it, and a walk cannot fail at "
    "a poll because it did not fail at Subscribe — walk_isSome_congr); hence dead_stays_silent_any / dead_stays_silent_reach: every "
    "subscriber that is not running, of every reachable state, is never sent anything again, without the side condition 'holds no response'.")
