from cacheprops import CACHE_TB, CACHE_ASSUMPTIONS

ID = "C08"
PROP = {
    "unclaimed": True,
    "modules": [], "theorems": [],
    "components": [{"c": "su", "label": "su-c08", "gen_args": ["-profile", "c08"], "quick": {"n": 300}, "thorough": {"n": 3000, "seeds": 3}}],
    "monitor": "spec", "level": "proof",
    "trusted_base": CACHE_TB, "assumptions": CACHE_ASSUMPTIONS,
    "manifest": {"level_text": "", "level_note": "", "technique": ""},
}
