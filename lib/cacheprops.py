"""Shared pieces of the five properties decided on the cache model (C02, C03, C12, C14, C15)."""
from props import COMMON_TB

CACHE_TB = COMMON_TB + [
    "cache model lean/Gnmi/Model/Cache.lean over the abstract prefix-free map (justified by C09 history_refinement); "
    "proto.Equal is represented by canonical renderings of prefix/update/delete messages computed by the harness",
    "latency windows and UpdateSize are modelled beside the cache model in Model/CacheX.lean (proved conservative over Model/Cache.lean; used by C15), not inside it",
]

CACHE_ASSUMPTIONS = [
    "targets are registered under non-empty names (Op.valid); notifications reach a target through Cache.GnmiUpdate (prefix target = target name)",
    "per-target writers are serialised (the correspondence drives the cache from one goroutine; concurrency is C04/C10/C15-race)",
    "generator restrictions (stated in DESIGN C03/C14): the first index element is non-empty, stored paths hold no element literally named '*', "
    "metadata-addressed updates from a target are not stamped in the future, the scripted clock is non-decreasing",
]


def ca_component(profile, nq=1500, nt=20000):
    c = {"c": "ca", "quick": {"n": nq}, "thorough": {"n": nt, "seeds": 4}}
    if profile:
        c["gen_args"] = ["-profile", profile]
        c["label"] = "ca-" + profile
    return c


# the metadata package on its own (metadata/metadata.go <-> lean/Gnmi/Model/Metadata.lean): exhaustive small scope +
# seeded random histories over the whole exported API, registries included
MD_COMPONENT = {"c": "md", "quick": {"n": 600, "exhaustive": True},
                "thorough": {"n": 20000, "exhaustive": True, "seeds": 4}}
MD_TB = [
    "metadata model lean/Gnmi/Model/Metadata.lean (Go maps as association lists, results up to key order; int64 = Lean Int64; "
    "the mutex and the zero-value Metadata{} are not modelled), validated by the md correspondence, which reads the raw value "
    "maps through go/pkg_metadata/zz_verif_export.go",
]
# counters of the metadata object: GetInt = value established by the last SetInt / reset + sum of the AddInt calls since
MD_COUNTER_THEOREMS = ["Gnmi.C14Meta." + t for t in [
    "addInt_sums", "getInt_after_setInt", "getInt_after_reset", "getInt_after_delete", "get_unregistered", "set_unregistered"]]
