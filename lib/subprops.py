"""Shared pieces of the properties decided on the Subscribe models (C04, C05, C07, C08)."""
from cacheprops import CACHE_TB, CACHE_ASSUMPTIONS

SUB_TB = CACHE_TB + [
    "sequential model of subscribe.Server lean/Gnmi/Model/Subscribe.lean (request validation, ACL checks, registration paths, walk, "
    "sync placement, response building, gate/timeout) tied to subscribe/subscribe.go by the su correspondence: the real Server driven "
    "through an in-memory stream in quiescent schedules (goroutine-stack based quiescence detection), with cache writes placed in the "
    "registration/walk window through the verif schedule points subscribe.walk.start / subscribe.walk.end",
    "observations are canonical modulo the coalescing freedom: per key, consecutive update responses collapse to the last one; dup "
    "counts are compared (as conserved insert counts) only for entries queued while a gate was shut",
]

SUB_ASSUMPTIONS = CACHE_ASSUMPTIONS + [
    "su generator: clean data paths (no element named '*' or 'meta' inside data paths), atomic containers never share an index with a plain leaf, "
    "no poll/EOF on a subscriber whose sends are gated (a re-walk under a shut gate races with the sender taking the first entry)",
    "a walk returns a consistent snapshot (C10 query_stability) and offered = compatible, once per notification (C06)",
]


def su_component(profile, nq=350, nt=4000):
    c = {"c": "su", "quick": {"n": nq}, "thorough": {"n": nt, "seeds": 3}}
    if profile:
        c["gen_args"] = ["-profile", profile]
        c["label"] = "su-" + profile
    return c
