"""C04 clause (d) in trace ("event") form and the full updates_only statement, over the *sequential* code-shaped
Subscribe model (Model/Subscribe.lean), for the GOp histories of C04Gate/C04Sync (and their XOp extension with poll
trigger / half-close / send timeout) and BOTH values of updates_only.
Props/C04UpdatesOnly.lean, lemmas Lemmas/SubscribeOffered.lean.  Merge into lib/props_C04.py:

    from c04uo_part import MODULES, THEOREMS, LEVEL_TEXT
    PROP["modules"] += MODULES; PROP["theorems"] += THEOREMS; PROP["manifest"]["level_text"] += LEVEL_TEXT

lean/Gnmi.lean must import Gnmi.Lemmas.SubscribeOffered and Gnmi.Props.C04UpdatesOnly.
"""

MODULES = [
    "Gnmi.Lemmas.SubscribeOffered",
    "Gnmi.Props.C04UpdatesOnly",
]

THEOREMS = ["Gnmi.C04UO." + t for t in [
    # (d) trace form: every event offered since registration is accounted for (either value of updates_only)
    "every_offered_event_accounted", "update_event_accounted", "queued_is_newest", "accounted_of_inv",
    # the full updates_only statement of C04Sync (there a Prop), no hypothesis on CompletePath
    "updates_only_converges_full", "updates_only_converges_pending", "updates_only_event_form_pending",
    "updates_only_converges_open", "tracked_drained",
    # the event form for a subscriber that asked for the snapshot
    "stream_event_form",
    # following one subscriber: shadow invariant + ghost invariant
    "trackJ", "tracked_inv", "emitsIn_of_split", "emitsIn_of_emitted", "emitsIn_of_emittedUpd",
    # histories with poll trigger / half-close / send timeout
    "xstep_inv", "xrun_inv", "xokRun_split", "xsubF_same", "xtrackJ", "xtracked_inv",
    "every_offered_event_accounted_all_ops", "updates_only_converges_all_ops",
    # non-vacuity: A -> B -> A; a request CompletePath rejects; the same with poll / timeout / half-close in between
    "histA_ok", "histA_noStar", "histA_emitted", "histA_views", "histA_converged",
    "histX_ok", "histX_noStar", "histX_views", "histXA_views",
]] + ["Gnmi.SubOff." + t for t in [
    # the ghost invariant on the queue: one event, one operation, refreshQueue
    "atKey_decides", "atKey_not_denied", "upd_inserted", "upd_keeps", "del_keeps", "qstep_J", "qfold_J", "refresh_J",
    # the subscriber: pend is invariant under the sender and flow control; one cache operation
    "js_iff_jq", "pend_pumpAll", "pend_gateF", "pend_stepF", "gateF_JS", "stepF_JS", "feedSub_JS",
    # requests CompletePath rejects: the shadow carries the snapshot of a normalised request
    "regQueries_norm", "completePath_norm", "ginv_setReq", "uinv_init_any", "shadow_nil", "uinv_plain",
]]

LEVEL_TEXT = (
    " The trace (event) form of 'every change arrives' over the same code-shaped model (Props/C04UpdatesOnly.lean), for every "
    "history of Subscribe calls, cache API calls and flow-control operations (…_all_ops: also poll triggers, half-closes and send "
    "timeouts) and BOTH values of updates_only: every_offered_event_accounted (if since the Subscribe call some cache operation "
    "emitted an event deciding an allowed matched key — an update of that leaf, an atomic update above it, a delete covering it — "
    "then, unless the RPC has ended, what the subscriber was sent, the held response and what its queue stands for replay at that "
    "key to what the cache holds now, and a response deciding the key is among them or the cache holds nothing there), "
    "update_event_accounted (an update of a leaf always leaves a response for that leaf: coalescing, freezing, re-reading and flow "
    "control keep the leaf), queued_is_newest, stream_event_form (updates_only = false, gate open: view = cache on the allowed "
    "matched keys, nothing else, every update event has its response in what was sent), and updates_only_converges_full — the "
    "statement C04Sync kept as a Prop, now proved: no hypothesis on CompletePath (a request with an origin in prefix and path is "
    "accepted under updates_only and is covered through the snapshot of a normalised request with the same registration) and keys "
    "rewritten to their registration-time value (A → B → A: histA_converged) are reflected. Ghost machinery: "
    "Lemmas/SubscribeOffered.lean (invariant JS: a response for the leaf is pending or the cache holds nothing there; established "
    "by any deciding event, kept by enqueue/coalesce/freeze/refresh/sender/gate).")
