"""Extra steps of the C01 check (see lib/props_C01.py).

process_level: the tie nobody else provides — the BUILT cmd/gnmi_collector and cmd/gnmi_cli of
the working tree, driven by go/ve2e against in-process TLS targets on loopback ports; what the
CLI prints (three equivalent invocations per target) and what a client-library STREAM client
holds are compared with the expected tree the Lean model (driver component `e2e`) computes for
the same scenario (the CLI's output with the model's displayed tree, op `e2e cli`: the leaves of the
pathmap `cli.displayWalk` builds; the STREAM client with the model's client leaves, op `e2e new`).  Scenarios: corpus/C01/proc_*.ops (always) + seeded generation (`vcorr gen -c
e2e -profile proc`, thorough tier), restricted to scenarios inside the hypotheses of
C01.pipeline_faithful (driver op `e2e wf`).

facts_step: three source facts the model encodes (collector.add registers the target with the
cache; executeSubscribe parses the text protoRequestFromFlags returned; the Update closure writes
prefix.Target and defaults prefix.Origin) checked by pattern on the current source.
"""
import glob, json, os, re, subprocess
import vcheck


# ---------------------------------------------------------------- source facts

FACTS = {
    "collector.add.calls cache.Add": (
        "cmd/gnmi_collector/gnmi_collector.go",
        r"func \(c \*collector\) add\(.*?\n}\n", r"c\.cache\.Add\(id\)",
        "Pipeline.Coll.add: `cache := c.cache.add id` before the manager learns the target"),
    "gnmi_cli.executeSubscribe.parses the loaded text": (
        "cmd/gnmi_cli/gnmi_cli.go",
        r"func executeSubscribe\(.*?\n}\n", r"cli\.ParseSubscribeProto\(s\)",
        "Pipeline.executeSubscribe: `parse s` (s = protoRequestFromFlags), not `parse a.proto`"),
    "collector.update.stamps target": (
        "cmd/gnmi_collector/gnmi_collector.go",
        r"Update: func\(target string, v \*gnmipb\.Notification\) \{.*?\n\t\t\},\n", r"prefix\.Target = target",
        "Pipeline.stampTarget: target := the configured name (prefix present)"),
    "collector.update.stamps target on a nil prefix": (
        "cmd/gnmi_collector/gnmi_collector.go",
        r"Update: func\(target string, v \*gnmipb\.Notification\) \{.*?\n\t\t\},\n",
        r"v\.Prefix = &gnmipb\.Path\{Origin: \"openconfig\", Target: target\}",
        "Pipeline.stampTarget: prefixNil arm"),
    "collector.update.defaults origin": (
        "cmd/gnmi_collector/gnmi_collector.go",
        r"Update: func\(target string, v \*gnmipb\.Notification\) \{.*?\n\t\t\},\n",
        r"if prefix\.Origin == \"\" \{\s*prefix\.Origin = \"openconfig\"",
        "Pipeline.stampTarget: origin := openconfig when empty"),
    "collector.update.feeds cache.GnmiUpdate": (
        "cmd/gnmi_collector/gnmi_collector.go",
        r"Update: func\(target string, v \*gnmipb\.Notification\) \{.*?\n\t\t\},\n", r"c\.cache\.GnmiUpdate\(v\)",
        "Pipeline.updateClosure"),
    "collector wires Sync/Connect/Reset to the cache": (
        "cmd/gnmi_collector/gnmi_collector.go",
        r"manager\.NewManager\(manager\.Config\{.*?\n\t\}\)", r"Reset:\s+c\.cache\.Reset,\s+Sync:\s+c\.cache\.Sync,\s+Connect:\s+c\.cache\.Connect,",
        "Pipeline.callback / Sys.connect"),
    "collector forwards the feed to the Subscribe server": (
        "cmd/gnmi_collector/gnmi_collector.go",
        r"func runCollector\(.*?\n}\n", r"c\.cache\.SetClient\(subscribeSrv\.Update\)",
        "Pipeline.Sys.deliver: Sub.feed of the cache's events"),
    "client noti: index path = prefix (with target, origin) ++ path": (
        "client/gnmi/client.go",
        r"func \(c \*Client\) defaultRecv\(.*?\n}\n", r"p := path\.ToStrings\(n\.Prefix, true\)",
        "Pipeline.clientPrefix"),
    "manager.handleGNMIUpdate dispatch": (
        "manager/manager.go",
        r"func \(m \*Manager\) handleGNMIUpdate\(.*?\n}\n",
        r"case \*gpb\.SubscribeResponse_Update:\s+if m\.update != nil \{\s+m\.update\(name, v\.Update\)\s+\}\s+case \*gpb\.SubscribeResponse_SyncResponse:\s+if m\.sync != nil \{\s+m\.sync\(name\)",
        "Pipeline.handleGNMIUpdate"),
    # session ends (Model/Pipeline.lean §9: StepR.reset / StepR.connectError)
    "manager.handleUpdates calls Reset on every Recv error": (
        "manager/manager.go",
        r"func \(m \*Manager\) handleUpdates\(.*?\n}\n",
        r"resp, err := sc\.Recv\(\)\s+if recvTimer != nil \{\s+recvTimer\.Stop\(\)\s+\}\s+if err != nil \{\s+if m\.reset != nil \{\s+m\.reset\(ta\.name\)\s+\}\s+return err\s+\}",
        "Pipeline.Sys.reset: every way a session ends (error, io.EOF, timeout, forced reconnect) is a Recv error, "
        "and nothing returns between Recv and the Reset callback"),
    "manager.monitor records the error of an ended attempt": (
        "manager/manager.go",
        r"func \(m \*Manager\) monitor\(.*?\n}\n",
        r"defer func\(\) \{\s+if err != nil && m\.connectError != nil \{\s+m\.connectError\(ta\.name, err\)",
        "Pipeline.Sys.connectError after a session end (Pipeline.restartSteps)"),
    "collector wires ConnectError to the cache": (
        "cmd/gnmi_collector/gnmi_collector.go",
        r"manager\.NewManager\(manager\.Config\{.*?\n\t\}\)", r"ConnectError:\s+c\.cache\.ConnectError,",
        "Pipeline.Sys.connectError"),
}


def facts_step(ctx, cfg):
    bad = 0
    for name, (rel, scope, needle, why) in sorted(FACTS.items()):
        ok = False
        try:
            with open(os.path.join(vcheck.REPO, rel)) as fh:
                src = fh.read()
            m = re.search(scope, src, re.S)
            ok = bool(m and re.search(needle, m.group(0), re.S))
        except OSError:
            ok = False
        ctx.obligations.append(("fact " + name, ok, why))
        if not ok:
            bad += 1
            ctx.problems.append(("fact", "fact `%s` no longer holds in %s (model: %s)" % (name, rel, why), None))
    vcheck.log("  facts: %d checked, %d changed" % (len(FACTS), bad))


# ---------------------------------------------------------------- process level

def _model(lines):
    out, _ = vcheck.run_lines(vcheck.model_bin(), lines)
    return [o.split("\t") for o in out]


def _with_client(line, client):
    f = line.split(" ")
    f[2] = client
    return " ".join(f)


def _n_items(line):
    return sum(1 for t in line.split(" ")[5:] if t and t[0].isdigit())


def _leaves_only(obs):
    # `name=status[leaves]` -> `name[leaves]`
    return re.sub(r"=(sync|nosync|err)\[", "[", obs)


def _scenarios(ctx, vcorr):
    """(id, op line) of the process-level scenarios of this run"""
    res = []
    for f in sorted(glob.glob(os.path.join(vcheck.VERIF, "corpus", ctx.prop, "proc_*.ops"))):
        with open(f) as fh:
            for i, l in enumerate(l for l in fh.read().split("\n") if l and not l.startswith("#")):
                res.append(("%s:%d" % (os.path.basename(f), i + 1), l))
    want = {"quick": 5, "thorough": 40}.get(ctx.tier, 0)
    want = int(os.environ.get("VERIF_E2E_GENERATED", want))
    if want:
        gen = subprocess.run([vcorr, "gen", "-c", "e2e", "-profile", "proc", "-tier", ctx.tier, "-seed",
                              str(ctx.seed * 31 + 5), "-n", str(want * 4)], capture_output=True, text=True, env=vcheck.GOENV)
        lines = [l for l in gen.stdout.split("\n") if l]
        wf = _model([l.replace("e2e new", "e2e wf", 1) for l in lines])
        kept = [l for l, w in zip(lines, wf) if w[0] == "true"][:want]
        res += [("generated seed=%d #%d" % (ctx.seed * 31 + 5, i), l) for i, l in enumerate(kept)]
    return res


def process_level(ctx, cfg, only=None):
    """`only`: [(id, op line)] instead of the corpus + generated scenarios (replay)"""
    if os.environ.get("VERIF_SKIP_E2E"):
        return
    built = {}
    for name, pkg in (("gnmi_collector", "./cmd/gnmi_collector"), ("gnmi_cli", "./cmd/gnmi_cli")):
        p, out = vcheck.go_build_repo_cmd(ctx, pkg, name)
        if p is None:
            ctx.problems.append(("build", "%s does not build from the working tree:\n%s" % (pkg, out[-3000:]), None))
            return
        built[name] = p
    ve2e, out = vcheck.go_build(ctx, "ve2e")
    vcorr, out2 = vcheck.go_build(ctx, "vcorr")
    if ve2e is None or vcorr is None:
        ctx.problems.append(("build", "harness build failed against the working tree:\n" + (out + out2)[-3000:], None))
        return
    scs = only if only is not None else _scenarios(ctx, vcorr)
    if not scs:
        return
    lines = [l for _, l in scs]
    exports, _ = vcheck.run_lines([vcorr, "run"], [l.replace("e2e new", "e2e export", 1) for l in lines], env=vcheck.GOENV)
    once = _model([_with_client(l, "once") for l in lines])
    # what the model's gnmi_cli displays (driver op `e2e cli`): the leaves of the pathmap cli.displayWalk builds with
    # pathmap.add over WalkSorted of the ONCE client (Pipeline.Client.cliGroupSorted; C01.cli_group_display_faithful,
    # C01.cli_sorted_shows_leaves) - the expected output of the three CLI routes
    cli = _model([_with_client(l, "once").replace("e2e new", "e2e cli", 1) for l in lines])
    s0 = _model([_with_client(l, "stream:0") for l in lines])
    sn = _model([_with_client(l, "stream:%d" % _n_items(l)) for l in lines])
    spec = []
    for i, (sid, l) in enumerate(scs):
        try:
            ex = json.loads(exports[i])
        except Exception:
            ctx.problems.append(("build", "scenario %s cannot be exported for the process-level run: %s" % (sid, exports[i][:200]), None))
            return
        # the client-library STREAM client subscribes while the data flows: its final view is
        # compared only where the model says the subscription point does not matter
        same = _leaves_only(once[i][0]) == _leaves_only(s0[i][0]) == _leaves_only(sn[i][0])
        shows = cli[i][0] == once[i][0]
        ctx.obligations.append(("model, scenario %s: the tree gnmi_cli displays (displayWalk / pathmap.add) has exactly the "
                                "ONCE client's leaves" % sid, shows, cli[i][0][:200]))
        if not shows:
            ctx.problems.append(("proof", "scenario %s: the model's displayed tree differs from the model's client leaves "
                                 "(C01.cli_sorted_shows_leaves says it cannot):\n  cli : %s\n  once: %s"
                                 % (sid, cli[i][0][:600], once[i][0][:600]), None))
        spec.append({"id": sid, "export": ex, "expected_once": cli[i][0], "expected_stream": once[i][0] if same else ""})
    run_dir = os.path.join(ctx.scratch, "e2e")
    os.makedirs(run_dir, exist_ok=True)
    specf = os.path.join(ctx.scratch, "e2e-scenarios.json")
    repf = os.path.join(ctx.scratch, "e2e-report.json")
    with open(specf, "w") as fh:
        json.dump(spec, fh)
    r = subprocess.run([ve2e, "-spec", specf, "-collector", built["gnmi_collector"], "-cli", built["gnmi_cli"],
                        "-scratch", run_dir, "-report", repf], capture_output=True, text=True, env=vcheck.GOENV,
                       timeout=3600)
    obs = [o for o in r.stdout.split("\n") if o]
    try:
        with open(repf) as fh:
            reports = json.load(fh)
    except Exception:
        reports = []
    if os.environ.get("VERIF_E2E_DUMP") and any(o != "ok" for o in obs):
        with open(os.environ["VERIF_E2E_DUMP"], "w") as fh:      # diagnosis aid: the driver's full report of a failing run
            json.dump(reports, fh, indent=1)
    if len(obs) != len(scs):
        ctx.problems.append(("build", "the process-level driver did not finish: %s" % (r.stderr[-1500:]), None))
        return
    # The same reporting policy as for the in-process harnesses (lib/vcheck.py): the process-level run drives
    # real processes against wall-clock deadlines; a failing scenario is run again on its own, and one that passes
    # three times in a row is recorded as not reproducible (evidence) and not reported.
    for i in [j for j, o in enumerate(obs) if o != "ok"][:4]:
        again = []
        for k in range(3):
            sf = os.path.join(ctx.scratch, "e2e-rerun-%d-%d.json" % (i, k))
            rf = os.path.join(ctx.scratch, "e2e-rerun-%d-%d.report.json" % (i, k))
            with open(sf, "w") as fh:
                json.dump([spec[i]], fh)
            rr = subprocess.run([ve2e, "-spec", sf, "-collector", built["gnmi_collector"], "-cli", built["gnmi_cli"],
                                 "-scratch", run_dir, "-report", rf], capture_output=True, text=True, env=vcheck.GOENV,
                                timeout=600)
            o = [x for x in rr.stdout.split("\n") if x]
            again.append(o[0] if o else "<no-output>")
            if again[-1] != "ok":
                break
        if len(again) == 3 and all(a == "ok" for a in again):
            ctx.cov.setdefault("not_reproducible", []).append(
                {"component": "e2e-process", "op": scs[i][0], "impl_once": obs[i][:300], "model": "ok", "reruns_agreeing": 3})
            vcheck.log("  e2e-process: scenario %s failed once (%s) and passed 3 re-runs on its own (not reported)" % (scs[i][0], obs[i][:100]))
            obs[i] = "ok"
    okc = 0
    cstat = ctx.cov["components"].setdefault("e2e-process", {"scenarios": 0, "ok": 0, "cli_invocations": 0, "seconds": 0.0})
    for i, (sid, l) in enumerate(scs):
        rep = reports[i] if i < len(reports) else {}
        cstat["scenarios"] += 1
        cstat["cli_invocations"] += len(rep.get("cli", []))
        cstat["seconds"] = round(cstat["seconds"] + rep.get("seconds", 0.0), 2)
        ok = obs[i] == "ok"
        ctx.obligations.append(("process-level scenario %s: collector + gnmi_cli (flags / -proto / -proto_file) relay the "
                                "model's expected tree" % sid, ok, obs[i][:200]))
        if ok:
            okc += 1
            if len(ctx.cov["samples"]) < 3:
                ctx.cov["samples"].append({"component": "e2e-process", "ops": [l[:1500]], "observations": [obs[i]],
                                           "cli": [" ".join(c["args"][-6:])[:300] for c in rep.get("cli", [])[:3]]})
            continue
        payload = {"component": "e2e-process (built gnmi_collector + gnmi_cli)", "scenario": sid, "ops": [l],
                   "impl": [obs[i]], "model": ["ok"], "spec": ["ok"], "first_divergence": 0, "monitor_failed": True,
                   "expected_tree": once[i][-1], "report": rep,
                   "failing_scenarios_of_this_run": [s for (s, _), o in zip(scs, obs) if o != "ok"]}
        if len(scs) - okc - (len(scs) - 1 - i) <= 2:      # the first two failing scenarios get a replay file each
            ctx.problems.append(("divergence", "process-level run: %s" % obs[i][:300], payload))
    ctx.cov["evaluations"] += len(scs)
    cstat["ok"] += okc
    vcheck.log("  e2e-process: %d scenarios, %d ok (%.1fs in ve2e)" % (len(scs), okc, cstat["seconds"]))


def wf_coverage(ctx, cfg):
    """how many of the generated in-process scenarios lie inside the hypotheses of the theorem
    (for those the spec column is the abstract `Relay.expected`, not the model's own answer)"""
    f = os.path.join(ctx.scratch, "e2e.ops")
    try:
        with open(f) as fh:
            lines = [l for l in fh.read().split("\n") if l.startswith("e2e new ")]
    except OSError:
        return
    if not lines:
        return
    wf = _model([l.replace("e2e new", "e2e wf", 1) for l in lines])
    n = sum(1 for w in wf if w[0] == "true")
    ctx.cov["components"].setdefault("e2e", {})["well_formed_scenarios_last_run"] = "%d of %d" % (n, len(lines))
    vcheck.log("  e2e: %d of %d scenarios of the last generation are well formed (spec column = Relay.expected)" % (n, len(lines)))


def replay(ctx, cfg, path):
    """./check C01 --replay <file>: a process-level failing input is re-run at process level (built
    binaries), anything else through the generic in-process replay"""
    with open(path) as fh:
        txt = fh.read()
    body = json.loads(txt) if path.endswith(".json") else {}
    if str(body.get("component", "")).startswith("e2e-process"):
        process_level(ctx, cfg, only=[(body.get("scenario", "replay"), l) for l in body.get("ops", [])])
        bad = [p for p in ctx.problems]
        for kind, text, payload in bad:
            vcheck.log("%s: %s" % (kind, text))
            for pr in ((payload or {}).get("report") or {}).get("problems", [])[:8]:
                vcheck.log("   " + pr)
        if bad:
            vcheck.log("VIOLATION property=%s replay=%s" % (ctx.prop, path))
            return 1
        vcheck.log("replay agrees with the model")
        return 0
    return vcheck.replay(ctx, cfg, path)
