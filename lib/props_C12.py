from cacheprops import CACHE_TB, CACHE_ASSUMPTIONS, ca_component
from c12_surfaces_part import SURF_PROP
from c12_wire_part import WIRE_PROP

ID = "C12"
PROP = {
    "modules": ["Gnmi.Props.C12", "Gnmi.Props.C12Meta"] + SURF_PROP["modules"] + WIRE_PROP["modules"],
    "theorems": ["Gnmi.C12." + t for t in [
        "ingest_total", "ingest_keeps_invariant", "updateMetadata_total", "rejected_preserves", "unknown_target_rejected",
        "meta_refresh_no_panic", "panics_false", "genMetaOne_call_no_panic", "updateMetaP_no_panic", "resetP_no_panic",
        "updateMetadataP_no_panic", "sync_no_panic", "connect_no_panic", "connectError_no_panic",
        "generateMetaUpdatesP_fst", "updateMetaP_fst", "resetP_fst", "updateMetadataP_fst", "panics_update_iff"]] + SURF_PROP["theorems"] + WIRE_PROP["theorems"],
    "components": [ca_component("c12", 2500, 30000)] + SURF_PROP["components"] + WIRE_PROP["components"],
    "extra": SURF_PROP["extra"],
    "monitor": "spec", "level": "proof",
    "trusted_base": CACHE_TB + ["protobuf wire decoding (the theorems are over decoded messages)"] + SURF_PROP["trusted_base"] + WIRE_PROP["trusted_base"],
    "assumptions": CACHE_ASSUMPTIONS + SURF_PROP["assumptions"] + WIRE_PROP["assumptions"],
    "manifest": {
        "level_text": "Cache ingest surface: every partial Go operation on the ingest path is a checked model operation with an explicit panic "
                      "outcome; ingest_total proves the panic outcome unreachable for every reachable cache state and every notification "
                      "(empty/root paths, meta-addressed paths, absent values, wildcards on an empty cache, type changes), updateMetadata_total for the "
                      "periodic refresh, rejected_preserves (a rejected unit leaves the tree intact). The model is tied to the code by the ca "
                      "correspondence driven by the malformed stream (observation `panic` on either side is a divergence). "
                      "Props/C12Meta.lean: the metadata-writing calls (Sync, Connect, ConnectError, Reset, UpdateMetadata), whose inner "
                      "gnmiUpdate result class State.step/genMetaOne drop, are re-observed with the class kept (generateMetaUpdatesP etc., "
                      "proved equal to the existing functions in state and events) and meta_refresh_no_panic proves no inner call reaches "
                      "the panic outcome in any reachable state. "
                      + SURF_PROP["level_text_part"] + WIRE_PROP["level_text_part"],
        "level_note": "Trusted: Lean kernel; model validated by the ca correspondence; protobuf decoding. Subscribe-handler, client-receive, "
                      "CLI-display and manager surfaces: Props/C12Surfaces.lean over Model/RecvSurfaces.lean, tied by the rx correspondence "
                      "(json/prototext/txtpbfmt/fmt trusted).",
        "technique": "Lean 4 proof of totality over a model with explicit panic outcomes + malformed-stream correspondence",
    },
}
# --- round 2 (builder bVALEQ): the wire translation of values preserves value.Equal (Props/C19ValueEq.lean)
PROP["modules"].append("Gnmi.Props.C19ValueEq")
PROP["theorems"] += ["Gnmi.C19.equal_eq_valueEqual_toVal", "Gnmi.C19.nested_leaflist_limit", "Gnmi.C19.nil_payload_limit"]
PROP["manifest"]["level_text"] += (
    " Values: Wire.toVal preserves value.Equal (equal_eq_valueEqual_toVal: for every pair of decoded TypedValues without a leaf-list inside a "
    "leaf-list the C19 model of Equal answers what the cache model's valueEqual answers on the translated values); the exact limit of the "
    "cache model's value fragment is nested_leaflist_limit (a nested leaf-list is opaque to the model, Go's Equal recurses into it; "
    "no generator builds one; witness replay in proposed_fixes/c19_nested_leaflist_model_limit.ops).")

PROP["assumptions"] += [
    "`wi conc` (Subscribe RPCs of several peers at once on one server with statistics) has no model behind it: the "
    "monitor and the -race build (step conc_race) judge it; the theorems cover one RPC / one session at a time, the "
    "interleavings of the Subscribe server are C04-C08's",
]
