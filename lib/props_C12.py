from cacheprops import CACHE_TB, CACHE_ASSUMPTIONS, ca_component

ID = "C12"
PROP = {
    "modules": ["Gnmi.Props.C12"],
    "theorems": ["Gnmi.C12." + t for t in [
        "ingest_total", "ingest_keeps_invariant", "updateMetadata_total", "rejected_preserves", "unknown_target_rejected"]],
    "components": [ca_component("c12", 2500, 30000)],
    "monitor": "spec", "level": "proof",
    "trusted_base": CACHE_TB + ["protobuf wire decoding (the theorems are over decoded messages)"],
    "assumptions": CACHE_ASSUMPTIONS,
    "manifest": {
        "level_text": "Cache ingest surface: every partial Go operation on the ingest path is a checked model operation with an explicit panic "
                      "outcome; ingest_total proves the panic outcome unreachable for every reachable cache state and every notification "
                      "(empty/root paths, meta-addressed paths, absent values, wildcards on an empty cache, type changes), updateMetadata_total for the "
                      "periodic refresh, rejected_preserves (a rejected unit leaves the tree intact). The model is tied to the code by the ca "
                      "correspondence driven by the malformed stream (observation `panic` on either side is a divergence).",
        "level_note": "Trusted: Lean kernel; model validated by the ca correspondence; protobuf decoding. The Subscribe-handler, client-receive and "
                      "CLI-display surfaces are added as their models are merged (see evidence obligation list).",
        "technique": "Lean 4 proof of totality over a model with explicit panic outcomes + malformed-stream correspondence",
    },
}
