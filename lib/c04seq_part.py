"""C04 over the *sequential* Subscribe model (Model/Subscribe.lean): a STREAM subscriber whose flow
control is never shut converges to the cache.  Built separately; merge into lib/props_C04.py (and,
for the C01 STREAM clause, lib/props_C01.py) by concatenating MODULES / THEOREMS:

    from c04seq_part import MODULES, THEOREMS            # -> props_C04.py
    PROP["modules"] += MODULES; PROP["theorems"] += THEOREMS
    from c04seq_part import MODULES_C01, THEOREMS_C01    # -> props_C01.py (needs MODULES too)
    PROP["modules"] += MODULES + MODULES_C01; PROP["theorems"] += THEOREMS_C01

lean/Gnmi.lean must import Gnmi.Props.C04Seq and Gnmi.Props.C01Stream (two lines, done in this copy)
so that `lake build` compiles them.

See docs/STREAM_SEQ_NOTES.md for the exact hypotheses of every theorem.
"""

MODULES = [
    "Gnmi.Lemmas.SubscribeStream",
    "Gnmi.Lemmas.SubscribeStreamInit",
    "Gnmi.Lemmas.CacheFeedTrace",
    "Gnmi.Props.C04Seq",
    # flow control (gate shut / step / open anywhere in the history): docs/STREAM_SEQ_NOTES.md, "Flow control (C04Gate)"
    "Gnmi.Lemmas.SubscribeGate",
    "Gnmi.Props.C04Gate",
    # finding D25: the witness of what the theorems do not (and cannot) claim
    "Gnmi.Props.C04Atomic",
]

# the STREAM clause of C01 (merge into lib/props_C01.py)
MODULES_C01 = [
    "Gnmi.Lemmas.SubscribeOutP",
    "Gnmi.Lemmas.PipelineStream",
    "Gnmi.Props.C01Stream",
]

THEOREMS = ["Gnmi.C04Seq." + t for t in [
    # the property
    "stream_converges_partial", "stream_converges_exact", "stream_queue_drained",
    # the run invariant it rests on
    "hinv_init", "hstep_inv", "hrun_inv", "hrun_cfg",
    # the hypothesis NoStarTargets is necessary: the unrestricted statement is false
    "histStar_ok", "histStar_witness", "star_target_breaks_convergence",
]] + ["Gnmi.SubStream." + t for t in [
    # subscriber side
    "lookup_applyResp", "lookup_applyQ", "pump_open_mk", "pumpAll_open", "enqueue_fold", "insertHandle_eq",
    "refreshQueue_eq", "qstep_inv", "qfold_inv", "feed_sub_inv", "SubInv.view",
    # initial walk
    "items_iff", "walk_fold", "streamSub_inv", "subscribe_new",
    # cache side: every event of every API call, against the views that applied the events before it
    "gnmiUpdate1_good", "dispatch_tr", "gnmiUpdate_tr", "updateMeta_tr", "reset_tr", "step_goodTr",
    "step_cacheOK", "cacheOK_empty",
    # staying alive; what an ACL drops
    "feed_sub_alive", "streamSub_alive", "lookup_replay_filter", "denied_not_touch",
]] + ["Gnmi.C04Gate." + t for t in [
    # histories WITH flow control: (A) pending-extended convergence at every point, (B) convergence once the gate is
    # open again, (C) the gate-free special case; the queue needs no re-reading; a stale held response is made up for
    "stream_converges_pending", "stream_converges_pending_exact", "stream_converges_gate_open",
    "stream_queue_behind_blocked", "stream_queue_fresh", "stale_blocked_requeued",
    "gate_stays_open", "stream_converges_never_shut", "stream_converges_partial_again",
    # the run invariant
    "ghinv_init", "gstep_inv", "grun_inv", "final_ginv",
    # non-vacuity: a gated history (coalescing behind a held response, gateStep, delete, gateOpen); with the gate
    # shut `replay out` lags and `replay pend` is the cache
    "histG_ok", "histG_noStar", "histShut_views", "histShut_out_lags", "histG_views",
]] + ["Gnmi.SubGate." + t for t in [
    "qinv_split", "qinv_refresh", "refreshQueue_fresh", "pump_gen_mk", "pumpAll_gen", "pumpAll_blocked",
    "pinv_pumpAll", "ginv_of_subInv", "PInv.pend_view", "feed_sub_ginv", "pinv_release", "setGate_sub_ginv",
    "stepGate_sub_ginv", "setGate_eq", "stepGate_eq",
]]

THEOREMS_C01 = ["Gnmi.C01." + t for t in [
    # the STREAM clause (second conjunct of pipeline_faithful), its hypotheses satisfiable, and why they are there
    "pipeline_faithful_stream_partial", "steps2_exact", "steps2_split", "steps2_ids",
    "exactV_of_noFloat", "signed_zero_witness", "stepsZ_hyps", "pipeline_faithful_refuted",
    "start_cache_ok", "start_inv2", "viewFacts_run", "qmatches_of_compatible_short",
]] + ["Gnmi.C01S." + t for t in [
    "client_replay", "csim_upd", "csim_del", "gnmiUpdate_upds", "stamp_clean", "treesP_of_holds",
    "inv2_ca", "ca_k", "sys_connect", "sys_deliver", "sys_subscribe", "run_tr4",
]] + ["Gnmi.SubStream." + t for t in [
    "pump_outP", "feed_outP", "doWalk_outP", "subscribe_outP",
]]

THEOREMS += ["Gnmi.C04Atomic.below_atomic_prefix_stale", "Gnmi.C04Atomic.histA_ok"]
