from props import COMMON_TB
import steps_C19

ID = "C19"
PROP = {
    "modules": ["Gnmi.Props.C19", "Gnmi.Props.C19Exact"],
    "theorems": ["Gnmi.C19." + t for t in [
        "toStrings_shape", "toStrings_perm_invariant", "toStrings_deterministic", "toStrings_two_keys",
        "completePath_spec", "completePath_eq_spec",
        "query_roundtrip_partial", "query_trailing_slash_lost", "query_roundtrip_false", "query_total",
        "scalar_roundtrip",
        "equal_total", "equal_eq_spec", "equal_symm", "equal_sound",
        "equal_nil_payload_panics", "equal_total_unrestricted_false", "equal_double_nil",
        "query_roundtrip_exact", "arrivesAs_iff_lastNotSlash", "query_last_slash_lost", "query_roundtrip_partial_of_exact",
        "queryToPath_exact", "arrives_eq_self_iff", "arrivesAsList_unique"]],
    "components": [
        {"c": "pv", "quick": {"n": 5000, "exhaustive": True}, "thorough": {"n": 40000, "exhaustive": True, "seeds": 4}},
        # the index paths a client is HANDED (client/gnmi noti on prefix + path): the rx receive surface, whose `recv`
        # op also checks that a retained path does not change while the rest of its notification is delivered
        {"c": "rx", "label": "rx-c19", "quick": {"n": 600, "exhaustive": False}, "thorough": {"n": 6000, "exhaustive": True, "seeds": 2}},
    ],
    "extra": [steps_C19.monitor],
    "monitor": "spec",
    "level": "proof",
    "trusted_base": COMMON_TB + [
        "third-party ygot v0.29.20 string-path parser (StringToPath, SplitPath, PathStringToElements, extractKV, "
        "elemToString): transcribed loop by loop in Model/QueryString.lean, validated differentially, not verified",
        "float32/float64 are abstract types in the theorems (FloatOps; laws assumed of Go's == are LawfulFloatEq: "
        "symmetric, true only on the same numeric value - NaN equal to nothing, +0/-0 one value); the driver "
        "executes them with Lean Float32/Float (IEEE bit patterns on the line protocol, NaN canonicalised)",
        "encoding/json (ToScalar on the deprecated JSON arms) is not modelled: the observation there is the arm name",
        "Go strings are modelled as code-point lists: inputs are valid UTF-8 (the only place the code inspects "
        "validity, FromScalar(string), is modelled by a separate invalid-string constructor)",
    ],
    "assumptions": [
        "map key names are distinct (true of every Go map): hypothesis KeysOK of the ToStrings theorems",
        "payloadOK: no nil oneof *payload pointer* (TypedValue_DecimalVal{nil}, TypedValue_LeaflistVal{nil}) inside a "
        "TypedValue for equal_total - such values cannot be decoded from the wire; the model still has the panic "
        "arms and the harness exercises them (witness theorem equal_nil_payload_panics; proposed hardening patch "
        "proposed_fixes/value_nil_payload_getters.diff)",
        "query_roundtrip holds for plain queries whose last element does not end in '/' (query_roundtrip_partial); "
        "the remaining class is defect D18 in third-party ygot, a known finding (corpus/C19/d18_*.ops); the random "
        "and exhaustive generators keep exactly that class out",
        "Decimal64 precision <= 22 in generated ToScalar inputs (10^p exactly representable, so Go's math.Pow and "
        "libm agree bit for bit)",
    ],
    "rule": "each op is one independent evaluation of path.ToStrings (20x per input: same object, re-parsed, cloned) / "
            "path.CompletePath / client/gnmi.ToSubscribeRequest / value.FromScalar+ToScalar / value.Equal (both "
            "directions); exhaustive scope = all pairs of 66 representative TypedValues, all prefix x path origin/encoding "
            "combinations of a 37-path scope, all queries of length <= 3 over a 7-element alphabet; a sequence is "
            "non-trivial when it has >= 3 ops and at least one observation other than ok/err/empty; distinct = by hash",
    "manifest": {
        "level_text": "Lean 4 theorems over executable models of path.ToStrings/CompletePath, the client query -> "
                      "SubscribeRequest path conversion (pathToString + a loop-by-loop transcription of the vendored ygot "
                      "string-path parser) and value.FromScalar/ToScalar/Equal: index shape and invariance under every "
                      "permutation of every key map (Go map order), CompletePath accept/reject rule, query round trip "
                      "in both encodings, scalar round trip up to widening, totality/symmetry/soundness of Equal; tied "
                      "to the code by the pv differential correspondence (every tostr input 20x, all-pairs Equal, "
                      "exhaustive small scopes, seeded random inputs with arbitrary UTF-8). "
                      "Props/C19Exact.lean: query_roundtrip_exact characterises the round trip of EVERY plain query, the known "
                      "finding D18 included (the query arrives as itself minus its last element when that element ends in '/'), and "
                      "arrivesAs_iff_lastNotSlash proves D18 is the only deviation.",
        "level_note": "Trusted: Lean kernel (axioms propext, Quot.sound, Classical.choice only), the hand-written models "
                      "as validated by the correspondence harness, Go runtime; ygot is modelled, not verified; floats "
                      "abstract in theorems. query_roundtrip is proved with the hypothesis 'last element does not end in /' "
                      "(defect D18 in third-party ygot is a known finding, witness theorem + corpus case); equal_total is "
                      "stated for TypedValues without nil oneof payload pointers (not wire-decodable).",
        "technique": "Lean 4 proof (structural induction, sorted-permutation uniqueness, scanner-state invariants) + "
                     "model/implementation correspondence + property monitor over the corpus and the generated run",
        "design_ref": "DESIGN.md §8 C19",
    },
}
# --- round 2 (builder bVALEQ): the two models of value.Equal agree (Props/C19ValueEq.lean)
PROP["modules"].append("Gnmi.Props.C19ValueEq")
PROP["theorems"] += ["Gnmi.C19." + t for t in [
    "valueEqual_eq_equal", "valueEqual_iff_equal", "valueEqual_symm", "valueEqual_sound", "valueEqual_sound_exact",
    "equal_eq_valueEqual_toVal", "nested_leaflist_limit", "nil_payload_limit", "toPV_image", "floatBitsEq_canon",
    "hexBytes_inj"]]
PROP["manifest"]["level_text"] += (
    " Props/C19ValueEq.lean relates the two models of value.Equal: valueEqual_eq_equal - for every pair of values the cache model can hold, "
    "PV.equal on the embedded TypedValues (toPV; floats as numeric values, for which LawfulFloatEq is proved) answers exactly "
    "Cache.valueEqual (the suppression test of C02/C03/C01), never err or panic; equal_symm / equal_sound are transferred to the cache's "
    "test (valueEqual_symm, valueEqual_sound: suppressed only if same arm and payload, +0/-0 one value, NaN equal to nothing); "
    "equal_eq_valueEqual_toVal - the wire-ingest translation Wire.toVal preserves Equal for every decoded TypedValue pair without a "
    "leaf-list inside a leaf-list. Limit, exact and checked against the Go code through the wi component: a nested leaf-list is opaque "
    "to the cache model (never equal) while Go's Equal recurses (nested_leaflist_limit): the code suppresses an unchanged nested leaf-list, "
    "the model does not; no generator builds one.")
