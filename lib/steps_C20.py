"""C20-specific steps: classification of divergences and the failing-input search.

The `fq` harness answers every `new` line with the verdict of its model-independent property
monitors (ordering, delta bounds, range/options, repeat counts, sync position, determinism of
two generators, errors only on invalid configurations) evaluated on the real generator; the
model always answers `ok`.  A divergence is therefore a *failing input* exactly when the
implementation's observation is a `viol:` verdict (or a `nondet:` mismatch between the two
generators stepped by `next`); any other disagreement between code and model only breaks the
tie (reported with `no-failing-input-found` unless the search below finds a monitor failure).
"""
import os, subprocess
import vcheck


def _monitor_failed(payload):
    d = payload.get("first_divergence")
    impl = payload.get("impl", [])
    upto = impl if d is None else impl[:d + 1]
    return any(o.startswith("viol:") or o.startswith("nondet:") for o in upto)


def classify_and_search(ctx, cfg):
    div = [p for p in ctx.problems if p[0] == "divergence" and p[2] is not None]
    if not div:
        return
    found = False
    for _, _, payload in div:
        payload["monitor_failed"] = _monitor_failed(payload)
        found = found or payload["monitor_failed"]
    if found:
        return
    # search: a fresh, wider generation evaluated by the monitors alone (implementation only)
    vcorr, out = vcheck.go_build(ctx, "vcorr")
    if vcorr is None:
        return
    for k in range(3):
        seed = ctx.seed * 7919 + 17 + k
        gen = subprocess.run([vcorr, "gen", "-c", "fq", "-tier", ctx.tier, "-seed", str(seed), "-n", "1500"],
                             capture_output=True, text=True, env=vcheck.GOENV)
        news = [l for l in gen.stdout.split("\n") if l.startswith("fq new ")]
        if not news:
            return
        impl, _ = vcheck.run_lines([vcorr, "run"], news, env=vcheck.GOENV)
        for line, obs in zip(news, impl):
            if obs.startswith("viol:"):
                payload = {"component": "fq (monitor search)", "generator": "search seed=%d" % seed, "ops": [line],
                           "impl": [obs], "model": ["ok"], "spec": ["ok"], "first_divergence": 0,
                           "monitor_failed": True}
                ctx.problems.append(("divergence", "property monitor fails on the implementation: " + obs, payload))
                vcheck.log("  monitor search: %s" % obs)
                return
    vcheck.log("  monitor search: no monitor failure in %d configurations" % (3 * 1500))
