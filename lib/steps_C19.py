"""C19: property monitor over the corpus and the generated run.

The generic pipeline compares the implementation with the *model* column.  For C19 the model is
faithful to a defect that is recorded as a known finding (D18, third-party ygot): model and code
agree there and both disagree with what the property demands (the *spec* column).  This step
compares the implementation with the spec column
  * on every corpus file: a mismatch is a KNOWN-FINDING when KNOWN_FINDINGS.txt lists the file
    (with the implementation's observation at the first mismatching op), a violation otherwise;
  * on the op lines of the last generated correspondence run (left in the scratch directory):
    any mismatch is a violation (the generators keep out exactly the known-finding input class).
"""
import glob, os, subprocess

import vcheck


def _cols(mod, n):
    out = []
    for i in range(n):
        f = (mod[i] if i < len(mod) else "<no-output>\t<no-output>").split("\t")
        out.append((f[0], f[-1]))
    return out


def monitor(ctx, cfg):
    vcorr, out = vcheck.go_build(ctx, "vcorr")
    if vcorr is None:
        return          # already reported by the generic stages
    known = vcheck.known_findings(ctx.prop)
    files = sorted(glob.glob(os.path.join(vcheck.VERIF, "corpus", ctx.prop, "*.ops")))
    checked = 0
    for f in files:
        name = os.path.basename(f)
        with open(f) as fh:
            lines = [l for l in fh.read().split("\n") if l and not l.startswith("#")]
        impl, _ = vcheck.run_lines([vcorr, "run"], lines, env=vcheck.GOENV)
        mod, _ = vcheck.run_lines(vcheck.model_bin(), lines)
        cols = _cols(mod, len(lines))
        checked += len(lines)
        bad = [i for i in range(len(lines)) if (impl[i] if i < len(impl) else "<no-output>") != cols[i][1]]
        if not bad:
            continue
        i = bad[0]
        kf = known.get(name)
        if kf and (kf.get("obs") is None or kf["obs"] == impl[i]):
            line = "KNOWN-FINDING: property=%s %s" % (ctx.prop, kf["text"])
            if line not in ctx.known:
                ctx.known.append(line)
            continue
        # a file whose impl/model divergence was already reported by run_corpus is not reported twice
        if any(p[2] and p[2].get("component") == "corpus/" + name for p in ctx.problems):
            continue
        payload = {"component": "corpus/" + name, "ops": lines, "impl": impl[:len(lines)],
                   "model": [c[0] for c in cols], "spec": [c[1] for c in cols],
                   "first_divergence": i, "monitor_failed": True}
        ctx.problems.append(("divergence", "corpus case %s: implementation violates the property monitor" % name, payload))
    # the generated runs: the last random run left in the scratch directory + the exhaustive scope
    label = "pv"
    runs = []
    paths = [os.path.join(ctx.scratch, "%s.%s" % (label, x)) for x in ("ops", "impl", "model")]
    if all(os.path.exists(p) for p in paths):
        runs.append([open(p).read().split("\n") for p in paths])
    r = subprocess.run([vcorr, "gen", "-c", label, "-tier", ctx.tier, "-exhaustive"], capture_output=True, text=True,
                       env=vcheck.GOENV)
    if r.returncode == 0:
        xops = [l for l in r.stdout.split("\n") if l]
        ximpl, _ = vcheck.run_lines([vcorr, "run"], xops, env=vcheck.GOENV)
        xmod, _ = vcheck.run_lines(vcheck.model_bin(), xops)
        runs.append([xops, ximpl, xmod])
    nbad = 0
    for ops, impl, mod in runs:
        if ops and ops[-1] == "":
            ops.pop()
        cols = _cols(mod, len(ops))
        for seq in vcheck.split_sequences(ops):
            for j, i in enumerate(seq):
                a = impl[i] if i < len(impl) else "<no-output>"
                if a != cols[i][1]:
                    nbad += 1
                    if nbad <= 2 and not any(p[0] == "divergence" and p[2] and p[2].get("generator") for p in ctx.problems):
                        lines = [ops[seq[0]], ops[i]] if j > 0 else [ops[i]]   # pv is stateless: reset + the op
                        k = len(lines) - 1
                        payload = {"component": label, "generator": "monitor over generated run", "ops": lines,
                                   "impl": ["ok"] * k + [a], "model": ["ok"] * k + [cols[i][0]],
                                   "spec": ["ok"] * k + [cols[i][1]], "first_divergence": k, "monitor_failed": True}
                        ctx.problems.append(("divergence", "generated input violates the property monitor", payload))
                    break
        checked += len(ops)
    ctx.cov["components"]["monitor"] = {"ops_checked_against_spec": checked, "spec_mismatches_generated": nbad,
                                        "known_findings": len(ctx.known)}
    vcheck.log("  monitor (impl vs spec column): %d ops, %d unexpected mismatches, %d known findings"
               % (checked, nbad, len(ctx.known)))
