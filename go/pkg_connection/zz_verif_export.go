//go:build verif

package connection

// VerifSnapshot is added by the verification harness (overlay build only; this
// file is never written into the repository). It returns, under m.mu, the
// reference count of every connection object currently registered in m.conns.
func VerifSnapshot(m *Manager) map[string]int {
	m.mu.Lock()
	defer m.mu.Unlock()
	out := make(map[string]int, len(m.conns))
	for a, c := range m.conns {
		out[a] = c.ref
	}
	return out
}
