//go:build verif

package ctree

// Seams for the C10 correspondence harness (/verif/go/vcorr/cc.go).  Added to this
// package through `go build -overlay` only; nothing here is compiled without the
// `verif` tag and nothing is written into the repository.

import (
	"reflect"
	"sync/atomic"
	"unsafe"
)

// VerifRLock takes the node's read lock from outside any tree operation (used to keep a
// goroutine that runs Add parked inside the reader->writer lock exchange of
// intermediateAdd: its Lock() cannot be granted while this read lock is held).
func (t *Tree) VerifRLock() { t.mu.RLock() }

// VerifRUnlock releases VerifRLock.
func (t *Tree) VerifRUnlock() { t.mu.RUnlock() }

// VerifWriterPending reports whether some goroutine has called t.mu.Lock() and is
// waiting for the readers to drain (sync.RWMutex: readerCount < 0).  ok is false when
// the layout of sync.RWMutex is not the expected one.
func (t *Tree) VerifWriterPending() (pending, ok bool) {
	defer func() {
		if recover() != nil {
			pending, ok = false, false
		}
	}()
	f := reflect.ValueOf(&t.mu).Elem().FieldByName("readerCount")
	if !f.IsValid() {
		return false, false
	}
	switch f.Kind() {
	case reflect.Int32:
		return atomic.LoadInt32((*int32)(unsafe.Pointer(f.UnsafeAddr()))) < 0, true
	case reflect.Struct: // atomic.Int32 { _ noCopy; v int32 }
		v := f.FieldByName("v")
		if !v.IsValid() || v.Kind() != reflect.Int32 {
			return false, false
		}
		return atomic.LoadInt32((*int32)(unsafe.Pointer(v.UnsafeAddr()))) < 0, true
	}
	return false, false
}

// VerifSlowAdd runs the real slowAdd on t.  The caller must make sure that no other
// goroutine can access t meanwhile (the harness holds t's read lock while the only
// other goroutine is parked in t.mu.Lock()).
func (t *Tree) VerifSlowAdd(path []string, value interface{}) error {
	return t.slowAdd(path, value)
}
