//go:build verif

package match

import "sort"

// VerifDump lists the registrations held by the trie as "<name>@<path>" (path
// rendered by enc) and the number of branch nodes (root included), so that the
// correspondence harness (property C06) can observe pruning, which no sequence
// of Update calls can observe.  Added to the package through `go build
// -overlay` only; nothing in the repository refers to it.
func VerifDump(m *Match, name func(Client) string, enc func([]string) string) (regs []string, nodes int) {
	defer m.mu.RUnlock()
	m.mu.RLock()
	var walk func(b *branch, p []string)
	walk = func(b *branch, p []string) {
		nodes++
		for c := range b.clients {
			regs = append(regs, name(c)+"@"+enc(p))
		}
		for k, sb := range b.children {
			walk(sb, append(append([]string(nil), p...), k))
		}
	}
	walk(m.tree, nil)
	sort.Strings(regs)
	return regs, nodes
}
