//go:build verif

package coalesce

// Read-only view of the unexported state of a Queue for the verification
// harness (added to the package through `go build -overlay`; nothing of
// this file exists in the repository).

// VerifDump returns copies of the pending slice and the duplicate map
// (taken under the queue's lock), whether the wake-up token is present and
// whether the closed channel has been closed.
func VerifDump(q *Queue) (queue []interface{}, coalesced map[interface{}]uint32, token bool, closed bool) {
	q.Lock()
	queue = append([]interface{}(nil), q.queue...)
	coalesced = make(map[interface{}]uint32, len(q.coalesced))
	for k, v := range q.coalesced {
		coalesced[k] = v
	}
	q.Unlock()
	token = len(q.inserted) == 1
	select {
	case <-q.closed:
		closed = true
	default:
	}
	return
}

// VerifInsertLocked runs the locked section of Insert (the unexported method insert) alone:
// the atomic section P2 of the LTS model, without the closed check before it and without
// the token post after it.
func VerifInsertLocked(q *Queue, i interface{}) bool { return q.insert(i) }

// VerifPostToken re-enacts the last statement of Insert (the non-blocking token post, P3)
// for an insert whose locked section was run through VerifInsertLocked.
func VerifPostToken(q *Queue) {
	select {
	case q.inserted <- struct{}{}:
	default:
	}
}

// VerifTakeToken removes the wake-up token if it is present and reports whether it was.
// The harness uses it to make the token case of a parked consumer's select not ready, i.e.
// to choose, among the select cases that are ready, one of the others (a choice the Go
// runtime makes at random); it puts the token back with VerifPostToken afterwards.
func VerifTakeToken(q *Queue) bool {
	select {
	case <-q.inserted:
		return true
	default:
		return false
	}
}
