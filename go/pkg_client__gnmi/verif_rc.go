//go:build verif

package client

import (
	gpb "github.com/openconfig/gnmi/proto/gnmi"
)

// VerifNewScripted returns the gNMI transport client on top of a caller
// supplied GNMIClient stub (no grpc.ClientConn).  Subscribe/Recv/defaultRecv
// run unchanged; Close must be provided by the caller's wrapper (conn is nil).
// Used only by the C18 correspondence harness; add-only, compiled through the
// harness overlay.
func VerifNewScripted(cl gpb.GNMIClient) *Client {
	return &Client{client: cl}
}
