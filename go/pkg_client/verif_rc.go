//go:build verif

package client

// VerifReconnect is client.Reconnect followed by a Reset of the freshly built
// backoff object, so that the first retry interval is drawn from
// RetryBaseDelay like every later one (Reconnect overrides InitialInterval but
// the constructor has already latched the library default of 500ms as the
// current interval).  Used only by the C18 correspondence harness to keep
// scenarios short; add-only, compiled through the harness overlay.
func VerifReconnect(c Client, disconnect, reset func()) *ReconnectClient {
	p := Reconnect(c, disconnect, reset)
	p.backoff.Reset()
	return p
}
