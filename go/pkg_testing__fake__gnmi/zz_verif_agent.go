//go:build verif

package gnmi

import "github.com/openconfig/gnmi/testing/fake/queue"

// Seams for the verification harness (added to the package through `go build
// -overlay`; nothing of this file exists in the repository).  They only read
// state, except VerifPoll, which releases a sender left blocked on `<-c.polled`
// at the end of a POLL session so that its goroutine can be collected.

// VerifLastClient returns the client created by the most recent Subscribe.
func VerifLastClient(a *Agent) *Client {
	a.cMu.Lock()
	defer a.cMu.Unlock()
	return a.client
}

// VerifClients returns the number of clients the agent has created.
func VerifClients(a *Agent) int {
	a.cMu.Lock()
	defer a.cMu.Unlock()
	return len(a.clients)
}

// VerifDrained reports whether the client's current queue has handed out its
// last element (taken under qMu: a Next in progress has completed).
func VerifDrained(c *Client) bool {
	c.qMu.Lock()
	defer c.qMu.Unlock()
	switch q := c.q.(type) {
	case *queue.UpdateQueue:
		return queue.VerifUpdateLen(q) == 0
	case *queue.FixedQueue:
		_, _, n := queue.VerifFixedState(q)
		return n == 0
	}
	return false
}

// VerifPoll hands one token to a sender blocked on `<-c.polled` (non-blocking).
func VerifPoll(c *Client) bool {
	select {
	case c.polled <- struct{}{}:
		return true
	default:
		return false
	}
}
