// Command vfacts18 regenerates, from the current source of the repository, the
// structural facts the C18 client LTS (lean/Gnmi/Model/ClientLTS.lean) relies
// on.  It prints one JSON object; lib/steps_C18.py compares it with the
// expectations (each of which cites the model definition encoding the fact).
//
// A fact is an *ordered occurrence* of code fragments inside the body of one
// function (found through go/ast, printed through go/printer, white space
// normalised), so unrelated edits and comments do not disturb it, while the
// removal or the reordering of any of the fragments does.
package main

import (
	"bytes"
	"encoding/json"
	"fmt"
	"go/ast"
	"go/parser"
	"go/printer"
	"go/token"
	"os"
	"path/filepath"
	"strings"
)

func funcBody(file, recv, name string) (string, error) {
	fset := token.NewFileSet()
	f, err := parser.ParseFile(fset, file, nil, 0) // comments dropped
	if err != nil {
		return "", err
	}
	for _, d := range f.Decls {
		fd, ok := d.(*ast.FuncDecl)
		if !ok || fd.Name.Name != name || fd.Body == nil {
			continue
		}
		r := ""
		if fd.Recv != nil && len(fd.Recv.List) == 1 {
			var b bytes.Buffer
			printer.Fprint(&b, fset, fd.Recv.List[0].Type)
			r = strings.TrimPrefix(b.String(), "*")
		}
		if r != recv {
			continue
		}
		var b bytes.Buffer
		if err := printer.Fprint(&b, fset, fd.Body); err != nil {
			return "", err
		}
		return strings.Join(strings.Fields(b.String()), " "), nil
	}
	return "", fmt.Errorf("%s: func (%s) %s not found", file, recv, name)
}

// ordered reports whether the fragments occur in body in this order.
func ordered(body string, frags ...string) bool {
	pos := 0
	for _, f := range frags {
		f = strings.Join(strings.Fields(f), " ")
		i := strings.Index(body[pos:], f)
		if i < 0 {
			return false
		}
		pos += i + len(f)
	}
	return true
}

func main() {
	root := "."
	if len(os.Args) > 1 {
		root = os.Args[1]
	}
	facts := map[string]interface{}{}
	get := func(rel, recv, name string) string {
		b, err := funcBody(filepath.Join(root, rel), recv, name)
		if err != nil {
			facts["error:"+rel+":"+name] = err.Error()
		}
		return b
	}
	initDone := get("client/reconnect.go", "ReconnectClient", "initDone")
	closeRC := get("client/reconnect.go", "ReconnectClient", "Close")
	subRC := get("client/reconnect.go", "ReconnectClient", "Subscribe")
	subBC := get("client/client.go", "BaseClient", "Subscribe")
	closeBC := get("client/client.go", "BaseClient", "Close")
	run := get("client/client.go", "BaseClient", "run")
	defRecv := get("client/gnmi/client.go", "Client", "defaultRecv")
	recv := get("client/gnmi/client.go", "Client", "Recv")
	cacheSub := get("client/cache.go", "CacheClient", "Subscribe")
	cacheH := get("client/cache.go", "CacheClient", "defaultHandler")

	facts["reconnect.initDone.cancelsIfClosed"] = ordered(initDone,
		"p.mu.Lock()", "defer p.mu.Unlock()", "p.subscribeDone = make(chan struct{})",
		"ctx, p.cancel = context.WithCancel(ctx)", "if p.closed { p.cancel() }", "close(p.subscribeDone)")
	facts["reconnect.Close.cancelThenFlag"] = ordered(closeRC,
		"p.mu.Lock()", "defer p.mu.Unlock()", "if p.cancel != nil { p.cancel() }", "p.closed = true",
		"return p.subscribeDone")
	facts["reconnect.Close.innerCloseThenWait"] = ordered(closeRC,
		"return p.subscribeDone", "err := p.Client.Close()", "if subscribeDone != nil { <-subscribeDone }", "return err")
	facts["reconnect.Subscribe.loopOrder"] = ordered(subRC,
		"ctx, done := p.initDone(ctx)", "defer done()", "for {", "err := p.Client.Subscribe(ctx, q, clientType...)",
		"if p.disconnect != nil { p.disconnect() }", "select { case <-ctx.Done(): return ctx.Err() default: }",
		"bo := p.backoff.NextBackOff()", "time.Sleep(bo)", "if p.reset != nil { p.reset() }")
	facts["reconnect.Subscribe.singleExit"] = strings.Count(subRC, "return ") == 2 // query type check + ctx exit
	facts["client.Subscribe.installUnderLock"] = ordered(subBC,
		"impl, err := getFirst(ctx, clientType, q, fn)", "if err != nil { return err }", "c.mu.Lock()",
		"if c.clientImpl != nil { c.clientImpl.Close() }", "c.clientImpl = impl", "c.closed = false", "c.mu.Unlock()",
		"return c.run(impl)")
	facts["client.Subscribe.closesImplOnSubscribeError"] = ordered(subBC,
		"if err := impl.Subscribe(ctx, q); err != nil { impl.Close() return nil, err }")
	facts["client.Close.flagThenImplClose"] = ordered(closeBC,
		"c.mu.Lock()", "defer c.mu.Unlock()", "if c.clientImpl == nil { return ErrClientInit }", "c.closed = true",
		"return c.clientImpl.Close()")
	facts["client.run.closedCheckAfterRecv"] = ordered(run,
		"for {", "err := impl.Recv()", "switch err {", "default:", "impl.Close() return err",
		"case io.EOF, ErrStopReading:", "return nil", "case nil:", "c.mu.RLock()", "closed := c.closed", "c.mu.RUnlock()",
		"if closed { return nil }")
	facts["gnmi.defaultRecv.connectedOnce"] = strings.HasPrefix(defRecv,
		"{ if !c.connected { c.handler(client.Connected{}) c.connected = true }")
	facts["gnmi.Recv.recvThenHandle"] = ordered(recv, "n, err := c.sub.Recv()", "if err != nil { return err }", "return c.recv(n)")
	facts["cache.Subscribe.wrapsHandler"] = ordered(cacheSub,
		"c.clientHandler = q.NotificationHandler", "q.NotificationHandler = c.defaultHandler",
		"return c.BaseClient.Subscribe(ctx, q, clientType...)")
	facts["cache.defaultHandler.forwards"] = ordered(cacheH,
		"case Connected:", "case Update:", "case Delete:", "case Sync:", "if c.clientHandler != nil { return c.clientHandler(n) }")
	b, _ := json.MarshalIndent(facts, "", " ")
	fmt.Println(string(b))
}
