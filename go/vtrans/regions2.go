package main

import (
	"go/ast"
)

// ---------------------------------------------------------------- further structural selectors

// firstRangeBody: the body of the first top-level `for … := range …` of the function.
func firstRangeBody(fd *ast.FuncDecl) ([]ast.Stmt, ast.Node) {
	for _, s := range fd.Body.List {
		if f, ok := s.(*ast.RangeStmt); ok {
			return f.Body.List, f.Body
		}
	}
	return nil, nil
}

// beforeTaglessSwitch: the statements of the function body before its first top-level tagless switch.
func beforeTaglessSwitch(fd *ast.FuncDecl) ([]ast.Stmt, ast.Node) {
	i := taglessSwitchAt(fd.Body.List)
	if i <= 0 {
		return nil, nil
	}
	l := fd.Body.List[:i]
	return l, span{l[0], l[len(l)-1]}
}

// funcLitOf: the body of the first function literal that is the callee of a statement of the given
// kind ("go", "defer") anywhere in the function (closures included), or — kind "apply" — of the
// first function literal applied on the spot on the right of a top-level `x := func…{…}()`.
func funcLitOf(kind string) func(fd *ast.FuncDecl) ([]ast.Stmt, ast.Node) {
	return func(fd *ast.FuncDecl) ([]ast.Stmt, ast.Node) {
		var found *ast.FuncLit
		if kind == "apply" {
			for _, s := range fd.Body.List {
				if as, ok := s.(*ast.AssignStmt); ok && len(as.Rhs) == 1 {
					if c, ok := as.Rhs[0].(*ast.CallExpr); ok {
						if fl, ok := c.Fun.(*ast.FuncLit); ok {
							return fl.Body.List, fl
						}
					}
				}
			}
			return nil, nil
		}
		ast.Inspect(fd.Body, func(x ast.Node) bool {
			if found != nil {
				return false
			}
			var c *ast.CallExpr
			switch v := x.(type) {
			case *ast.GoStmt:
				if kind == "go" {
					c = v.Call
				}
			case *ast.DeferStmt:
				if kind == "defer" {
					c = v.Call
				}
			}
			if c != nil {
				if fl, ok := c.Fun.(*ast.FuncLit); ok {
					found = fl
				}
			}
			return found == nil
		})
		if found == nil {
			return nil, nil
		}
		return found.Body.List, found
	}
}

// rangeBodyIn: the body of the first `for … := range …` nested anywhere in the function (closures
// excluded) whose range expression renders as over ("" = any).
func rangeBodyIn(over string) func(fd *ast.FuncDecl) ([]ast.Stmt, ast.Node) {
	return func(fd *ast.FuncDecl) ([]ast.Stmt, ast.Node) {
		var found *ast.RangeStmt
		ast.Inspect(fd.Body, func(x ast.Node) bool {
			if _, ok := x.(*ast.FuncLit); ok {
				return false
			}
			if f, ok := x.(*ast.RangeStmt); ok && found == nil && (over == "" || render(f.X) == over) {
				found = f
			}
			return found == nil
		})
		if found == nil {
			return nil, nil
		}
		return found.Body.List, found.Body
	}
}

// The regions added in round 3 (docs/GEN_TIE.md §1, second table).
var regions2 = []region{
	// ---- coalesce (C11, C08)
	{
		Name: "CoalesceInsert", Def: "gen_coalesceInsert",
		File: "coalesce/coalesce.go", Recv: "Queue", Func: "Insert",
		What: "the whole function body (closed test, locked insert, token post when the item is new)", Pick: wholeBody, Drop: logDrop,
		Effects: []string{"q.insert"},
	},
	{
		Name: "CoalesceInsertLocked", Def: "gen_coalesceInsertLocked",
		File: "coalesce/coalesce.go", Recv: "Queue", Func: "insert",
		What: "the whole function body (coalesce-or-append, duplicate count)", Pick: wholeBody, Drop: logDrop,
		CommaOk: true, SubstLabels: true,
	},
	{
		Name: "CoalesceNextLocked", Def: "gen_coalesceNextLocked",
		File: "coalesce/coalesce.go", Recv: "Queue", Func: "next",
		What: "the whole function body (dequeue, map entry deletion, count)", Pick: wholeBody, Drop: logDrop,
		SubstLabels: true,
	},
	// ---- manager (C13, C01, C16)
	{
		Name: "ManagerHandleUpdatesLoop", Def: "gen_handleUpdatesIteration",
		File: "manager/manager.go", Recv: "Manager", Func: "handleUpdates",
		What: "the body of the first top-level `for { … }`: one iteration of the receive loop", Pick: foreverBody, Drop: logDrop, LoopBody: true,
	},
	{
		Name: "ManagerCreateConnLoop", Def: "gen_createConnIteration",
		File: "manager/manager.go", Recv: "Manager", Func: "createConn",
		What: "the body of the first top-level `for … := range …`: one next hop", Pick: firstRangeBody, Drop: logDrop, LoopBody: true,
		Pure: []string{"ctx.Err"},
	},
	{
		Name: "ManagerMonitor", Def: "gen_monitor",
		File: "manager/manager.go", Recv: "Manager", Func: "monitor",
		What: "the whole function body (deferred connectError report, createConn, deferred done, subscribe)", Pick: wholeBody, Drop: logDrop,
		Pure: []string{"metadata.NewOutgoingContext"}, ElideFuncLits: true,
	},
	{
		Name: "ManagerMonitorDeferred", Def: "gen_monitorDeferred",
		File: "manager/manager.go", Recv: "Manager", Func: "monitor",
		What: "the body of the first deferred function literal (the connectError report)", Pick: funcLitOf("defer"), Drop: logDrop,
	},
	// ---- cache (C14, C03, C15, C02)
	{
		Name: "CacheTargetReset", Def: "gen_targetReset",
		File: "cache/cache.go", Recv: "Target", Func: "Reset",
		What: "the whole function body; the loop over the roots is one effect labelled by its header", Pick: wholeBody, Drop: logDrop,
		LoopHeader: true,
	},
	{
		Name: "CacheTargetResetRoot", Def: "gen_targetResetRoot",
		File: "cache/cache.go", Recv: "Target", Func: "Reset",
		What: "the body of the first top-level `for … := range …`: one root", Pick: firstRangeBody, Drop: logDrop, LoopBody: true,
	},
	{
		Name: "CacheReset", Def: "gen_cacheReset",
		File: "cache/cache.go", Recv: "Cache", Func: "Reset",
		What: "the whole function body", Pick: wholeBody, Drop: logDrop,
	},
	{
		Name: "CacheRemove", Def: "gen_cacheRemove",
		File: "cache/cache.go", Recv: "Cache", Func: "Remove",
		What: "the whole function body", Pick: wholeBody, Drop: logDrop,
	},
	{
		Name: "CacheConnectError", Def: "gen_cacheConnectError",
		File: "cache/cache.go", Recv: "Cache", Func: "ConnectError",
		What: "the whole function body", Pick: wholeBody, Drop: logDrop,
	},
	{
		Name: "CacheCheckTimestamp", Def: "gen_checkTimestamp",
		File: "cache/cache.go", Recv: "Target", Func: "checkTimestamp",
		What: "the whole function body (compare and store in one critical section)", Pick: wholeBody, Drop: logDrop,
	},
	{
		Name: "CacheGnmiUpdateTrack", Def: "gen_GnmiUpdateTrack",
		File: "cache/cache.go", Recv: "Target", Func: "GnmiUpdate",
		What: "the statements before the first top-level tagless switch: when the deferred timestamp tracking is installed", Pick: beforeTaglessSwitch, Drop: logDrop,
		Pure: []string{"joinPrefixAndPath"}, ElideFuncLits: true,
	},
	{
		Name: "CacheGnmiUpdateDeferred", Def: "gen_GnmiUpdateDeferred",
		File: "cache/cache.go", Recv: "Target", Func: "GnmiUpdate",
		What: "the body of the first deferred function literal (the timestamp tracking)", Pick: funcLitOf("defer"), Drop: logDrop,
	},
	// ---- subscribe (C04, C05, C06, C08)
	{
		Name: "SubscribeProcess", Def: "gen_processSubscription",
		File: "subscribe/subscribe.go", Recv: "Server", Func: "processSubscription",
		What: "the whole function body; the loop over the subscriptions is one effect labelled by its header", Pick: wholeBody,
		Drop: []string{"log.", "verifPoint"}, LoopHeader: true, ElideFuncLits: true,
	},
	{
		Name: "SubscribeProcessDeferred", Def: "gen_processSubscriptionDeferred",
		File: "subscribe/subscribe.go", Recv: "Server", Func: "processSubscription",
		What: "the body of the first deferred function literal (the error report that ends the RPC)", Pick: funcLitOf("defer"),
		Drop: logDrop,
	},
	{
		Name: "SubscribeProcessPath", Def: "gen_processSubscriptionPath",
		File: "subscribe/subscribe.go", Recv: "Server", Func: "processSubscription",
		What: "the body of the first `for … := range …` of the function: one subscription path", Pick: rangeBodyIn(""),
		Drop: []string{"log.", "verifPoint"}, LoopBody: true,
		ElideFuncLits: true,
	},
	{
		Name: "SubscribeProcessLeaf", Def: "gen_processSubscriptionLeaf",
		File: "subscribe/subscribe.go", Recv: "Server", Func: "processSubscription",
		What: "the visitor (function literal, argument 2) handed to s.c.Query: what is done per leaf", Pick: funcLitArg("s.c.Query", 2),
		Drop: logDrop,
	},
	{
		Name: "SubscribeAddSubscription", Def: "gen_addSubscriptionPath",
		File: "subscribe/subscribe.go", Recv: "", Func: "addSubscription",
		What: "the body of the first top-level `for … := range …`: the query registered for one subscription", Pick: firstRangeBody,
		Drop: logDrop, LoopBody: true,
		SubstLabels: true,
	},
	{
		Name: "SubscribeMakeResponse", Def: "gen_MakeSubscribeResponse",
		File: "subscribe/subscribe.go", Recv: "Server", Func: "MakeSubscribeResponse",
		What: "the whole function body", Pick: wholeBody, Drop: logDrop,
		CommaOk: true, SubstLabels: true,
	},
	{
		Name: "SubscribeUpdate", Def: "gen_serverUpdate",
		File: "subscribe/subscribe.go", Recv: "Server", Func: "Update",
		What: "the whole function body", Pick: wholeBody, Drop: logDrop,
	},
	{
		Name: "SubscribeUpdateNotification", Def: "gen_UpdateNotification",
		File: "subscribe/subscribe.go", Recv: "", Func: "UpdateNotification",
		What: "the whole function body; loops are effects labelled by their header", Pick: wholeBody, Drop: logDrop, LoopHeader: true,
		Effects: []string{"make"}, // where the `updated` set is created is part of the logic (one set per notification)
	},
	{
		Name: "SubscribeUpdateNotificationUpd", Def: "gen_UpdateNotificationUpd",
		File: "subscribe/subscribe.go", Recv: "", Func: "UpdateNotification",
		What: "the body of the loop over n.Update", Pick: rangeBodyIn("n.Update"), Drop: logDrop, LoopBody: true,
		Effects: []string{"make"},
	},
	{
		Name: "SubscribeUpdateNotificationDel", Def: "gen_UpdateNotificationDel",
		File: "subscribe/subscribe.go", Recv: "", Func: "UpdateNotification",
		What: "the body of the loop over n.Delete", Pick: rangeBodyIn("n.Delete"), Drop: logDrop, LoopBody: true,
		Effects: []string{"make"},
	},
	// ---- connection (C16)
	{
		Name: "ConnectionConnection", Def: "gen_connectionConnection",
		File: "connection/connection.go", Recv: "Manager", Func: "Connection",
		What: "the whole function body", Pick: wholeBody, Drop: logDrop,
		Pure: []string{"ctx.Err", "newConnection"},
		CommaOk: true, SubstLabels: true,
	},
	{
		Name: "ConnectionDial", Def: "gen_connectionDial",
		File: "connection/connection.go", Recv: "Manager", Func: "dial",
		What: "the whole function body", Pick: wholeBody, Drop: logDrop,
		Pure:    []string{"fmt.Errorf"},
		CommaOk: true,
	},
	// ---- client (C18)
	{
		Name: "ClientReconnectClose", Def: "gen_reconnectClose",
		File: "client/reconnect.go", Recv: "ReconnectClient", Func: "Close",
		What: "the whole function body", Pick: wholeBody, Drop: logDrop,
		ElideFuncLits: true,
	},
	{
		Name: "ClientReconnectCloseLocked", Def: "gen_reconnectCloseLocked",
		File: "client/reconnect.go", Recv: "ReconnectClient", Func: "Close",
		What: "the body of the function literal applied on the spot by the first top-level `:=` (the locked section)", Pick: funcLitOf("apply"), Drop: logDrop,
	},
	{
		Name: "ClientReconnectPoll", Def: "gen_reconnectPoll",
		File: "client/reconnect.go", Recv: "ReconnectClient", Func: "Poll",
		What: "the whole function body", Pick: wholeBody, Drop: logDrop,
	},
	{
		Name: "ClientGetFirstWorker", Def: "gen_getFirstWorker",
		File: "client/register.go", Recv: "", Func: "getFirst",
		What: "the body of the first function literal started with `go` (one client type)", Pick: funcLitOf("go"), Drop: logDrop,
	},
	// ---- ctree entry points (C09, C02)
	{
		Name: "CtreeQuery", Def: "gen_ctreeQuery",
		File: "ctree/tree.go", Recv: "Tree", Func: "Query",
		What: "the whole function body", Pick: wholeBody, Drop: logDrop,
	},
	{
		Name: "CtreeWalkDeleted", Def: "gen_ctreeWalkDeleted",
		File: "ctree/tree.go", Recv: "Tree", Func: "WalkDeleted",
		What: "the whole function body", Pick: wholeBody, Drop: logDrop,
	},
	{
		Name: "CtreeDeleteConditional", Def: "gen_ctreeDeleteConditional",
		File: "ctree/tree.go", Recv: "Tree", Func: "DeleteConditional",
		What: "the whole function body", Pick: wholeBody, Drop: logDrop, ElideFuncLits: true,
	},
	{
		Name: "CtreeDelete", Def: "gen_ctreeDelete",
		File: "ctree/tree.go", Recv: "Tree", Func: "Delete",
		What: "the whole function body", Pick: wholeBody, Drop: logDrop, SubstLabels: true,
	},
	// ---- fake queue (C20)
	{
		Name: "FakeQueueAddValueLatest", Def: "gen_addValueLatest",
		File: "testing/fake/queue/queue.go", Recv: "UpdateQueue", Func: "addValue",
		What: "the statements before the first top-level `for` (default timestamp, tracking of the latest timestamp)",
		Pick: beforeFirstFor, Drop: logDrop,
	},
	// ---- target (C17)
	{
		Name: "TargetHandleDiffsReq", Def: "gen_handleDiffsReq",
		File: "target/target.go", Recv: "Config", Func: "handleDiffs",
		What: "the body of the loop over config.Request: which requests count as changed", Pick: rangeBodyIn("config.Request"),
		Drop: logDrop, LoopBody: true, CommaOk: true,
		Pure: []string{"proto.Equal"},
	},
	{
		Name: "TargetHandleDiffsOld", Def: "gen_handleDiffsOld",
		File: "target/target.go", Recv: "Config", Func: "handleDiffs",
		What: "the body of the loop over the old targets: delete / unchanged / update", Pick: rangeBodyIn("c.configuration.GetTarget()"),
		Drop: logDrop, LoopBody: true,
		Pure: []string{"proto.Equal"},
	},
	{
		Name: "TargetHandleDiffsNew", Def: "gen_handleDiffsNew",
		File: "target/target.go", Recv: "Config", Func: "handleDiffs",
		What: "the body of the loop over what is left in newTargets: add", Pick: rangeBodyIn("newTargets"),
		Drop: logDrop, LoopBody: true,
		Pure: []string{"proto.Equal"},
	},
	// ---- path (C19)
	{
		Name: "PathToStrings", Def: "gen_ToStrings",
		File: "path/path.go", Recv: "", Func: "ToStrings",
		What: "the whole function body; the loop over the elements is one effect labelled by its header", Pick: wholeBody,
		Drop: logDrop, LoopHeader: true, SubstLabels: true,
	},
	{
		Name: "PathToStringsElem", Def: "gen_ToStringsElem",
		File: "path/path.go", Recv: "", Func: "ToStrings",
		What: "the body of the loop over p.GetElem(): name, then the key values by the number of keys", Pick: rangeBodyIn("p.GetElem()"),
		Drop: logDrop, LoopBody: true, SubstLabels: true,
	},
}

// beforeFirstFor: the statements of the function body before its first top-level `for`.
func beforeFirstFor(fd *ast.FuncDecl) ([]ast.Stmt, ast.Node) {
	for i, s := range fd.Body.List {
		switch s.(type) {
		case *ast.ForStmt, *ast.RangeStmt:
			if i == 0 {
				return nil, nil
			}
			l := fd.Body.List[:i]
			return l, span{l[0], l[len(l)-1]}
		}
	}
	return nil, nil
}

func init() { regions = append(regions, regions2...) }
