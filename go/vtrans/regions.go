package main

import (
	"go/ast"
	"go/token"
)

// ---------------------------------------------------------------- structural region selectors
//
// A region is identified by the enclosing function and the *shape* of a statement, never by a line
// number.  A selector returns the statements of the region and the node whose extent is reported in
// the header of the generated file (nil = not found).

// wholeBody: the function body.
func wholeBody(fd *ast.FuncDecl) ([]ast.Stmt, ast.Node) { return fd.Body.List, fd.Body }

func taglessSwitchAt(list []ast.Stmt) int {
	for i, s := range list {
		if sw, ok := s.(*ast.SwitchStmt); ok && sw.Tag == nil {
			return i
		}
	}
	return -1
}

type span struct{ pos, end ast.Node }

func (s span) Pos() (p token.Pos) { return s.pos.Pos() }
func (s span) End() (p token.Pos) { return s.end.End() }

// fromTaglessSwitch: the statements of the function body from its first top-level tagless `switch`
// to the end of the body.
func fromTaglessSwitch(fd *ast.FuncDecl) ([]ast.Stmt, ast.Node) {
	i := taglessSwitchAt(fd.Body.List)
	if i < 0 {
		return nil, nil
	}
	l := fd.Body.List[i:]
	return l, span{l[0], l[len(l)-1]}
}

// switchInIfWithInit: in the first top-level `if x := …; cond { … }` of the function whose block has a
// tagless `switch` among its statements: the statements of that block from the switch on.
func switchInIfWithInit(fd *ast.FuncDecl) ([]ast.Stmt, ast.Node) {
	for _, s := range fd.Body.List {
		is, ok := s.(*ast.IfStmt)
		if !ok || is.Init == nil {
			continue
		}
		if i := taglessSwitchAt(is.Body.List); i >= 0 {
			l := is.Body.List[i:]
			return l, span{l[0], l[len(l)-1]}
		}
	}
	return nil, nil
}

// funcLitArg: the body of the function literal passed as argument number arg of the first call of
// callee (rendered callee text) anywhere in the function.
func funcLitArg(callee string, arg int) func(fd *ast.FuncDecl) ([]ast.Stmt, ast.Node) {
	return func(fd *ast.FuncDecl) ([]ast.Stmt, ast.Node) {
		var found *ast.FuncLit
		ast.Inspect(fd.Body, func(x ast.Node) bool {
			if c, ok := x.(*ast.CallExpr); ok && found == nil && render(c.Fun) == callee && arg < len(c.Args) {
				if fl, ok := c.Args[arg].(*ast.FuncLit); ok {
					found = fl
				}
			}
			return found == nil
		})
		if found == nil {
			return nil, nil
		}
		return found.Body.List, found
	}
}

// firstFuncLitBound: the body of the first function literal bound by a top-level `name := func…`.
func firstFuncLitBound(fd *ast.FuncDecl) ([]ast.Stmt, ast.Node) {
	for _, s := range fd.Body.List {
		if as, ok := s.(*ast.AssignStmt); ok && len(as.Rhs) == 1 {
			if fl, ok := as.Rhs[0].(*ast.FuncLit); ok {
				return fl.Body.List, fl
			}
		}
	}
	return nil, nil
}

// foreverBody: the body of the first top-level `for { … }` without condition.
func foreverBody(fd *ast.FuncDecl) ([]ast.Stmt, ast.Node) {
	for _, s := range fd.Body.List {
		if f, ok := s.(*ast.ForStmt); ok && f.Cond == nil && f.Init == nil && f.Post == nil {
			return f.Body.List, f.Body
		}
	}
	return nil, nil
}

var logDrop = []string{"log."}

// The functions translated on every run.
var regions = []region{
	{
		Name: "TargetCheckRevision", Def: "gen_checkRevision",
		File: "target/target.go", Recv: "Config", Func: "checkRevision",
		What: "the whole function body", Pick: wholeBody, Drop: logDrop,
	},
	{
		Name: "CacheGnmiUpdateLeaf", Def: "gen_gnmiUpdateLeaf",
		File: "cache/cache.go", Recv: "Target", Func: "gnmiUpdate",
		What: "update of an existing leaf: in the first top-level `if x := …; … {` whose block contains a tagless switch, " +
			"from that switch (the timestamp discipline) to the end of the block",
		Pick: switchInIfWithInit, Drop: logDrop,
		// cache.T(n) = time.Unix(0, n): instants are their Unix nanoseconds; time.Time.Sub saturates
		Interp:  map[string]string{"T": "id", ".Sub": "timeSub"},
		Pure:    []string{"t.latest"},
		IntArgs: map[string][]int{"t.meta.AddInt": {1}},
	},
	{
		Name: "CacheGnmiRemoveOlder", Def: "gen_gnmiRemoveOlder",
		File: "cache/cache.go", Recv: "Target", Func: "gnmiRemove",
		What: "the predicate (function literal, argument 1) handed to t.t.WalkDeleted: which leaves a delete removes",
		Pick: funcLitArg("t.t.WalkDeleted", 1), Drop: logDrop,
	},
	{
		Name: "CacheGnmiUpdateDispatch", Def: "gen_GnmiUpdateDispatch",
		File: "cache/cache.go", Recv: "Target", Func: "GnmiUpdate",
		What: "from the first top-level tagless switch (atomic / several / one update / one delete / empty) to the end of the function",
		Pick: fromTaglessSwitch, Drop: logDrop,
		Pure:    []string{"proto.Clone", "errs.Err"},
		Interp:  map[string]string{"int64": "id"},
		IntArgs: map[string][]int{"t.meta.AddInt": {1}},
	},
	{
		Name: "SubscribeIsTargetDelete", Def: "gen_isTargetDelete",
		File: "subscribe/subscribe.go", Recv: "", Func: "isTargetDelete",
		What: "the whole function body", Pick: wholeBody, Drop: logDrop,
		Pure: []string{"path.ToStrings"},
	},
	{
		Name: "SubscribeHandler", Def: "gen_Subscribe",
		File: "subscribe/subscribe.go", Recv: "Server", Func: "Subscribe",
		What: "from the first top-level tagless switch (the checks on the first received request) to the end of the function: " +
			"request checks, HasTarget, the single-target ACL check, the mode dispatch, the sender goroutine",
		Pick: fromTaglessSwitch, Drop: logDrop,
		Pure: []string{"peer.FromContext", "mode.String"},
	},
	{
		Name: "SubscribeSendResponse", Def: "gen_sendSubscribeResponse",
		File: "subscribe/subscribe.go", Recv: "Server", Func: "sendSubscribeResponse",
		What: "the whole function body", Pick: wholeBody, Drop: logDrop,
		Effects: []string{"r.stream.Send"},
	},
	{
		Name: "ConnectionDone", Def: "gen_connectionDone",
		File: "connection/connection.go", Recv: "connection", Func: "done",
		What: "the body of the first function literal bound by a top-level `:=` (the once-guarded release)",
		Pick: firstFuncLitBound, Drop: logDrop,
	},
	{
		Name: "ConnectionRemove", Def: "gen_connectionRemove",
		File: "connection/connection.go", Recv: "Manager", Func: "remove",
		What: "the whole function body", Pick: wholeBody, Drop: logDrop,
	},
	{
		Name: "ClientReconnectLoop", Def: "gen_reconnectIteration",
		File: "client/reconnect.go", Recv: "ReconnectClient", Func: "Subscribe",
		What: "the body of the first top-level `for { … }`: one iteration of the reconnect loop",
		Pick: foreverBody, Drop: logDrop, LoopBody: true,
		Pure: []string{"ctx.Err"},
	},
	{
		Name: "LatencyWindowAdd", Def: "gen_windowAdd",
		File: "latency/latency.go", Recv: "window", Func: "add",
		What: "the whole function body", Pick: wholeBody, Drop: logDrop,
	},
	{
		Name: "LatencySetAvg", Def: "gen_setAvg",
		File: "latency/latency.go", Recv: "window", Func: "setAvg",
		What: "the whole function body", Pick: wholeBody, Drop: logDrop,
		Interp:  map[string]string{"time.Duration": "id", ".Nanoseconds": "id"},
		IntArgs: map[string][]int{"m.SetInt": {1}},
	},
	{
		Name: "FakeQueueUpdateTimestamp", Def: "gen_updateTimestamp",
		File: "testing/fake/queue/queue.go", Recv: "value", Func: "updateTimestamp",
		What: "the whole function body", Pick: wholeBody, Drop: logDrop,
		FuncAtoms: map[string]bool{"v.r.Int63n": true},
	},
	{
		Name: "MetadataResetEntry", Def: "gen_ResetEntry",
		File: "metadata/metadata.go", Recv: "Metadata", Func: "ResetEntry",
		What: "the whole function body", Pick: wholeBody, Drop: logDrop,
	},
}
