// Command vtrans translates the decision logic of a fixed list of functions (or structurally
// identified regions of functions) of the repository's *current* source into Lean 4 definitions
// lean/Gnmi/Gen/<Name>.lean.  The hand-written obligation modules lean/Gnmi/GenProps/<Name>.lean
// prove, for all inputs, that each generated definition agrees with the definition of the
// hand-written model the property theorems are about.  See docs/GEN_TIE.md.
//
// usage: vtrans <repo root> <output directory>
//
// The translator always exits 0 and always writes every file: a region it cannot find or cannot
// translate yields `def <name>_untranslatable : String := "<reason>"` instead of the definition, so
// that exactly the obligation modules that import it stop elaborating.
package main

import (
	"bytes"
	"fmt"
	"go/ast"
	"go/parser"
	"go/printer"
	"go/token"
	"math/big"
	"os"
	"path/filepath"
	"reflect"
	"sort"
	"strconv"
	"strings"
)

var fset = token.NewFileSet()

// render: the normalised source text of a node.  The node is copied without positions first, so that
// the text does not depend on how the source happens to be laid out (line breaks inside a call, …)
// nor on whether parts of the tree were substituted by the translator.
func render(n ast.Node) string {
	var b bytes.Buffer
	c := reflect.ValueOf(n)
	printer.Fprint(&b, token.NewFileSet(), stripPos(c).Interface())
	return strings.Join(strings.Fields(b.String()), " ")
}

var (
	posType    = reflect.TypeOf(token.NoPos)
	objectType = reflect.TypeOf((*ast.Object)(nil))
	scopeType  = reflect.TypeOf((*ast.Scope)(nil))
)

// stripPos deep-copies an AST value, zeroing every token.Pos and dropping resolver links.
func stripPos(v reflect.Value) reflect.Value {
	switch v.Kind() {
	case reflect.Ptr:
		if v.IsNil() || v.Type() == objectType || v.Type() == scopeType {
			return reflect.Zero(v.Type())
		}
		n := reflect.New(v.Type().Elem())
		n.Elem().Set(stripPos(v.Elem()))
		return n
	case reflect.Interface:
		if v.IsNil() {
			return reflect.Zero(v.Type())
		}
		n := reflect.New(v.Type()).Elem()
		n.Set(stripPos(v.Elem()))
		return n
	case reflect.Struct:
		n := reflect.New(v.Type()).Elem()
		for i := 0; i < v.NumField(); i++ {
			f := v.Field(i)
			if f.Type() == posType {
				// a few positions carry meaning by being valid (`f(xs...)`, `type A = B`, `var ( … )`)
				switch v.Type().Field(i).Name {
				case "Ellipsis", "Assign", "Lparen", "Func", "Arrow":
					if f.Interface().(token.Pos).IsValid() {
						n.Field(i).Set(reflect.ValueOf(token.Pos(1)))
					}
				}
				continue
			}
			if n.Field(i).CanSet() {
				n.Field(i).Set(stripPos(f))
			}
		}
		return n
	case reflect.Slice:
		if v.IsNil() {
			return reflect.Zero(v.Type())
		}
		n := reflect.MakeSlice(v.Type(), v.Len(), v.Len())
		for i := 0; i < v.Len(); i++ {
			n.Index(i).Set(stripPos(v.Index(i)))
		}
		return n
	}
	return v
}

// ---------------------------------------------------------------- failure

type untrans struct{ why string }

func fail(format string, a ...interface{}) {
	panic(untrans{fmt.Sprintf(format, a...)})
}

// ---------------------------------------------------------------- types, atoms

type typ int

const (
	tUnknown typ = iota
	tBool
	tInt
	tStr
)

func (t typ) lean() string {
	switch t {
	case tBool:
		return "Bool"
	case tInt:
		return "Int"
	case tStr:
		return "String"
	}
	return "?"
}

type atom struct {
	text  string
	name  string
	t     typ
	arity int // > 0: a function atom Int^arity → Int
}

var leanKeywords = map[string]bool{}

func init() {
	for _, k := range strings.Fields("end at from fun then if else do let in with match open def deriving have show by where " +
		"instance structure inductive class namespace section variable theorem example import universe mutual local " +
		"private protected macro syntax notation infix prefix postfix attribute set_option export extends for unless " +
		"return try catch finally using calc nomatch nofun Type Prop Sort id") {
		leanKeywords[k] = true
	}
}

// sanitise turns a source rendering into a Lean identifier (not necessarily unique).
func sanitise(s string) string {
	r := strings.NewReplacer("==", " eq ", "!=", " ne ", "<-", " recv ", "&", " ref ", ".(type)", " type", "()", "", "·", " v")
	s = r.Replace(s)
	var b strings.Builder
	last := byte('_')
	for i := 0; i < len(s); i++ {
		c := s[i]
		ok := c >= 'a' && c <= 'z' || c >= 'A' && c <= 'Z' || c >= '0' && c <= '9'
		if !ok {
			c = '_'
		}
		if c == '_' && last == '_' {
			continue
		}
		b.WriteByte(c)
		last = c
	}
	out := strings.Trim(b.String(), "_")
	if out == "" || out[0] >= '0' && out[0] <= '9' || leanKeywords[out] {
		out = "v_" + out
	}
	if len(out) > 60 {
		out = out[:60]
	}
	return out
}

// ---------------------------------------------------------------- regions

type region struct {
	Name string // output file Gen/<Name>.lean
	Def  string // Lean definition name
	File string // path below the repository root
	Recv string // receiver type ("" = plain function)
	Func string
	What string // which part of the function (for the header)
	// Pick returns the statements of the region and the node whose extent is reported.
	Pick func(fd *ast.FuncDecl) ([]ast.Stmt, ast.Node)
	// Drop: calls in statement position (also behind go/defer) whose callee starts with one of
	// these are not effects (logging).
	Drop []string
	// Effects: callees whose call is an effect even when its results are bound (`x, err := f()`);
	// the bound names become opaque atoms.
	Effects []string
	// Pure: callees whose call may be bound (`x := f()`) and substituted like any other atom.  Besides
	// these, interpreted calls (Interp, FuncAtoms), builtins / conversions and protobuf getters
	// (methods named Get…) are pure; every other call bound by a statement is an effect whose results
	// are opaque.  (Calls inside conditions and operands are atoms, assumed pure: docs/GEN_TIE.md.)
	Pure []string
	// Interp: callee → "id" (conversion: the argument / the receiver) or "timeSub".  A key starting
	// with "." matches a method name.
	Interp map[string]string
	// FuncAtoms: callees that become function parameters Int → … → Int applied to interpreted arguments.
	FuncAtoms map[string]bool
	// IntArgs: effect callees some of whose argument positions are interpreted as integers and
	// recorded in the effect.
	IntArgs map[string][]int
	// LoopBody: the region is the body of a loop: `continue` / `break` end the path.
	LoopBody bool
	// LoopHeader: a `for` / `range` statement is one effect labelled by its header only (`for _, x :=
	// range xs { }`); its body is translated as a region of its own (LoopBody).  When the body holds a
	// `return`, the effect is followed by a test of the atom `returned(<header>)`: true = the function
	// returned from inside the loop (`Val.label "return in loop"`).
	LoopHeader bool
	// ElideFuncLits: function literals among the arguments of an effect call are rendered `ƒ` in the
	// label (their bodies are translated as regions of their own).
	ElideFuncLits bool
	// CommaOk: the pure two-valued forms `v, ok := m[k]` / `x.(T)` bind `v` to the expression and `ok`
	// to the atom `ok(<expression>)` (without the option `ok` is an opaque name of its own).
	CommaOk bool
	// SubstLabels: effect labels of calls and assignments, and the text of uninterpreted result lists,
	// are rendered after substitution of the region's locals (so that the label shows *what* is
	// written / passed: `m.AddQuery(append(prefix, origin), c)` rather than `m.AddQuery(query, c)`);
	// `delete(m, k)` makes later reads of `m[k]` a new opaque value.
	SubstLabels bool
	// Captured: locals of the region that a closure of the function reads (a flag tested by a deferred
	// closure): an assignment to one is substituted at its uses like any local *and* is an effect
	// (its text), so that an obligation can follow the value the closure will see.
	Captured []string
}

// ---------------------------------------------------------------- environment

type env struct {
	scopes []map[string]ast.Expr // scopes[0]: tracked non-local lvalues (by rendering) and names from outside the region
	ver    map[string]int
	brk    []cont
}

type cont func(e *env) node

func newEnv() *env {
	return &env{scopes: []map[string]ast.Expr{{}, {}}, ver: map[string]int{}}
}

func (e *env) clone() *env {
	n := &env{ver: map[string]int{}, brk: append([]cont(nil), e.brk...)}
	for _, s := range e.scopes {
		c := map[string]ast.Expr{}
		for k, v := range s {
			c[k] = v
		}
		n.scopes = append(n.scopes, c)
	}
	for k, v := range e.ver {
		n.ver[k] = v
	}
	return n
}

func (e *env) push() { e.scopes = append(e.scopes, map[string]ast.Expr{}) }

func (e *env) truncate(depth int) *env {
	e.scopes = e.scopes[:depth]
	return e
}

func (e *env) lookup(key string) (ast.Expr, bool) {
	for i := len(e.scopes) - 1; i >= 0; i-- {
		if v, ok := e.scopes[i][key]; ok {
			return v, true
		}
	}
	return nil, false
}

// declaredAt returns the index of the innermost scope (>= 1) declaring name, or 0.
func (e *env) declaredAt(name string) int {
	for i := len(e.scopes) - 1; i >= 1; i-- {
		if _, ok := e.scopes[i][name]; ok {
			return i
		}
	}
	return 0
}

func (e *env) declare(name string, v ast.Expr) { e.scopes[len(e.scopes)-1][name] = v }

func (e *env) set(key string, v ast.Expr) { e.scopes[e.declaredAt(key)][key] = v }

// opaque returns a fresh name standing for an uninterpreted value bound to key.
func (e *env) opaque(key string) ast.Expr {
	e.ver[key]++
	if e.ver[key] == 1 {
		return &ast.Ident{Name: key}
	}
	return &ast.Ident{Name: fmt.Sprintf("%s·%d", key, e.ver[key])}
}

// ---------------------------------------------------------------- outcome tree

type node interface{}
type nIf struct {
	cond string
	a, b node
}
type nEff struct {
	label string
	args  []string
	k     node
}
type nRet struct{ val string }

func show(n node, ind string, b *strings.Builder) {
	switch v := n.(type) {
	case nRet:
		b.WriteString(ind + "Gen.ret " + v.val + "\n")
	case nEff:
		b.WriteString(ind + "Gen.eff " + leanString(v.label) + " [" + strings.Join(v.args, ", ") + "] <|\n")
		show(v.k, ind, b)
	case nIf:
		b.WriteString(ind + "if " + v.cond + " then\n")
		show(v.a, ind+"  ", b)
		b.WriteString(ind + "else\n")
		show(v.b, ind+"  ", b)
	}
}

func showString(n node) string {
	var b strings.Builder
	show(n, "", &b)
	return b.String()
}

func leanString(s string) string {
	var b strings.Builder
	b.WriteByte('"')
	for _, r := range s {
		switch {
		case r == '"':
			b.WriteString("\\\"")
		case r == '\\':
			b.WriteString("\\\\")
		case r < 0x20:
			b.WriteString(fmt.Sprintf("\\x%02x", r))
		default:
			b.WriteRune(r)
		}
	}
	b.WriteByte('"')
	return b.String()
}

// ---------------------------------------------------------------- translator

type tr struct {
	r        *region
	atoms    map[string]*atom
	evidence map[string]typ // atom text → type seen in the previous pass
	names    map[string]bool
	nodes    int
}

func (t *tr) mk(n node) node {
	t.nodes++
	if t.nodes > 20000 {
		fail("path explosion: more than 20000 outcome nodes")
	}
	if v, ok := n.(nIf); ok {
		// both branches identical: the (pure) condition does not matter
		if showString(v.a) == showString(v.b) {
			return v.a
		}
	}
	return n
}

func (t *tr) atom(x ast.Expr, ty typ) string {
	return t.atomText(render(x), ty, 0)
}

func (t *tr) atomText(text string, ty typ, arity int) string {
	if a, ok := t.atoms[text]; ok {
		if a.t != ty || a.arity != arity {
			fail("atom `%s` is used both as %s and as %s", text, a.t.lean(), ty.lean())
		}
		return a.name
	}
	a := &atom{text: text, t: ty, arity: arity, name: sanitise(text)}
	for base, i := a.name, 2; t.names[a.name]; i++ { // two renderings with the same sanitised form
		a.name = fmt.Sprintf("%s_%d", base, i)
	}
	t.names[a.name] = true
	t.atoms[text] = a
	if arity == 0 {
		t.evidence[text] = ty
	}
	return a.name
}

func (t *tr) calleeIn(callee string, list []string) bool {
	for _, p := range list {
		if callee == p {
			return true
		}
	}
	return false
}

var builtinPure = map[string]bool{"len": true, "cap": true, "int": true, "int8": true, "int16": true, "int32": true, "int64": true,
	"uint": true, "uint8": true, "uint16": true, "uint32": true, "uint64": true, "float32": true, "float64": true, "string": true,
	"bool": true, "byte": true, "rune": true, "append": true, "make": true, "new": true, "min": true, "max": true}

// pureCall: may this call, bound by a statement, be substituted at its uses (and vanish when unused)?
func (t *tr) pureCall(c *ast.CallExpr) bool {
	callee := render(c.Fun)
	if t.calleeIn(callee, t.r.Effects) {
		return false
	}
	if how, _ := t.interp(c); how != "" || t.r.FuncAtoms[callee] || builtinPure[callee] || t.calleeIn(callee, t.r.Pure) {
		return true
	}
	if s, ok := c.Fun.(*ast.SelectorExpr); ok && strings.HasPrefix(s.Sel.Name, "Get") && len(c.Args) == 0 {
		return true // protobuf getter
	}
	switch c.Fun.(type) {
	case *ast.ArrayType, *ast.MapType, *ast.StarExpr, *ast.ParenExpr, *ast.InterfaceType, *ast.ChanType, *ast.FuncType:
		return true // conversion to a composite type
	}
	return false
}

func (t *tr) dropped(callee string) bool {
	for _, p := range t.r.Drop {
		if strings.HasPrefix(callee, p) {
			return true
		}
	}
	return false
}

// interp returns the interpretation of a call and its operands (receiver first for methods).
func (t *tr) interp(c *ast.CallExpr) (string, []ast.Expr) {
	if how, ok := t.r.Interp[render(c.Fun)]; ok {
		return how, c.Args
	}
	if s, ok := c.Fun.(*ast.SelectorExpr); ok {
		if how, ok := t.r.Interp["."+s.Sel.Name]; ok {
			return how, append([]ast.Expr{s.X}, c.Args...)
		}
	}
	return "", nil
}

// --- substitution

func paren(x ast.Expr) ast.Expr {
	switch x.(type) {
	case *ast.BinaryExpr, *ast.UnaryExpr, *ast.StarExpr, *ast.FuncLit, *ast.KeyValueExpr:
		return &ast.ParenExpr{X: x}
	}
	return x
}

func (t *tr) substList(e *env, xs []ast.Expr) []ast.Expr {
	out := make([]ast.Expr, len(xs))
	for i, x := range xs {
		out[i] = t.subst(e, x)
	}
	return out
}

// subst replaces names bound in e (and tracked lvalues) by their values; the values are closed
// (already substituted when they were bound) and are not visited again.
func (t *tr) subst(e *env, x ast.Expr) ast.Expr {
	switch v := x.(type) {
	case nil:
		return nil
	case *ast.Ident:
		if r, ok := e.lookup(v.Name); ok {
			return paren(r)
		}
		return v
	case *ast.ParenExpr:
		return &ast.ParenExpr{X: t.subst(e, v.X)}
	case *ast.SelectorExpr:
		n := &ast.SelectorExpr{X: t.subst(e, v.X), Sel: v.Sel}
		if r, ok := e.scopes[0][render(n)]; ok {
			return paren(r)
		}
		return n
	case *ast.IndexExpr:
		n := &ast.IndexExpr{X: t.subst(e, v.X), Index: t.subst(e, v.Index)}
		if r, ok := e.scopes[0][render(n)]; ok {
			return paren(r)
		}
		return n
	case *ast.SliceExpr:
		return &ast.SliceExpr{X: t.subst(e, v.X), Low: t.subst(e, v.Low), High: t.subst(e, v.High), Max: t.subst(e, v.Max), Slice3: v.Slice3}
	case *ast.StarExpr:
		return &ast.StarExpr{X: t.subst(e, v.X)}
	case *ast.UnaryExpr:
		return &ast.UnaryExpr{Op: v.Op, X: t.subst(e, v.X)}
	case *ast.BinaryExpr:
		return &ast.BinaryExpr{X: t.subst(e, v.X), Op: v.Op, Y: t.subst(e, v.Y)}
	case *ast.TypeAssertExpr:
		return &ast.TypeAssertExpr{X: t.subst(e, v.X), Type: v.Type}
	case *ast.CallExpr:
		fun := v.Fun
		switch f := fun.(type) {
		case *ast.SelectorExpr:
			fun = &ast.SelectorExpr{X: t.subst(e, f.X), Sel: f.Sel}
		case *ast.Ident:
			// a conversion or a call of a named function: not a variable of the region unless bound to a func literal
			if r, ok := e.lookup(f.Name); ok {
				fun = paren(r)
			}
		case *ast.ParenExpr, *ast.ArrayType, *ast.MapType, *ast.StarExpr, *ast.FuncLit, *ast.IndexExpr:
			// conversions to composite types, immediately applied literals: left alone
		}
		return &ast.CallExpr{Fun: fun, Args: t.substList(e, v.Args), Ellipsis: v.Ellipsis}
	}
	// literals, composite literals, function literals, types: left alone
	return x
}

// --- expressions (operands are already substituted)

func isIdent(x ast.Expr, name string) bool {
	id, ok := x.(*ast.Ident)
	return ok && id.Name == name
}

func isBoolLit(x ast.Expr) bool {
	return isIdent(strip(x), "true") || isIdent(strip(x), "false")
}

func strip(x ast.Expr) ast.Expr {
	for {
		p, ok := x.(*ast.ParenExpr)
		if !ok {
			return x
		}
		x = p.X
	}
}

// kind guesses how an expression is to be interpreted.
func (t *tr) kind(x ast.Expr) typ {
	x = strip(x)
	switch v := x.(type) {
	case *ast.BasicLit:
		switch v.Kind {
		case token.INT:
			return tInt
		case token.STRING:
			return tStr
		}
	case *ast.Ident:
		if v.Name == "true" || v.Name == "false" {
			return tBool
		}
	case *ast.UnaryExpr:
		switch v.Op {
		case token.NOT:
			return tBool
		case token.SUB, token.ADD:
			return tInt
		}
	case *ast.BinaryExpr:
		switch v.Op {
		case token.LAND, token.LOR, token.EQL, token.NEQ, token.LSS, token.LEQ, token.GTR, token.GEQ:
			return tBool
		case token.ADD:
			if t.kind(v.X) == tStr || t.kind(v.Y) == tStr {
				return tStr
			}
			return tInt
		case token.SUB, token.MUL, token.QUO, token.REM:
			return tInt
		}
	case *ast.CallExpr:
		if isIdent(v.Fun, "len") {
			return tInt
		}
		if how, ops := t.interp(v); how == "timeSub" {
			return tInt
		} else if how == "id" && len(ops) == 1 {
			if k := t.kind(ops[0]); k != tUnknown {
				return k
			}
			return tInt
		}
		if t.r.FuncAtoms[render(v.Fun)] {
			return tInt
		}
	}
	if ty, ok := t.evidence[render(x)]; ok {
		return ty
	}
	return tUnknown
}

func (t *tr) bexp(x ast.Expr) string {
	x = strip(x)
	switch v := x.(type) {
	case *ast.Ident:
		if v.Name == "true" || v.Name == "false" {
			return v.Name
		}
	case *ast.UnaryExpr:
		if v.Op == token.NOT {
			return "(!" + t.bexp(v.X) + ")"
		}
	case *ast.BinaryExpr:
		switch v.Op {
		case token.LAND:
			return "(" + t.bexp(v.X) + " && " + t.bexp(v.Y) + ")"
		case token.LOR:
			return "(" + t.bexp(v.X) + " || " + t.bexp(v.Y) + ")"
		case token.LSS, token.LEQ, token.GTR, token.GEQ:
			if t.kind(v.X) == tStr || t.kind(v.Y) == tStr {
				break // string ordering: not interpreted
			}
			a, b := t.iexp(v.X), t.iexp(v.Y)
			switch v.Op {
			case token.LSS:
				return "decide (" + a + " < " + b + ")"
			case token.LEQ:
				return "decide (" + a + " ≤ " + b + ")"
			case token.GTR:
				return "decide (" + b + " < " + a + ")"
			default:
				return "decide (" + b + " ≤ " + a + ")"
			}
		case token.EQL:
			return t.eq(v.X, v.Y)
		case token.NEQ:
			return "(!" + t.eq(v.X, v.Y) + ")"
		}
	}
	return t.atom(x, tBool)
}

func (t *tr) eq(x, y ast.Expr) string {
	kx, ky := t.kind(x), t.kind(y)
	switch {
	case kx == tInt || ky == tInt:
		if kx == tStr || ky == tStr || kx == tBool || ky == tBool {
			fail("`%s == %s` compares operands of different kinds", render(x), render(y))
		}
		return "decide (" + t.iexp(x) + " = " + t.iexp(y) + ")"
	case kx == tStr || ky == tStr:
		return "(" + t.sexp(x) + " == " + t.sexp(y) + ")"
	case kx == tBool && ky == tBool:
		return "(" + t.bexp(x) + " == " + t.bexp(y) + ")"
	case isBoolLit(x) || isBoolLit(y):
		// `x == false`, `true == x`: the other operand is a boolean
		return "(" + t.bexp(x) + " == " + t.bexp(y) + ")"
	}
	if isIdent(strip(x), "nil") && isIdent(strip(y), "nil") {
		return "true" // a variable known to hold its zero value (`var err error`)
	}
	// an uninterpreted comparison (pointers, errors, enum constants …): one boolean atom; `nil == x`
	// is the atom `x == nil`
	if isIdent(strip(x), "nil") {
		x, y = y, x
	}
	return t.atomText(render(strip(x))+" == "+render(strip(y)), tBool, 0)
}

func (t *tr) sexp(x ast.Expr) string {
	x = strip(x)
	if v, ok := x.(*ast.BasicLit); ok && v.Kind == token.STRING {
		s, err := strconv.Unquote(v.Value)
		if err != nil {
			fail("string literal %s", v.Value)
		}
		return leanString(s)
	}
	return t.atom(x, tStr)
}

func (t *tr) iexp(x ast.Expr) string {
	x = strip(x)
	switch v := x.(type) {
	case *ast.BasicLit:
		if v.Kind == token.INT {
			n, ok := new(big.Int).SetString(strings.ReplaceAll(v.Value, "_", ""), 0)
			if !ok {
				fail("integer literal %s", v.Value)
			}
			return n.String()
		}
	case *ast.UnaryExpr:
		switch v.Op {
		case token.SUB:
			return "(Gen.wrap64 (-" + t.iexp(v.X) + "))"
		case token.ADD:
			return t.iexp(v.X)
		}
	case *ast.BinaryExpr:
		if t.kind(x) == tInt {
			a, b := t.iexp(v.X), t.iexp(v.Y)
			switch v.Op {
			case token.ADD:
				return "(Gen.wrap64 (" + a + " + " + b + "))"
			case token.SUB:
				return "(Gen.wrap64 (" + a + " - " + b + "))"
			case token.MUL:
				return "(Gen.wrap64 (" + a + " * " + b + "))"
			case token.QUO:
				return "(Gen.wrap64 (Gen.quot " + a + " " + b + "))"
			case token.REM:
				return "(Int.tmod " + a + " " + b + ")"
			}
		}
	case *ast.CallExpr:
		how, ops := t.interp(v)
		switch {
		case how == "id" && len(ops) == 1:
			return t.iexp(ops[0])
		case how == "timeSub" && len(ops) == 2:
			return "(Gen.timeSub " + t.iexp(ops[0]) + " " + t.iexp(ops[1]) + ")"
		}
		if f := render(v.Fun); t.r.FuncAtoms[f] && len(v.Args) > 0 {
			name := t.atomText(f, tInt, len(v.Args))
			parts := []string{name}
			for _, a := range v.Args {
				parts = append(parts, t.iexp(a))
			}
			return "(" + strings.Join(parts, " ") + ")"
		}
	}
	return t.atom(x, tInt)
}

// --- statements

func (t *tr) stmts(list []ast.Stmt, e *env, k cont) node {
	if len(list) == 0 {
		return k(e)
	}
	return t.stmt(list[0], e, func(e2 *env) node { return t.stmts(list[1:], e2, k) })
}

func (t *tr) block(list []ast.Stmt, e *env, k cont) node {
	depth := len(e.scopes)
	e.push()
	return t.stmts(list, e, func(x *env) node { return k(x.truncate(depth)) })
}

func hasEscape(n ast.Node) string {
	why := ""
	ast.Inspect(n, func(x ast.Node) bool {
		switch v := x.(type) {
		case *ast.FuncLit:
			return false
		case *ast.ReturnStmt:
			why = "a return"
		case *ast.BranchStmt:
			if v.Tok == token.GOTO || v.Label != nil {
				why = "a goto / labelled branch"
			}
		}
		return true
	})
	return why
}

// assigned lists the lvalues (renderings) written below n, function literals included (a closure
// called in the loop may write a captured variable).
func assigned(n ast.Node) []string {
	seen := map[string]bool{}
	var out []string
	add := func(x ast.Expr) {
		s := render(x)
		if s != "_" && !seen[s] {
			seen[s] = true
			out = append(out, s)
		}
	}
	ast.Inspect(n, func(x ast.Node) bool {
		switch v := x.(type) {
		case *ast.AssignStmt:
			for _, l := range v.Lhs {
				add(l)
			}
		case *ast.IncDecStmt:
			add(v.X)
		case *ast.RangeStmt:
			if v.Key != nil {
				add(v.Key)
			}
			if v.Value != nil {
				add(v.Value)
			}
		}
		return true
	})
	return out
}

func (t *tr) effect(label string, args []string, e *env, k cont) node {
	return t.mk(nEff{label: label, args: args, k: k(e)})
}

// opaqueStmt: a statement the translator does not interpret (loop, general select): one effect
// label; whatever it may assign is unknown afterwards.
func (t *tr) opaqueStmt(s ast.Stmt, e *env, k cont) node {
	if t.r.LoopHeader {
		if hdr := loopHeader(s); hdr != "" {
			why := hasEscape(s)
			if why != "" && why != "a return" {
				fail("`%.60s…` contains %s (control flow out of an uninterpreted statement)", render(s), why)
			}
			if t.r.SubstLabels {
				// what the locals the loop assigns hold on entry is part of the label
				for _, l := range assigned(s) {
					if e.declaredAt(l) > 0 {
						if v, ok := e.lookup(l); ok {
							hdr += " | " + l + " = " + render(v)
						}
					}
				}
			}
			for _, l := range assigned(s) {
				e.set(l, e.opaque(l))
			}
			if why == "" {
				return t.effect(hdr, nil, e, k)
			}
			cond := t.atomText("returned("+hdr+")", tBool, 0)
			return t.mk(nEff{label: hdr, k: t.ifNode(cond, nRet{"(.label \"return in loop\")"}, k(e))})
		}
	}
	if why := hasEscape(s); why != "" {
		fail("`%.60s…` contains %s (control flow out of an uninterpreted statement)", render(s), why)
	}
	for _, l := range assigned(s) {
		e.set(l, e.opaque(l))
	}
	return t.effect(render(s), nil, e, k)
}

// loopHeader: `for … { }` without the body ("" = not a loop).
func loopHeader(s ast.Stmt) string {
	switch v := s.(type) {
	case *ast.RangeStmt:
		c := *v
		c.Body = &ast.BlockStmt{}
		return render(&c)
	case *ast.ForStmt:
		c := *v
		c.Body = &ast.BlockStmt{}
		return render(&c)
	}
	return ""
}

// elided: the call with the function literals among its arguments replaced by `ƒ`.
func elided(c *ast.CallExpr) *ast.CallExpr {
	n := *c
	n.Args = make([]ast.Expr, len(c.Args))
	for i, a := range c.Args {
		if _, ok := a.(*ast.FuncLit); ok {
			a = &ast.Ident{Name: "ƒ"}
		}
		n.Args[i] = a
	}
	return &n
}

func (t *tr) callEffect(prefix string, c *ast.CallExpr, e *env, k cont) node {
	callee := render(c.Fun)
	if t.dropped(callee) {
		return k(e)
	}
	if t.r.ElideFuncLits {
		// what the closures handed to the call assign is unknown afterwards
		for _, a := range c.Args {
			if fl, ok := a.(*ast.FuncLit); ok {
				for _, l := range assigned(fl) {
					if e.declaredAt(l) > 0 || e.scopes[0][l] != nil {
						e.set(l, e.opaque(l))
					} else {
						e.scopes[0][l] = e.opaque(l)
					}
				}
			}
		}
		c2 := elided(c)
		if _, ok := c.Fun.(*ast.FuncLit); ok {
			// `defer func() { … }()`: the closure is a region of its own
			c2.Fun = &ast.Ident{Name: "ƒ"}
			for _, l := range assigned(c.Fun) {
				e.set(l, e.opaque(l))
			}
		}
		var args []string
		for _, i := range t.r.IntArgs[callee] {
			if i < len(c.Args) {
				args = append(args, t.iexp(t.subst(e, c.Args[i])))
			}
		}
		if t.r.SubstLabels {
			return t.effect(prefix+render(t.subst(e, c2)), args, e, k)
		}
		return t.effect(prefix+render(c2), args, e, k)
	}
	var args []string
	for _, i := range t.r.IntArgs[callee] {
		if i < len(c.Args) {
			args = append(args, t.iexp(t.subst(e, c.Args[i])))
		}
	}
	if t.r.SubstLabels {
		label := prefix + render(t.subst(e, c))
		if callee == "delete" && len(c.Args) == 2 {
			key := render(t.subst(e, &ast.IndexExpr{X: c.Args[0], Index: c.Args[1]}))
			e.scopes[0][key] = &ast.Ident{Name: key + "·deleted"}
		}
		return t.effect(label, args, e, k)
	}
	return t.effect(prefix+render(c), args, e, k)
}

func zeroValue(ty ast.Expr) ast.Expr {
	switch render(ty) {
	case "string":
		return &ast.BasicLit{Kind: token.STRING, Value: `""`}
	case "bool":
		return &ast.Ident{Name: "false"}
	case "int", "int8", "int16", "int32", "int64", "uint", "uint8", "uint16", "uint32", "uint64", "time.Duration":
		return &ast.BasicLit{Kind: token.INT, Value: "0"}
	}
	return &ast.Ident{Name: "nil"}
}

func (t *tr) isLocal(e *env, x ast.Expr) (string, bool) {
	id, ok := x.(*ast.Ident)
	if !ok {
		return "", false
	}
	return id.Name, e.declaredAt(id.Name) > 0
}

// isLocalOrNew: x is `_`, a name this `:=` declares, or a name declared in the region.
func (t *tr) isLocalOrNew(e *env, x ast.Expr, tok token.Token) (string, bool) {
	id, ok := x.(*ast.Ident)
	if !ok {
		return "", false
	}
	return id.Name, id.Name == "_" || tok == token.DEFINE || e.declaredAt(id.Name) > 0
}

func (t *tr) assign(s *ast.AssignStmt, e *env, k cont) node {
	lhs, rhs, tok := s.Lhs, s.Rhs, s.Tok
	if tok != token.DEFINE && tok != token.ASSIGN {
		// x op= y
		ops := map[token.Token]token.Token{token.ADD_ASSIGN: token.ADD, token.SUB_ASSIGN: token.SUB, token.MUL_ASSIGN: token.MUL,
			token.QUO_ASSIGN: token.QUO, token.REM_ASSIGN: token.REM}
		op, ok := ops[tok]
		if !ok || len(lhs) != 1 || len(rhs) != 1 {
			fail("assignment operator in `%s`", render(s))
		}
		rhs = []ast.Expr{&ast.BinaryExpr{X: lhs[0], Op: op, Y: &ast.ParenExpr{X: rhs[0]}}}
		tok = token.ASSIGN
	}
	text := render(s)
	if t.r.ElideFuncLits {
		// `x := func() … { … }()`: the closure applied on the spot is a region of its own
		c := *s
		c.Rhs = make([]ast.Expr, len(s.Rhs))
		for i, r := range s.Rhs {
			if call, ok := r.(*ast.CallExpr); ok {
				if _, ok := call.Fun.(*ast.FuncLit); ok {
					n := *call
					n.Fun = &ast.Ident{Name: "ƒ"}
					r = &n
				}
			}
			c.Rhs[i] = r
		}
		text = render(&c)
	}
	if t.r.SubstLabels && tok != token.DEFINE {
		// the targets as lvalues (subst0), the values substituted
		c := *s
		c.Lhs = make([]ast.Expr, len(s.Lhs))
		for i, l := range s.Lhs {
			c.Lhs[i] = t.subst0(e, l)
		}
		c.Rhs = t.substList(e, s.Rhs)
		text = render(&c)
	} else if t.r.SubstLabels {
		c := *s
		c.Rhs = t.substList(e, s.Rhs)
		text = render(&c)
	}
	isEffectCall := func(x ast.Expr) bool {
		if u, ok := strip(x).(*ast.UnaryExpr); ok && u.Op == token.ARROW {
			return true // a channel receive
		}
		c, ok := strip(x).(*ast.CallExpr)
		return ok && !t.pureCall(c)
	}
	bindOpaque := func(l ast.Expr) (nonLocal bool) {
		if isIdent(l, "_") {
			return false
		}
		if id, ok := l.(*ast.Ident); ok {
			if tok == token.DEFINE && e.declaredAt(id.Name) != len(e.scopes)-1 {
				e.declare(id.Name, e.opaque(id.Name))
				return false
			}
			if e.declaredAt(id.Name) > 0 {
				e.set(id.Name, e.opaque(id.Name))
				return false
			}
			e.scopes[0][id.Name] = e.opaque(id.Name)
			return true
		}
		key := render(t.subst(e, l))
		e.scopes[0][key] = e.opaque(key)
		return true
	}
	if len(lhs) != len(rhs) {
		// v, ok := f() / x.(T) / m[k] / <-ch
		if len(rhs) != 1 {
			fail("assignment `%s`", text)
		}
		eff := isEffectCall(rhs[0])
		if t.r.CommaOk && !eff && len(lhs) == 2 {
			r0 := strip(rhs[0])
			_, isIdx := r0.(*ast.IndexExpr)
			_, isTA := r0.(*ast.TypeAssertExpr)
			l0, ok0 := t.isLocalOrNew(e, lhs[0], tok)
			l1, ok1 := t.isLocalOrNew(e, lhs[1], tok)
			if (isIdx || isTA) && ok0 && ok1 {
				v := t.subst(e, r0)
				okv := &ast.Ident{Name: "ok(" + render(v) + ")"}
				bind := func(name string, val ast.Expr) {
					if name == "_" {
						return
					}
					if tok == token.DEFINE && e.declaredAt(name) != len(e.scopes)-1 {
						e.declare(name, val)
					} else {
						e.set(name, val)
					}
				}
				bind(l0, v)
				bind(l1, okv)
				return k(e)
			}
		}
		for _, l := range lhs {
			if bindOpaque(l) {
				eff = true
			}
		}
		if eff {
			return t.effect(text, nil, e, k)
		}
		return k(e)
	}
	// evaluate every right-hand side first (parallel assignment)
	vals := make([]ast.Expr, len(rhs))
	for i, r := range rhs {
		if !isEffectCall(r) {
			vals[i] = t.subst(e, r)
		}
	}
	eff := false
	var args []string
	var intTargets []string
	for i, l := range lhs {
		if vals[i] == nil { // effect call: the result is opaque
			eff = true
			bindOpaque(l)
			continue
		}
		if isIdent(l, "_") {
			continue
		}
		if id, ok := l.(*ast.Ident); ok {
			if tok == token.DEFINE && e.declaredAt(id.Name) != len(e.scopes)-1 {
				e.declare(id.Name, vals[i])
				eff = eff || t.calleeIn(id.Name, t.r.Captured)
				continue
			}
			if e.declaredAt(id.Name) > 0 {
				e.set(id.Name, vals[i])
				eff = eff || t.calleeIn(id.Name, t.r.Captured)
				continue
			}
		}
		// non-local state: an effect, and later reads see the value written
		eff = true
		key := render(t.subst0(e, l))
		e.scopes[0][key] = vals[i]
		if t.kind(vals[i]) == tInt {
			args = append(args, t.iexp(vals[i]))
			if t.r.SubstLabels {
				intTargets = append(intTargets, key)
			} else {
				intTargets = append(intTargets, render(l))
			}
		}
	}
	if eff {
		if len(intTargets) == len(lhs) {
			// every value written is an interpreted integer (recorded in args): the label names the
			// targets only, so that `x--`, `x -= 1` and `x = x - 1` are the same effect
			text = strings.Join(intTargets, ", ") + " = _"
		}
		return t.effect(text, args, e, k)
	}
	return k(e)
}

// subst0 substitutes inside an lvalue without replacing the lvalue itself by its tracked value.
func (t *tr) subst0(e *env, l ast.Expr) ast.Expr {
	switch v := l.(type) {
	case *ast.SelectorExpr:
		return &ast.SelectorExpr{X: t.subst(e, v.X), Sel: v.Sel}
	case *ast.IndexExpr:
		return &ast.IndexExpr{X: t.subst(e, v.X), Index: t.subst(e, v.Index)}
	case *ast.StarExpr:
		return &ast.StarExpr{X: t.subst(e, v.X)}
	}
	return l
}

func (t *tr) ret(s *ast.ReturnStmt, e *env) node {
	rs := s.Results
	if len(rs) == 0 {
		return nRet{".nil"}
	}
	allNil := true
	for _, r := range rs {
		if !isIdent(strip(r), "nil") {
			allNil = false
		}
	}
	if allNil {
		return nRet{".nil"}
	}
	last := strip(rs[len(rs)-1])
	if c, ok := last.(*ast.CallExpr); ok {
		switch f := render(c.Fun); f {
		case "fmt.Errorf", "errors.New":
			return nRet{".error"}
		case "status.Errorf", "status.Error":
			if len(c.Args) > 0 {
				return nRet{"(.label " + leanString("status("+render(c.Args[0])+")") + ")"}
			}
		}
	}
	if c, ok := last.(*ast.CallExpr); ok && len(rs) == 1 && !t.pureCall(c) && t.kind(c) == tUnknown {
		// `return f(…)` with f an effect: the call happens, its result is what is returned
		return t.mk(nEff{label: render(c), k: nRet{"(.label " + leanString(render(c)) + ")"}})
	}
	if len(rs) == 1 {
		v := t.subst(e, rs[0])
		switch t.kind(v) {
		case tBool:
			return nRet{"(.bool (" + t.bexp(v) + "))"}
		case tInt:
			return nRet{"(.int (" + t.iexp(v) + "))"}
		}
	}
	parts := make([]string, len(rs))
	for i, r := range rs {
		if t.r.SubstLabels {
			parts[i] = render(t.subst(e, r))
		} else {
			parts[i] = render(r)
		}
	}
	return nRet{"(.label " + leanString(strings.Join(parts, ", ")) + ")"}
}

func (t *tr) ifNode(cond string, a, b node) node {
	switch cond {
	case "true", "(!false)":
		return a
	case "false", "(!true)":
		return b
	}
	return t.mk(nIf{cond, a, b})
}

func (t *tr) stmt(s ast.Stmt, e *env, k cont) node {
	switch v := s.(type) {
	case *ast.EmptyStmt:
		return k(e)
	case *ast.BlockStmt:
		return t.block(v.List, e, k)
	case *ast.ExprStmt:
		if c, ok := v.X.(*ast.CallExpr); ok {
			return t.callEffect("", c, e, k)
		}
		if t.r.SubstLabels {
			return t.effect(render(t.subst(e, v.X)), nil, e, k)
		}
		return t.effect(render(v), nil, e, k)
	case *ast.SendStmt:
		// a channel send: an effect (its text); which value is sent is not interpreted
		if t.r.SubstLabels {
			return t.effect(render(&ast.SendStmt{Chan: t.subst(e, v.Chan), Value: t.subst(e, v.Value)}), nil, e, k)
		}
		return t.effect(render(v), nil, e, k)
	case *ast.GoStmt:
		return t.callEffect("go ", v.Call, e, k)
	case *ast.DeferStmt:
		return t.callEffect("defer ", v.Call, e, k)
	case *ast.AssignStmt:
		return t.assign(v, e, k)
	case *ast.IncDecStmt:
		op := token.ADD
		if v.Tok == token.DEC {
			op = token.SUB
		}
		val := t.subst(e, &ast.BinaryExpr{X: v.X, Op: op, Y: &ast.BasicLit{Kind: token.INT, Value: "1"}})
		if name, ok := t.isLocal(e, v.X); ok {
			e.set(name, val)
			return k(e)
		}
		key := render(t.subst0(e, v.X))
		e.scopes[0][key] = val
		if t.r.SubstLabels {
			return t.effect(key+" = _", []string{t.iexp(val)}, e, k)
		}
		return t.effect(render(v.X)+" = _", []string{t.iexp(val)}, e, k)
	case *ast.DeclStmt:
		gd, ok := v.Decl.(*ast.GenDecl)
		if !ok {
			fail("declaration `%s`", render(v))
		}
		if gd.Tok == token.TYPE {
			return k(e)
		}
		for _, sp := range gd.Specs {
			vs := sp.(*ast.ValueSpec)
			for i, n := range vs.Names {
				switch {
				case i < len(vs.Values):
					e.declare(n.Name, t.subst(e, vs.Values[i]))
				case len(vs.Values) == 0 && vs.Type != nil:
					e.declare(n.Name, zeroValue(vs.Type))
				default:
					e.declare(n.Name, e.opaque(n.Name))
				}
			}
		}
		return k(e)
	case *ast.ReturnStmt:
		return t.ret(v, e)
	case *ast.IfStmt:
		depth := len(e.scopes)
		e.push()
		pop := func(x *env) node { return k(x.truncate(depth)) }
		after := func(e3 *env) node {
			cond := t.bexp(t.subst(e3, v.Cond))
			a := t.block(v.Body.List, e3.clone(), pop)
			var b node
			if v.Else == nil {
				b = pop(e3.clone())
			} else {
				b = t.stmt(v.Else, e3.clone(), pop)
			}
			return t.ifNode(cond, a, b)
		}
		if v.Init != nil {
			return t.stmt(v.Init, e, after)
		}
		return after(e)
	case *ast.SwitchStmt:
		depth := len(e.scopes)
		e.push()
		pop := func(x *env) node { x.brk = x.brk[:len(x.brk)-1]; return k(x.truncate(depth)) }
		after := func(e3 *env) node {
			var tag ast.Expr
			if v.Tag != nil {
				tag = t.subst(e3, v.Tag)
			}
			e3.brk = append(e3.brk, pop)
			var deflt *ast.CaseClause
			var clauses []*ast.CaseClause
			for _, c := range v.Body.List {
				cc := c.(*ast.CaseClause)
				for _, st := range cc.Body {
					if b, ok := st.(*ast.BranchStmt); ok && b.Tok == token.FALLTHROUGH {
						fail("`fallthrough` in a switch")
					}
				}
				if cc.List == nil {
					deflt = cc
				} else {
					clauses = append(clauses, cc)
				}
			}
			var build func(i int, env0 *env) node
			build = func(i int, env0 *env) node {
				if i == len(clauses) {
					if deflt == nil {
						return pop(env0.clone())
					}
					return t.block(deflt.Body, env0.clone(), pop)
				}
				var conds []string
				for _, x := range clauses[i].List {
					x = t.subst(env0, x)
					if tag != nil {
						conds = append(conds, t.eq(tag, x))
					} else {
						conds = append(conds, t.bexp(x))
					}
				}
				cond := conds[0]
				if len(conds) > 1 {
					cond = "(" + strings.Join(conds, " || ") + ")"
				}
				a := t.block(clauses[i].Body, env0.clone(), pop)
				return t.ifNode(cond, a, build(i+1, env0))
			}
			return build(0, e3)
		}
		if v.Init != nil {
			return t.stmt(v.Init, e, after)
		}
		return after(e)
	case *ast.TypeSwitchStmt:
		depth := len(e.scopes)
		e.push()
		pop := func(x *env) node { x.brk = x.brk[:len(x.brk)-1]; return k(x.truncate(depth)) }
		after := func(e3 *env) node {
			var subject ast.Expr
			bound := ""
			switch a := v.Assign.(type) {
			case *ast.AssignStmt:
				subject = a.Rhs[0]
				bound = a.Lhs[0].(*ast.Ident).Name
			case *ast.ExprStmt:
				subject = a.X
			}
			subj := render(t.subst(e3, subject)) // x.(type)
			e3.brk = append(e3.brk, pop)
			var deflt *ast.CaseClause
			var clauses []*ast.CaseClause
			for _, c := range v.Body.List {
				cc := c.(*ast.CaseClause)
				if cc.List == nil {
					deflt = cc
				} else {
					clauses = append(clauses, cc)
				}
			}
			body := func(cc *ast.CaseClause, env0 *env) node {
				x := env0.clone()
				x.push()
				if bound != "" {
					x.declare(bound, x.opaque(bound))
				}
				return t.stmts(cc.Body, x, pop)
			}
			var build func(i int, env0 *env) node
			build = func(i int, env0 *env) node {
				if i == len(clauses) {
					if deflt == nil {
						return pop(env0.clone())
					}
					return body(deflt, env0)
				}
				var conds []string
				for _, x := range clauses[i].List {
					conds = append(conds, t.atomText(subj+" == "+render(x), tBool, 0))
				}
				cond := conds[0]
				if len(conds) > 1 {
					cond = "(" + strings.Join(conds, " || ") + ")"
				}
				return t.ifNode(cond, body(clauses[i], env0), build(i+1, env0))
			}
			return build(0, e3)
		}
		if v.Init != nil {
			return t.stmt(v.Init, e, after)
		}
		return after(e)
	case *ast.SelectStmt:
		// the non-blocking poll `select { case <-ch: A  default: B }`
		if len(v.Body.List) == 2 {
			var comm, deflt *ast.CommClause
			for _, c := range v.Body.List {
				cc := c.(*ast.CommClause)
				if cc.Comm == nil {
					deflt = cc
				} else {
					comm = cc
				}
			}
			if comm != nil && deflt != nil {
				if es, ok := comm.Comm.(*ast.ExprStmt); ok {
					if u, ok := es.X.(*ast.UnaryExpr); ok && u.Op == token.ARROW {
						depth := len(e.scopes)
						pop := func(x *env) node { x.brk = x.brk[:len(x.brk)-1]; return k(x.truncate(depth)) }
						e.brk = append(e.brk, pop)
						cond := t.atomText("ready("+render(t.subst(e, u))+")", tBool, 0)
						a := t.block(comm.Body, e.clone(), pop)
						b := t.block(deflt.Body, e.clone(), pop)
						return t.ifNode(cond, a, b)
					}
				}
			}
		}
		return t.opaqueStmt(v, e, k)
	case *ast.ForStmt, *ast.RangeStmt:
		return t.opaqueStmt(v, e, k)
	case *ast.BranchStmt:
		if v.Label != nil {
			fail("labelled `%s`", render(v))
		}
		switch v.Tok {
		case token.BREAK:
			if len(e.brk) > 0 {
				return e.brk[len(e.brk)-1](e)
			}
			if t.r.LoopBody {
				return nRet{"(.label \"break\")"}
			}
		case token.CONTINUE:
			if t.r.LoopBody {
				return nRet{"(.label \"continue\")"}
			}
		}
		fail("`%s` outside a translated construct", render(v))
	}
	fail("statement `%.80s` is not translated", render(s))
	return nil
}

// ---------------------------------------------------------------- driver

func findFunc(f *ast.File, recv, name string) *ast.FuncDecl {
	for _, d := range f.Decls {
		fd, ok := d.(*ast.FuncDecl)
		if !ok || fd.Name.Name != name || fd.Body == nil {
			continue
		}
		r := ""
		if fd.Recv != nil && len(fd.Recv.List) > 0 {
			r = strings.TrimPrefix(render(fd.Recv.List[0].Type), "*")
		}
		if r == recv {
			return fd
		}
	}
	return nil
}

func commentSafe(s string) string {
	return strings.NewReplacer("-/", "- /", "/-", "/ -").Replace(s)
}

// stripStrings removes string literals from Lean text (to look for identifiers).
func stripStrings(s string) string {
	var b strings.Builder
	in := false
	for i := 0; i < len(s); i++ {
		c := s[i]
		switch {
		case in && c == '\\':
			i++
		case c == '"':
			in = !in
		case !in:
			b.WriteByte(c)
		}
	}
	return b.String()
}

func identTokens(s string) map[string]bool {
	out := map[string]bool{}
	cur := ""
	flush := func() {
		if cur != "" {
			out[cur] = true
			cur = ""
		}
	}
	for i := 0; i < len(s); i++ {
		c := s[i]
		if c >= 'a' && c <= 'z' || c >= 'A' && c <= 'Z' || c >= '0' && c <= '9' || c == '_' {
			cur += string(c)
		} else {
			flush()
		}
	}
	flush()
	return out
}

func translate(root string, r *region) (content string) {
	srcLine := fmt.Sprintf("%s, func %s", r.File, r.Func)
	if r.Recv != "" {
		srcLine = fmt.Sprintf("%s, func (*%s).%s", r.File, r.Recv, r.Func)
	}
	head := func(extra string) string {
		return "/- GENERATED by go/vtrans from the repository's current source on every check run — do not edit.\n" +
			"   source: " + srcLine + extra + "\n"
	}
	defer func() {
		if p := recover(); p != nil {
			u, ok := p.(untrans)
			if !ok {
				u = untrans{fmt.Sprintf("translator panic: %v", p)}
			}
			content = head("") + "   NOT TRANSLATED: " + commentSafe(u.why) + "\n-/\nimport Gnmi.Gen.Basic\nnamespace Gnmi.Gen\n\n" +
				"def " + r.Def + "_untranslatable : String := " + leanString(u.why) + "\n\nend Gnmi.Gen\n"
		}
	}()
	f, err := parser.ParseFile(fset, filepath.Join(root, r.File), nil, 0)
	if err != nil {
		fail("cannot parse %s: %v", r.File, err)
	}
	fd := findFunc(f, r.Recv, r.Func)
	if fd == nil {
		fail("function not found")
	}
	list, where := r.Pick(fd)
	if where == nil {
		fail("region not found: %s", r.What)
	}
	evidence := map[string]typ{}
	var t *tr
	var tree node
	for pass := 0; pass < 4; pass++ {
		t = &tr{r: r, atoms: map[string]*atom{}, evidence: map[string]typ{}, names: map[string]bool{}}
		for k, v := range evidence {
			t.evidence[k] = v
		}
		tree = t.stmts(list, newEnv(), func(*env) node { return nRet{".fall"} })
		same := len(t.evidence) == len(evidence)
		for k, v := range t.evidence {
			if evidence[k] != v {
				same = false
			}
		}
		evidence = t.evidence
		if same {
			break
		}
	}
	var body strings.Builder
	show(tree, "  ", &body)
	used := identTokens(stripStrings(body.String()))
	var atoms []*atom
	for _, a := range t.atoms {
		if used[a.name] {
			atoms = append(atoms, a)
		}
	}
	sort.Slice(atoms, func(i, j int) bool { return atoms[i].text < atoms[j].text })
	var b strings.Builder
	start, end := fset.Position(where.Pos()).Line, fset.Position(where.End()).Line
	b.WriteString(head(fmt.Sprintf(", lines %d–%d", start, end)))
	b.WriteString("   region: " + commentSafe(r.What) + "\n")
	b.WriteString("   atoms (parameters, sorted by source text):\n")
	for _, a := range atoms {
		ty := a.t.lean()
		if a.arity > 0 {
			ty = strings.Repeat("Int → ", a.arity) + "Int"
		}
		b.WriteString(fmt.Sprintf("     %s : %s  :=  `%s`\n", a.name, ty, commentSafe(a.text)))
	}
	b.WriteString("-/\nimport Gnmi.Gen.Basic\nnamespace Gnmi.Gen\n\n")
	b.WriteString("def " + r.Def)
	for _, a := range atoms {
		ty := a.t.lean()
		if a.arity > 0 {
			ty = strings.Repeat("Int → ", a.arity) + "Int"
		}
		b.WriteString(fmt.Sprintf(" (%s : %s)", a.name, ty))
	}
	b.WriteString(" : Gen.Outcome :=\n")
	b.WriteString(body.String())
	b.WriteString("\nend Gnmi.Gen\n")
	return b.String()
}

func main() {
	if len(os.Args) < 3 {
		fmt.Fprintln(os.Stderr, "usage: vtrans <repo root> <output directory>")
		os.Exit(0)
	}
	root, out := os.Args[1], os.Args[2]
	os.MkdirAll(out, 0o755)
	for i := range regions {
		r := &regions[i]
		content := translate(root, r)
		path := filepath.Join(out, r.Name+".lean")
		if old, err := os.ReadFile(path); err == nil && string(old) == content {
			continue
		}
		if err := os.WriteFile(path, []byte(content), 0o644); err != nil {
			fmt.Fprintln(os.Stderr, err)
		}
	}
	os.Exit(0)
}
