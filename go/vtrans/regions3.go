package main

import (
	"go/ast"
)

// ---------------------------------------------------------------- selectors of round 4 (bGEN3)

// funcLitReturned: the body of the first function literal that is a result of a top-level `return`.
func funcLitReturned(fd *ast.FuncDecl) ([]ast.Stmt, ast.Node) {
	for _, s := range fd.Body.List {
		if r, ok := s.(*ast.ReturnStmt); ok {
			for _, e := range r.Results {
				if fl, ok := e.(*ast.FuncLit); ok {
					return fl.Body.List, fl
				}
			}
		}
	}
	return nil, nil
}

// afterLastFuncLitBound: the statements of the function body after the last top-level `name :=
// func…{…}` (a helper closure defined first, the decision logic after it).
func afterLastFuncLitBound(fd *ast.FuncDecl) ([]ast.Stmt, ast.Node) {
	at := -1
	for i, s := range fd.Body.List {
		if as, ok := s.(*ast.AssignStmt); ok && len(as.Rhs) == 1 {
			if _, ok := as.Rhs[0].(*ast.FuncLit); ok {
				at = i
			}
		}
	}
	if at < 0 || at+1 >= len(fd.Body.List) {
		return nil, nil
	}
	l := fd.Body.List[at+1:]
	return l, span{l[0], l[len(l)-1]}
}

// The regions added in round 4 (docs/GEN_TIE.md §9).
var regions3 = []region{
	// ---- match (C06)
	{
		Name: "MatchAddQuery", Def: "gen_matchAddQuery",
		File: "match/match.go", Recv: "Match", Func: "AddQuery",
		What: "the whole function body (write lock held across the insertion; the remove closure is returned)", Pick: wholeBody, Drop: logDrop,
		ElideFuncLits: true,
	},
	{
		Name: "MatchRemoveClosure", Def: "gen_matchRemoveClosure",
		File: "match/match.go", Recv: "Match", Func: "AddQuery",
		What: "the body of the function literal returned (the remove closure)", Pick: funcLitReturned, Drop: logDrop,
	},
	{
		Name: "MatchBranchAddQuery", Def: "gen_branchAddQuery",
		File: "match/match.go", Recv: "branch", Func: "addQuery",
		What: "the whole function body (client set at the end of the query; child created when absent; recursion)", Pick: wholeBody, Drop: logDrop,
		CommaOk: true, SubstLabels: true,
	},
	{
		Name: "MatchBranchRemoveQuery", Def: "gen_branchRemoveQuery",
		File: "match/match.go", Recv: "branch", Func: "removeQuery",
		What: "the whole function body (client deleted at the end of the query; child pruned when the recursion reports it empty)", Pick: wholeBody, Drop: logDrop,
		CommaOk: true, SubstLabels: true, ElideFuncLits: true,
	},
	{
		Name: "MatchBranchRemoveQueryDeferred", Def: "gen_branchRemoveQueryDeferred",
		File: "match/match.go", Recv: "branch", Func: "removeQuery",
		What: "the body of the deferred function literal (the `empty` result)", Pick: funcLitOf("defer"), Drop: logDrop,
	},
	{
		Name: "MatchUpdate", Def: "gen_matchUpdate",
		File: "match/match.go", Recv: "Match", Func: "Update",
		What: "the whole function body", Pick: wholeBody, Drop: logDrop,
	},
	{
		Name: "MatchUpdateOnce", Def: "gen_matchUpdateOnce",
		File: "match/match.go", Recv: "Match", Func: "UpdateOnce",
		What: "the whole function body", Pick: wholeBody, Drop: logDrop,
	},
	{
		Name: "MatchBranchUpdate", Def: "gen_branchUpdate",
		File: "match/match.go", Recv: "branch", Func: "update",
		What: "the whole function body; loops are effects labelled by their header", Pick: wholeBody, Drop: logDrop,
		LoopHeader: true, CommaOk: true, SubstLabels: true,
	},
	{
		Name: "MatchBranchUpdateClient", Def: "gen_branchUpdateClient",
		File: "match/match.go", Recv: "branch", Func: "update",
		What: "the body of the loop over b.clients: one client", Pick: rangeBodyIn("b.clients"), Drop: logDrop,
		LoopBody: true, CommaOk: true,
	},
	// ---- client (C18)
	{
		Name: "ClientBaseSubscribe", Def: "gen_baseSubscribe",
		File: "client/client.go", Recv: "BaseClient", Func: "Subscribe",
		What: "the statements after the helper closure: getFirst, installation under c.mu (previous implementation closed, closed = false), run",
		Pick: afterLastFuncLitBound, Drop: logDrop,
	},
	{
		Name: "ClientBaseClose", Def: "gen_baseClose",
		File: "client/client.go", Recv: "BaseClient", Func: "Close",
		What: "the whole function body", Pick: wholeBody, Drop: logDrop,
	},
	{
		Name: "ClientBaseImpl", Def: "gen_baseImpl",
		File: "client/client.go", Recv: "BaseClient", Func: "Impl",
		What: "the whole function body", Pick: wholeBody, Drop: logDrop,
	},
	{
		Name: "ClientBasePoll", Def: "gen_basePoll",
		File: "client/client.go", Recv: "BaseClient", Func: "Poll",
		What: "the whole function body", Pick: wholeBody, Drop: logDrop,
		Effects: []string{"c.Impl"},
	},
	{
		Name: "ClientBaseRunLoop", Def: "gen_baseRunIteration",
		File: "client/client.go", Recv: "BaseClient", Func: "run",
		What: "the body of the first top-level `for { … }`: one received message", Pick: foreverBody, Drop: logDrop, LoopBody: true,
	},
	// ---- manager (C12, C13, C16)
	{
		Name: "ManagerNew", Def: "gen_NewManager",
		File: "manager/manager.go", Recv: "", Func: "NewManager",
		What: "the whole function body", Pick: wholeBody, Drop: logDrop,
	},
	{
		Name: "ManagerHandleGNMIUpdate", Def: "gen_handleGNMIUpdate",
		File: "manager/manager.go", Recv: "Manager", Func: "handleGNMIUpdate",
		What: "the whole function body (nil response, the four arms of the type switch, nil callbacks)", Pick: wholeBody,
		Drop: []string{"log."},
	},
	{
		Name: "ManagerAdd", Def: "gen_managerAdd",
		File: "manager/manager.go", Recv: "Manager", Func: "Add",
		What: "the whole function body", Pick: wholeBody, Drop: logDrop,
		CommaOk: true, Pure: []string{"context.WithCancel"},
	},
	{
		Name: "ManagerRemove", Def: "gen_managerRemove",
		File: "manager/manager.go", Recv: "Manager", Func: "Remove",
		What: "the whole function body", Pick: wholeBody, Drop: logDrop,
		CommaOk: true,
	},
	{
		Name: "ManagerReconnect", Def: "gen_managerReconnect",
		File: "manager/manager.go", Recv: "Manager", Func: "Reconnect",
		What: "the whole function body", Pick: wholeBody, Drop: logDrop,
		CommaOk: true,
	},
	{
		Name: "ManagerSubscribe", Def: "gen_managerSubscribe",
		File: "manager/manager.go", Recv: "Manager", Func: "subscribe",
		What: "the whole function body", Pick: wholeBody, Drop: logDrop,
		Pure: []string{"customizeRequest", "ctx.Err"},
	},
	// ---- cache (C14, C15)
	{
		Name: "CacheTargetSync", Def: "gen_targetSync",
		File: "cache/cache.go", Recv: "Target", Func: "Sync",
		What: "the whole function body", Pick: wholeBody, Drop: logDrop,
	},
	{
		Name: "CacheTargetConnect", Def: "gen_targetConnect",
		File: "cache/cache.go", Recv: "Target", Func: "Connect",
		What: "the whole function body", Pick: wholeBody, Drop: logDrop,
	},
	{
		Name: "CacheTargetUpdateMeta", Def: "gen_targetUpdateMeta",
		File: "cache/cache.go", Recv: "Target", Func: "updateMeta",
		What: "the whole function body", Pick: wholeBody, Drop: logDrop,
	},
	// ---- ctree (C09, C10)
	{
		Name: "CtreeAdd", Def: "gen_ctreeAdd",
		File: "ctree/tree.go", Recv: "Tree", Func: "Add",
		What: "the whole function body", Pick: wholeBody, Drop: logDrop,
	},
	{
		Name: "CtreeTerminalAdd", Def: "gen_ctreeTerminalAdd",
		File: "ctree/tree.go", Recv: "Tree", Func: "terminalAdd",
		What: "the whole function body", Pick: wholeBody, Drop: logDrop, CommaOk: true,
	},
	{
		Name: "CtreeIntermediateAdd", Def: "gen_ctreeIntermediateAdd",
		File: "ctree/tree.go", Recv: "Tree", Func: "intermediateAdd",
		What: "the whole function body (read lock, upgrade to the write lock when the child is missing)", Pick: wholeBody,
		Drop: []string{"log.", "verifPoint"}, ElideFuncLits: true, Captured: []string{"readerLocked"},
	},
	{
		Name: "CtreeIntermediateAddDeferred", Def: "gen_ctreeIntermediateAddDeferred",
		File: "ctree/tree.go", Recv: "Tree", Func: "intermediateAdd",
		What: "the body of the first deferred function literal (read lock released iff still held)", Pick: funcLitOf("defer"), Drop: logDrop,
	},
	{
		Name: "CtreeSlowAdd", Def: "gen_ctreeSlowAdd",
		File: "ctree/tree.go", Recv: "Tree", Func: "slowAdd",
		What: "the whole function body", Pick: wholeBody, Drop: logDrop,
		Pure: []string{"newBranch"},
	},
	{
		Name: "CtreeGet", Def: "gen_ctreeGet",
		File: "ctree/tree.go", Recv: "Tree", Func: "Get",
		What: "the whole function body", Pick: wholeBody, Drop: logDrop, CommaOk: true,
	},
	// ---- subscribe (C05, C07, C08, C12)
	{
		Name: "SubscribeHead", Def: "gen_SubscribeHead",
		File: "subscribe/subscribe.go", Recv: "Server", Func: "Subscribe",
		What: "the statements before the first top-level tagless switch: the per-RPC ACL (failure = Unauthenticated), the first Recv", Pick: beforeTaglessSwitch,
		Drop: logDrop, Effects: []string{"s.o.acl.NewRPCACL"},
	},
	{
		Name: "SubscribePollLoop", Def: "gen_pollIteration",
		File: "subscribe/subscribe.go", Recv: "Server", Func: "processPollingSubscription",
		What: "the body of the first top-level `for { … }`: one poll", Pick: foreverBody, Drop: logDrop, LoopBody: true,
	},
	{
		Name: "SubscribeStreamLoop", Def: "gen_streamIteration",
		File: "subscribe/subscribe.go", Recv: "Server", Func: "sendStreamingResults",
		What: "the body of the first top-level `for { … }`: one item taken from the queue", Pick: foreverBody, Drop: logDrop, LoopBody: true,
		CommaOk: true, ElideFuncLits: true, Pure: []string{"coalesce.IsClosedQueue", "isTargetDelete"},
	},
	// ---- coalesce (C11)
	{
		Name: "CoalesceClose", Def: "gen_coalesceClose",
		File: "coalesce/coalesce.go", Recv: "Queue", Func: "Close",
		What: "the whole function body", Pick: wholeBody, Drop: logDrop,
	},
	// ---- latency (C15)
	{
		Name: "LatencyCompute", Def: "gen_latencyCompute",
		File: "latency/latency.go", Recv: "Latency", Func: "Compute",
		What: "the whole function body (sum, count, max, min, start of the current slot)", Pick: wholeBody, Drop: logDrop,
		Pure: []string{"Now", "l.compute"},
	},
	{
		Name: "LatencyUpdate", Def: "gen_latencyUpdate",
		File: "latency/latency.go", Recv: "Latency", Func: "update",
		What: "the whole function body (nothing recorded: only the deferred window update; else the slot is added to every window and the accumulators reset)", Pick: wholeBody, Drop: logDrop,
		Pure: []string{"Now"}, LoopHeader: true, ElideFuncLits: true,
	},
	{
		Name: "LatencyUpdateDeferred", Def: "gen_latencyUpdateDeferred",
		File: "latency/latency.go", Recv: "Latency", Func: "update",
		What: "the body of the deferred function literal (metadata of every window, then the start of the next slot)", Pick: funcLitOf("defer"), Drop: logDrop,
		LoopHeader: true,
	},
	// ---- path (C19)
	{
		Name: "PathCompletePath", Def: "gen_CompletePath",
		File: "path/path.go", Recv: "", Func: "CompletePath",
		What: "the whole function body (origin in prefix and path: error; origin in path with prefix elements: error)", Pick: wholeBody, Drop: logDrop,
		Pure: []string{"ToStrings"}, SubstLabels: true,
	},
	// ---- manager (C13)
	{
		Name: "ManagerCustomizeRequest", Def: "gen_customizeRequest",
		File: "manager/manager.go", Recv: "", Func: "customizeRequest",
		What: "the whole function body (the target is written into a clone of the request only)", Pick: wholeBody, Drop: logDrop,
		Pure: []string{"proto.Clone"}, SubstLabels: true,
	},
}

func init() { regions = append(regions, regions3...) }
