//go:build verif

package queue

// Read-only view of the unexported state of a FixedQueue for the verification
// harness (added to the package through `go build -overlay`; nothing of this
// file exists in the repository).

// VerifFixedState returns the pending sleep (nanoseconds), the last update
// timestamp seen and the number of responses still queued.
func VerifFixedState(q *FixedQueue) (delay int64, lastTS int64, n int) {
	q.mu.Lock()
	defer q.mu.Unlock()
	return int64(q.delay), q.lastTS, len(q.resp)
}
