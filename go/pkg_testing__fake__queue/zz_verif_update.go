//go:build verif

package queue

// VerifUpdateLen returns the number of timestamp buckets still queued (read-only
// seam for the verification harness, added through `go build -overlay`).
func VerifUpdateLen(u *UpdateQueue) int {
	u.mu.Lock()
	defer u.mu.Unlock()
	return len(u.q)
}
