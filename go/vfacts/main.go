// Command vfacts extracts structural facts from the repository's current source
// (go/parser + go/ast) as JSON.  The expected values, and the model definition
// or LTS transition each fact justifies, are in /verif/lib/facts.py.
//
// usage: vfacts <repo root>
package main

import (
	"bytes"
	"encoding/json"
	"fmt"
	"go/ast"
	"go/parser"
	"go/printer"
	"go/token"
	"os"
	"path/filepath"
	"sort"
	"strings"
)

var fset = token.NewFileSet()

func render(n ast.Node) string {
	var b bytes.Buffer
	printer.Fprint(&b, fset, n)
	return strings.Join(strings.Fields(b.String()), " ")
}

func parseFile(root, rel string) *ast.File {
	f, err := parser.ParseFile(fset, filepath.Join(root, rel), nil, 0)
	if err != nil {
		fmt.Fprintln(os.Stderr, err)
		return nil
	}
	return f
}

// findFunc returns the declaration of func name with receiver type recv ("" = plain function).
func findFunc(f *ast.File, recv, name string) *ast.FuncDecl {
	if f == nil {
		return nil
	}
	for _, d := range f.Decls {
		fd, ok := d.(*ast.FuncDecl)
		if !ok || fd.Name.Name != name {
			continue
		}
		r := ""
		if fd.Recv != nil && len(fd.Recv.List) > 0 {
			r = strings.TrimPrefix(render(fd.Recv.List[0].Type), "*")
		}
		if r == recv {
			return fd
		}
	}
	return nil
}

// calls lists, in source order, the calls below n whose callee text is in want
// (prefixed with "go " / "defer " when spawned / deferred).
func calls(n ast.Node, want map[string]bool) []string {
	var out []string
	if n == nil {
		return out
	}
	var visit func(n ast.Node, prefix string)
	visit = func(n ast.Node, prefix string) {
		ast.Inspect(n, func(x ast.Node) bool {
			switch v := x.(type) {
			case *ast.GoStmt:
				if fl, ok := v.Call.Fun.(*ast.FuncLit); ok {
					var inner []string
					ast.Inspect(fl.Body, func(y ast.Node) bool {
						if c, ok := y.(*ast.CallExpr); ok && want[render(c.Fun)] {
							inner = append(inner, render(c.Fun))
						}
						return true
					})
					out = append(out, "go func{"+strings.Join(inner, ";")+"}")
					return false
				}
				visit(v.Call, "go ")
				return false
			case *ast.DeferStmt:
				visit(v.Call, "defer ")
				return false
			case *ast.CallExpr:
				if c := render(v.Fun); want[c] {
					out = append(out, prefix+c)
				}
			}
			return true
		})
	}
	visit(n, "")
	return out
}

func set(xs ...string) map[string]bool {
	m := map[string]bool{}
	for _, x := range xs {
		m[x] = true
	}
	return m
}

// caseClause finds, in a switch below fd, the clause one of whose expressions renders as expr
// ("default" for the default clause).
func caseClauses(fd *ast.FuncDecl) []*ast.CaseClause {
	var out []*ast.CaseClause
	if fd == nil {
		return out
	}
	ast.Inspect(fd.Body, func(x ast.Node) bool {
		if c, ok := x.(*ast.CaseClause); ok {
			out = append(out, c)
		}
		return true
	})
	return out
}

func clauseLabel(c *ast.CaseClause) string {
	if len(c.List) == 0 {
		return "default"
	}
	var xs []string
	for _, e := range c.List {
		xs = append(xs, render(e))
	}
	return strings.Join(xs, ", ")
}

func main() {
	root := os.Args[1]
	facts := map[string]interface{}{}

	// ---- subscribe ----
	sub := parseFile(root, "subscribe/subscribe.go")
	if fd := findFunc(sub, "Server", "Subscribe"); fd != nil {
		for _, c := range caseClauses(fd) {
			switch clauseLabel(c) {
			case "pb.SubscriptionList_STREAM":
				facts["subscribe.stream.order"] = calls(c, set("c.queue.Insert", "addSubscription", "s.processSubscription", "remove"))
			case "pb.SubscriptionList_ONCE":
				facts["subscribe.once.closeAfterWalk"] = calls(c, set("s.processSubscription", "c.queue.Close"))
			case "pb.SubscriptionList_POLL":
				facts["subscribe.poll.spawn"] = calls(c, set("s.processPollingSubscription"))
			}
		}
		facts["subscribe.handler.checks"] = calls(fd.Body, set("s.c.HasTarget", "c.acl.Check", "s.o.acl.NewRPCACL", "stream.Recv", "s.sendStreamingResults"))
	}
	if fd := findFunc(sub, "matchClient", "Update"); fd != nil {
		var all []string
		ast.Inspect(fd.Body, func(x ast.Node) bool {
			if c, ok := x.(*ast.CallExpr); ok {
				all = append(all, render(c.Fun))
			}
			return true
		})
		facts["subscribe.feed.calls"] = all
	}
	if fd := findFunc(sub, "Server", "sendSubscribeResponse"); fd != nil {
		facts["subscribe.send.aclBeforeSend"] = calls(fd.Body, set("c.acl.Check", "r.t.Reset", "r.t.Stop", "r.stream.Send"))
	}
	if fd := findFunc(sub, "Server", "sendStreamingResults"); fd != nil {
		facts["subscribe.timer.stoppedAtCreation"] = calls(fd.Body, set("time.NewTimer", "t.Stop", "t.Reset"))
		facts["subscribe.sender.loop"] = calls(fd.Body, set("c.queue.Next", "c.stream.Send", "s.sendSubscribeResponse", "isTargetDelete"))
	}
	if fd := findFunc(sub, "Server", "processSubscription"); fd != nil {
		facts["subscribe.walk.order"] = calls(fd.Body, set("path.CompletePath", "s.c.Query", "c.queue.Insert"))
	}
	if fd := findFunc(sub, "", "UpdateNotification"); fd != nil {
		facts["subscribe.updateNotification.set"] = calls(fd.Body, set("make", "m.UpdateOnce"))
	}

	// ---- cache ----
	ca := parseFile(root, "cache/cache.go")
	if fd := findFunc(ca, "Target", "GnmiUpdate"); fd != nil {
		per := map[string][]string{}
		for _, c := range caseClauses(fd) {
			per[clauseLabel(c)] = calls(c, set("t.gnmiUpdate", "t.gnmiRemove", "t.client"))
		}
		facts["cache.update.writeThenNotify"] = per
	}
	if fd := findFunc(ca, "Target", "gnmiUpdate"); fd != nil {
		var conds []string
		ast.Inspect(fd.Body, func(x ast.Node) bool {
			if sw, ok := x.(*ast.SwitchStmt); ok && sw.Init != nil && strings.Contains(render(sw.Init), "nts") {
				for _, s := range sw.Body.List {
					conds = append(conds, clauseLabel(s.(*ast.CaseClause)))
				}
			}
			return true
		})
		facts["cache.stale.cases"] = conds
		var ifs []string
		ast.Inspect(fd.Body, func(x ast.Node) bool {
			if is, ok := x.(*ast.IfStmt); ok {
				c := render(is.Cond)
				if strings.Contains(c, "value.Equal") || strings.Contains(c, "UnixNano") || strings.Contains(c, "futureThreshold") || strings.Contains(c, "proto.Equal") {
					ifs = append(ifs, c)
				}
			}
			return true
		})
		facts["cache.update.conditions"] = ifs
	}
	if fd := findFunc(ca, "Target", "gnmiRemove"); fd != nil {
		var conds []string
		ast.Inspect(fd.Body, func(x ast.Node) bool {
			if fl, ok := x.(*ast.FuncLit); ok {
				_ = fl
			}
			if r, ok := x.(*ast.ReturnStmt); ok && len(r.Results) == 1 && strings.Contains(render(r.Results[0]), "GetTimestamp") {
				conds = append(conds, render(r.Results[0]))
			}
			return true
		})
		facts["cache.remove.cond"] = conds
	}
	// lockset fact: every function touching Target.sync / Target.ts locks tsmu
	if ca != nil {
		touch := map[string]bool{}
		for _, d := range ca.Decls {
			fd, ok := d.(*ast.FuncDecl)
			if !ok || fd.Body == nil || fd.Recv == nil {
				continue
			}
			uses, locks := false, false
			ast.Inspect(fd.Body, func(x ast.Node) bool {
				if se, ok := x.(*ast.SelectorExpr); ok {
					s := render(se)
					if s == "t.sync" || s == "t.ts" {
						uses = true
					}
					if s == "t.tsmu.Lock" {
						locks = true
					}
				}
				return true
			})
			if uses {
				touch[fd.Name.Name] = locks
			}
		}
		var xs []string
		for k, v := range touch {
			xs = append(xs, fmt.Sprintf("%s locks=%v", k, v))
		}
		sort.Strings(xs)
		facts["cache.Target.syncts.lockset"] = xs
	}
	if fd := findFunc(ca, "Target", "Reset"); fd != nil {
		facts["cache.reset.order"] = calls(fd.Body, set("t.resetTimestamp", "t.meta.Clear", "t.updateMeta", "t.t.Delete", "t.client"))
	}
	if fd := findFunc(ca, "Cache", "Remove"); fd != nil {
		facts["cache.remove.announces"] = calls(fd.Body, set("delete", "c.client"))
	}

	// ---- coalesce ----
	co := parseFile(root, "coalesce/coalesce.go")
	if fd := findFunc(co, "Queue", "Insert"); fd != nil {
		sel, def, sends := 0, 0, 0
		ast.Inspect(fd.Body, func(x ast.Node) bool {
			switch v := x.(type) {
			case *ast.SelectStmt:
				sel++
				for _, c := range v.Body.List {
					if c.(*ast.CommClause).Comm == nil {
						def++
					}
				}
				return false
			case *ast.SendStmt:
				sends++
			}
			return true
		})
		facts["coalesce.Insert.blocking"] = map[string]int{"selects": sel, "withDefault": def, "bareSends": sends}
	}

	// ---- collector and CLI (C01) ----
	col := parseFile(root, "cmd/gnmi_collector/gnmi_collector.go")
	if fd := findFunc(col, "collector", "add"); fd != nil {
		facts["collector.add.calls"] = calls(fd.Body, set("c.cache.Add", "c.tm.Add"))
	}
	if fd := findFunc(col, "", "runCollector"); fd != nil {
		var asg []string
		ast.Inspect(fd.Body, func(x ast.Node) bool {
			if a, ok := x.(*ast.AssignStmt); ok {
				s := render(a)
				if strings.Contains(s, "prefix.Target") || strings.Contains(s, "prefix.Origin") || strings.Contains(s, "v.Prefix =") {
					asg = append(asg, s)
				}
			}
			return true
		})
		facts["collector.update.stamp"] = asg
		facts["collector.wiring"] = calls(fd.Body, set("cache.New", "subscribe.NewServer", "c.cache.SetClient", "c.start", "c.cache.GnmiUpdate"))
	}
	cli := parseFile(root, "cmd/gnmi_cli/gnmi_cli.go")
	if fd := findFunc(cli, "", "executeSubscribe"); fd != nil {
		var args []string
		ast.Inspect(fd.Body, func(x ast.Node) bool {
			if c, ok := x.(*ast.CallExpr); ok && render(c.Fun) == "cli.ParseSubscribeProto" {
				for _, a := range c.Args {
					args = append(args, render(a))
				}
			}
			return true
		})
		facts["gnmi_cli.executeSubscribe.parses"] = args
	}

	b, _ := json.MarshalIndent(facts, "", " ")
	os.Stdout.Write(b)
}
