//go:build verif

package metadata

// VerifDump returns copies of the three value maps of m (verification harness only: the raw maps
// show entries that no Get* call reaches any more, e.g. values of names that were unregistered).
func (m *Metadata) VerifDump() (map[string]int64, map[string]bool, map[string]string) {
	m.mu.Lock()
	defer m.mu.Unlock()
	i := make(map[string]int64, len(m.valuesInt))
	for k, v := range m.valuesInt {
		i[k] = v
	}
	b := make(map[string]bool, len(m.valuesBool))
	for k, v := range m.valuesBool {
		b[k] = v
	}
	s := make(map[string]string, len(m.valuesStr))
	for k, v := range m.valuesStr {
		s[k] = v
	}
	return i, b, s
}
