// Command ve2e is the process-level end-to-end driver of property C01: it runs the BUILT
// binaries cmd/gnmi_collector and cmd/gnmi_cli of this repository against in-process TLS gNMI
// targets on loopback ports and compares what the CLI prints with the expected tree computed by
// the Lean model.
//
//	ve2e -spec scenarios.json -collector <bin> -cli <bin> -scratch <dir> [-report out.json]
//
// scenarios.json: [{"id": "...", "export": <output of `vcorr run` for `e2e export …`>,
// "expected_once": "<model observation>", "expected_stream": "<model observation>"|""}, …]
//
// Per scenario, in a fresh sub-directory of -scratch: a self-signed key pair, 1–3 targets
// (testing/fake/gnmi agents, fixed responses or generator mode, or a scripted server that sends
// its responses verbatim), a collector configuration (text proto), the collector process, one
// STREAM client.CacheClient per target (client-library view; also how quiescence is detected:
// each target's end marker has come through), then per target three gnmi_cli ONCE invocations of
// the same subscription: query flags, -proto, -proto_file.
//
// One line per scenario on stdout: ok | collector-failed | timeout:<target> |
// diff:<view>:<first differing leaf> | cli-differ:<target>:<which>.
// It is compiled inside the repository's module through the overlay build, like vcorr; nothing
// is written outside -scratch.
package main

import (
	"bytes"
	"context"
	"crypto/ecdsa"
	"crypto/elliptic"
	"crypto/rand"
	"crypto/tls"
	"crypto/x509"
	"crypto/x509/pkix"
	"encoding/base64"
	"encoding/hex"
	"encoding/json"
	"encoding/pem"
	"errors"
	"flag"
	"fmt"
	"math"
	"math/big"
	"net"
	"os"
	"os/exec"
	"path/filepath"
	"sort"
	"strconv"
	"strings"
	"sync"
	"time"

	"github.com/openconfig/gnmi/client"
	gclient "github.com/openconfig/gnmi/client/gnmi"
	fgnmi "github.com/openconfig/gnmi/testing/fake/gnmi"
	"google.golang.org/grpc"
	"google.golang.org/grpc/credentials"
	"google.golang.org/protobuf/encoding/prototext"
	"google.golang.org/protobuf/proto"

	pb "github.com/openconfig/gnmi/proto/gnmi"
	tpb "github.com/openconfig/gnmi/proto/target"
	fpb "github.com/openconfig/gnmi/testing/fake/proto"
)

const marker = "zz-end"

type exportTarget struct {
	Name      string   `json:"name"`
	Request   string   `json:"request"`
	Kind      string   `json:"kind"`
	Responses []string `json:"responses"`
	Config    string   `json:"config"`
	MarkerTS  int64    `json:"marker_ts"`
	HasMarker bool     `json:"has_marker"`
}

type export struct {
	Client  string         `json:"client"`
	K       int            `json:"k"`
	Queries [][]string     `json:"queries"`
	Targets []exportTarget `json:"targets"`
}

type scenario struct {
	ID             string `json:"id"`
	Export         export `json:"export"`
	ExpectedOnce   string `json:"expected_once"`
	ExpectedStream string `json:"expected_stream"`
}

type cliRun struct {
	Target string   `json:"target"`
	Route  string   `json:"route"`
	Args   []string `json:"args"`
	Exit   int      `json:"exit"`
	Stdout string   `json:"stdout"`
	Stderr string   `json:"stderr,omitempty"`
}

type report struct {
	ID           string            `json:"id"`
	Observation  string            `json:"observation"`
	Problems     []string          `json:"problems,omitempty"`
	Config       string            `json:"collector_config,omitempty"`
	CLI          []cliRun          `json:"cli,omitempty"`
	StreamView   map[string]string `json:"client_library_view,omitempty"`
	CollectorLog string            `json:"collector_log_tail,omitempty"`
	Seconds      float64           `json:"seconds"`
}

// ---- codec (mirrors lean/Driver/Codec.lean) ----

func hexVal(c byte) byte {
	switch {
	case c >= '0' && c <= '9':
		return c - '0'
	case c >= 'A' && c <= 'F':
		return c - 'A' + 10
	case c >= 'a' && c <= 'f':
		return c - 'a' + 10
	}
	return 0
}

func decStr(s string) string {
	if s == "~" {
		return ""
	}
	var sb strings.Builder
	for i := 0; i < len(s); i++ {
		if s[i] == '%' && i+2 < len(s) {
			sb.WriteByte(hexVal(s[i+1])<<4 | hexVal(s[i+2]))
			i += 2
		} else {
			sb.WriteByte(s[i])
		}
	}
	return sb.String()
}

func decPath(s string) []string {
	if s == "." {
		return nil
	}
	parts := strings.Split(s, "/")
	out := make([]string, 0, len(parts))
	for _, e := range parts[1:] {
		out = append(out, decStr(e))
	}
	return out
}

// ---- expected views ----

// atomOf renders a model value token the way cli.valStr prints the Go value ToScalar returns.
func atomOf(tok string) string {
	if strings.HasPrefix(tok, "l=(") {
		inner := strings.TrimSuffix(tok[3:], ")")
		var xs []string
		if inner != "" {
			for _, e := range strings.Split(inner, "+") {
				xs = append(xs, atomOf(e))
			}
		}
		return "[" + strings.Join(xs, ", ") + "]"
	}
	if len(tok) < 2 {
		return "?" + tok
	}
	body := tok[2:]
	switch tok[0] {
	case 's':
		return fmt.Sprintf("%q", decStr(body))
	case 'i', 'u', 'b':
		return body
	case 'd':
		u, _ := strconv.ParseUint(body, 10, 64)
		return fmt.Sprintf("%v", math.Float64frombits(u))
	case 'f':
		u, _ := strconv.ParseUint(body, 10, 32)
		return fmt.Sprintf("%v", math.Float32frombits(uint32(u)))
	case 'y':
		b, _ := hex.DecodeString(body)
		return fmt.Sprintf("%v", b)
	}
	return "?" + tok
}

type view struct {
	status string
	leaves map[string]string // path joined by \x00 -> printed atom
}

// parseObservation splits a model observation `name=status[leaf,…] name=…` into views.
func parseObservation(obs string) map[string]view {
	out := map[string]view{}
	for _, part := range strings.Fields(obs) {
		eq := strings.IndexByte(part, '=')
		lb := strings.IndexByte(part, '[')
		if eq < 0 || lb < eq || !strings.HasSuffix(part, "]") {
			continue
		}
		v := view{status: part[eq+1 : lb], leaves: map[string]string{}}
		body := part[lb+1 : len(part)-1]
		if body != "" {
			for _, leaf := range strings.Split(body, ",") {
				i := strings.IndexByte(leaf, '=')
				if i < 0 {
					continue
				}
				v.leaves[strings.Join(decPath(leaf[:i]), "\x00")] = atomOf(leaf[i+1:])
			}
		}
		out[decStr(part[:eq])] = v
	}
	return out
}

// shown mirrors Driver/E2E.lean `shown`.
func shown(p []string) bool {
	if len(p) > 0 && p[len(p)-1] == marker {
		return false
	}
	if len(p) >= 2 && p[1] == "meta" {
		return len(p) == 3 && (p[2] == "sync" || p[2] == "connected")
	}
	return true
}

func showPath(k string) string { return "/" + strings.ReplaceAll(k, "\x00", "/") }

// firstDiff compares two leaf maps; "" when equal.
func firstDiff(got, want map[string]string) string {
	keys := map[string]bool{}
	for k := range got {
		keys[k] = true
	}
	for k := range want {
		keys[k] = true
	}
	var ks []string
	for k := range keys {
		ks = append(ks, k)
	}
	sort.Strings(ks)
	for _, k := range ks {
		g, okg := got[k]
		w, okw := want[k]
		switch {
		case !okg:
			return "missing " + showPath(k) + "=" + w
		case !okw:
			return "extra " + showPath(k) + "=" + g
		case g != w:
			return "value " + showPath(k) + " got " + g + " want " + w
		}
	}
	return ""
}

// ---- parsing the CLI's group display ----

type groupParser struct {
	s string
	i int
}

func (p *groupParser) ws() {
	for p.i < len(p.s) && (p.s[p.i] == ' ' || p.s[p.i] == '\n' || p.s[p.i] == '\t' || p.s[p.i] == '\r') {
		p.i++
	}
}

func (p *groupParser) quoted() (string, error) {
	if p.i >= len(p.s) || p.s[p.i] != '"' {
		return "", errors.New("expected a quoted key")
	}
	j := p.i + 1
	for j < len(p.s) {
		if p.s[j] == '\\' {
			j += 2
			continue
		}
		if p.s[j] == '"' {
			break
		}
		j++
	}
	if j >= len(p.s) {
		return "", errors.New("unterminated string")
	}
	u, err := strconv.Unquote(p.s[p.i : j+1])
	p.i = j + 1
	return u, err
}

// object parses `{ "k": v, … }` (pathmap.str) collecting leaves under prefix.
func (p *groupParser) object(prefix []string, out map[string]string) error {
	p.ws()
	if p.i >= len(p.s) || p.s[p.i] != '{' {
		return errors.New("expected {")
	}
	p.i++
	for {
		p.ws()
		if p.i >= len(p.s) {
			return errors.New("unexpected end")
		}
		if p.s[p.i] == '}' {
			p.i++
			return nil
		}
		k, err := p.quoted()
		if err != nil {
			return err
		}
		if p.i >= len(p.s) || p.s[p.i] != ':' {
			return errors.New("expected :")
		}
		p.i++
		for p.i < len(p.s) && p.s[p.i] == ' ' {
			p.i++
		}
		path := append(append([]string{}, prefix...), k)
		if p.i < len(p.s) && p.s[p.i] == '{' {
			if err := p.object(path, out); err != nil {
				return err
			}
		} else {
			j := strings.IndexByte(p.s[p.i:], '\n')
			if j < 0 {
				j = len(p.s) - p.i
			}
			atom := strings.TrimSuffix(p.s[p.i:p.i+j], ",")
			p.i += j
			out[strings.Join(path, "\x00")] = atom
			continue
		}
		p.ws()
		if p.i < len(p.s) && p.s[p.i] == ',' {
			p.i++
		}
	}
}

func parseGroup(stdout string) (map[string]string, error) {
	out := map[string]string{}
	p := &groupParser{s: stdout}
	if err := p.object(nil, out); err != nil {
		return nil, err
	}
	p.ws()
	if p.i != len(p.s) {
		return nil, errors.New("trailing output")
	}
	return out, nil
}

func filterShown(m map[string]string) map[string]string {
	out := map[string]string{}
	for k, v := range m {
		if shown(strings.Split(k, "\x00")) {
			out[k] = v
		}
	}
	return out
}

// ---- TLS ----

func makeKeyPair(dir string) (certFile, keyFile string, cert tls.Certificate, pool *x509.CertPool, err error) {
	key, err := ecdsa.GenerateKey(elliptic.P256(), rand.Reader)
	if err != nil {
		return
	}
	tmpl := &x509.Certificate{
		SerialNumber:          big.NewInt(time.Now().UnixNano()),
		Subject:               pkix.Name{CommonName: "localhost"},
		NotBefore:             time.Now().Add(-time.Hour),
		NotAfter:              time.Now().Add(24 * time.Hour),
		KeyUsage:              x509.KeyUsageDigitalSignature | x509.KeyUsageCertSign,
		ExtKeyUsage:           []x509.ExtKeyUsage{x509.ExtKeyUsageServerAuth, x509.ExtKeyUsageClientAuth},
		BasicConstraintsValid: true,
		IsCA:                  true,
		DNSNames:              []string{"localhost"},
		IPAddresses:           []net.IP{net.ParseIP("127.0.0.1"), net.ParseIP("::1")},
	}
	der, err := x509.CreateCertificate(rand.Reader, tmpl, tmpl, &key.PublicKey, key)
	if err != nil {
		return
	}
	kb, err := x509.MarshalECPrivateKey(key)
	if err != nil {
		return
	}
	certPEM := pem.EncodeToMemory(&pem.Block{Type: "CERTIFICATE", Bytes: der})
	keyPEM := pem.EncodeToMemory(&pem.Block{Type: "EC PRIVATE KEY", Bytes: kb})
	certFile, keyFile = filepath.Join(dir, "cert.pem"), filepath.Join(dir, "key.pem")
	if err = os.WriteFile(certFile, certPEM, 0o600); err != nil {
		return
	}
	if err = os.WriteFile(keyFile, keyPEM, 0o600); err != nil {
		return
	}
	cert, err = tls.X509KeyPair(certPEM, keyPEM)
	if err != nil {
		return
	}
	pool = x509.NewCertPool()
	pool.AppendCertsFromPEM(certPEM)
	return
}

// ---- targets ----

type rawServer struct {
	pb.UnimplementedGNMIServer
	resps []*pb.SubscribeResponse
}

func (s *rawServer) Subscribe(stream pb.GNMI_SubscribeServer) error {
	if _, err := stream.Recv(); err != nil {
		return err
	}
	for _, r := range s.resps {
		if err := stream.Send(proto.Clone(r).(*pb.SubscribeResponse)); err != nil {
			return err
		}
	}
	<-stream.Context().Done()
	return nil
}

type agent struct {
	addr  string
	close func()
}

func startAgent(t exportTarget, cert tls.Certificate) (*agent, error) {
	creds := grpc.Creds(credentials.NewTLS(&tls.Config{Certificates: []tls.Certificate{cert}}))
	if t.Kind == "raw" {
		rs := &rawServer{}
		for _, b64 := range t.Responses {
			b, err := base64.StdEncoding.DecodeString(b64)
			if err != nil {
				return nil, err
			}
			r := &pb.SubscribeResponse{}
			if err := proto.Unmarshal(b, r); err != nil {
				return nil, err
			}
			rs.resps = append(rs.resps, r)
		}
		lis, err := net.Listen("tcp", "127.0.0.1:0")
		if err != nil {
			return nil, err
		}
		gs := grpc.NewServer(creds)
		pb.RegisterGNMIServer(gs, rs)
		go gs.Serve(lis)
		return &agent{addr: lis.Addr().String(), close: gs.Stop}, nil
	}
	b, err := base64.StdEncoding.DecodeString(t.Config)
	if err != nil {
		return nil, err
	}
	cfg := &fpb.Config{}
	if err := proto.Unmarshal(b, cfg); err != nil {
		return nil, err
	}
	cfg.Port = 0
	a, err := fgnmi.New(cfg, []grpc.ServerOption{creds})
	if err != nil {
		return nil, err
	}
	return &agent{addr: a.Address(), close: a.Close}, nil
}

func freePort() (int, error) {
	l, err := net.Listen("tcp", "127.0.0.1:0")
	if err != nil {
		return 0, err
	}
	defer l.Close()
	return l.Addr().(*net.TCPAddr).Port, nil
}

// ---- client-library watchers ----

type watcher struct {
	name   string
	cc     *client.CacheClient
	cancel context.CancelFunc
	done   chan error
	marker chan struct{}
	syncCh chan struct{} // closed at the first sync marker
	mu     sync.Mutex
	synced bool
}

func startWatcher(addr string, pool *x509.CertPool, t exportTarget, queries [][]string) *watcher {
	ctx, cancel := context.WithCancel(context.Background())
	w := &watcher{name: t.Name, cc: client.New(), cancel: cancel, done: make(chan error, 1), marker: make(chan struct{}),
		syncCh: make(chan struct{})}
	q := client.Query{Addrs: []string{addr}, Target: t.Name, Type: client.Stream, Timeout: 10 * time.Second,
		TLS: &tls.Config{RootCAs: pool, ServerName: "localhost"}}
	for _, p := range queries {
		q.Queries = append(q.Queries, client.Path(append([]string{}, p...)))
	}
	seen := false
	q.NotificationHandler = func(n client.Notification) error {
		switch v := n.(type) {
		case client.Sync:
			w.mu.Lock()
			if !w.synced {
				close(w.syncCh)
			}
			w.synced = true
			w.mu.Unlock()
		case client.Update:
			if t.HasMarker && !seen && len(v.Path) > 0 && v.Path[len(v.Path)-1] == marker && v.TS.UnixNano() == t.MarkerTS {
				seen = true
				close(w.marker)
			}
		}
		return nil
	}
	go func() { w.done <- w.cc.Subscribe(ctx, q, gclient.Type) }()
	return w
}

func renderGo(v interface{}) string {
	switch x := v.(type) {
	case string:
		return fmt.Sprintf("%q", x)
	case []interface{}:
		var xs []string
		for _, e := range x {
			xs = append(xs, renderGo(e))
		}
		return "[" + strings.Join(xs, ", ") + "]"
	}
	return fmt.Sprintf("%v", v)
}

func (w *watcher) leaves() map[string]string {
	out := map[string]string{}
	for _, l := range w.cc.Leaves() {
		out[strings.Join(l.Path, "\x00")] = renderGo(l.Val)
	}
	return out
}

// ---- gnmi_cli ----

func subscribeRequestText(target string, queries [][]string) string {
	sl := &pb.SubscriptionList{Prefix: &pb.Path{Target: target}, Mode: pb.SubscriptionList_ONCE}
	for _, q := range queries {
		p := &pb.Path{}
		for _, e := range q {
			p.Elem = append(p.Elem, &pb.PathElem{Name: e})
		}
		sl.Subscription = append(sl.Subscription, &pb.Subscription{Path: p})
	}
	return prototext.MarshalOptions{Multiline: false}.Format(&pb.SubscribeRequest{Request: &pb.SubscribeRequest_Subscribe{Subscribe: sl}})
}

func plainElem(e string) bool {
	if e == "" {
		return false
	}
	for i := 0; i < len(e); i++ {
		c := e[i]
		if !(c >= 'a' && c <= 'z' || c >= 'A' && c <= 'Z' || c >= '0' && c <= '9' || c == '-' || c == '_' || c == '.' || c == '*') {
			return false
		}
	}
	return true
}

// queryFlag renders the queries for -q (comma separated, elements joined by the delimiter).
func queryFlag(queries [][]string) (string, error) {
	var qs []string
	for _, q := range queries {
		for _, e := range q {
			if !plainElem(e) {
				return "", fmt.Errorf("query element %q cannot be written as a -q flag", e)
			}
		}
		if len(q) == 0 {
			qs = append(qs, "/")
		} else {
			qs = append(qs, strings.Join(q, "/"))
		}
	}
	return strings.Join(qs, ","), nil
}

func runCLI(bin string, args []string, dir string) cliRun {
	ctx, cancel := context.WithTimeout(context.Background(), 30*time.Second)
	defer cancel()
	cmd := exec.CommandContext(ctx, bin, args...)
	cmd.Dir = dir
	cmd.Env = append(os.Environ(), "TMPDIR="+dir)
	var so, se bytes.Buffer
	cmd.Stdout, cmd.Stderr = &so, &se
	err := cmd.Run()
	r := cliRun{Args: args, Stdout: so.String()}
	if err != nil {
		r.Exit = -1
		var ee *exec.ExitError
		if errors.As(err, &ee) {
			r.Exit = ee.ExitCode()
		}
		s := se.String()
		if len(s) > 1500 {
			s = s[len(s)-1500:]
		}
		r.Stderr = s
	}
	return r
}

// ---- one scenario ----

func tail(path string, n int) string {
	b, err := os.ReadFile(path)
	if err != nil {
		return ""
	}
	if len(b) > n {
		b = b[len(b)-n:]
	}
	return string(b)
}

func runScenario(sc scenario, collectorBin, cliBin, scratch string, idx int) (rep report) {
	t0 := time.Now()
	rep.ID = sc.ID
	defer func() { rep.Seconds = time.Since(t0).Seconds() }()
	fail := func(obs string, format string, a ...interface{}) {
		if rep.Observation == "" || rank(obs) < rank(rep.Observation) {
			rep.Observation = obs
		}
		rep.Problems = append(rep.Problems, fmt.Sprintf(format, a...))
	}
	dir := filepath.Join(scratch, fmt.Sprintf("s%03d", idx))
	if err := os.MkdirAll(dir, 0o700); err != nil {
		fail("setup-failed", "mkdir: %v", err)
		return
	}
	certFile, keyFile, cert, pool, err := makeKeyPair(dir)
	if err != nil {
		fail("setup-failed", "key pair: %v", err)
		return
	}
	// targets
	var agents []*agent
	defer func() {
		for _, a := range agents {
			a.close()
		}
	}()
	cfg := &tpb.Configuration{Request: map[string]*pb.SubscribeRequest{}, Target: map[string]*tpb.Target{}}
	for _, t := range sc.Export.Targets {
		a, err := startAgent(t, cert)
		if err != nil {
			fail("setup-failed", "agent %s: %v", t.Name, err)
			return
		}
		agents = append(agents, a)
		if cfg.Request[t.Request] == nil {
			cfg.Request[t.Request] = &pb.SubscribeRequest{Request: &pb.SubscribeRequest_Subscribe{Subscribe: &pb.SubscriptionList{
				Prefix: &pb.Path{}, Mode: pb.SubscriptionList_STREAM, Subscription: []*pb.Subscription{{Path: &pb.Path{}}}}}}
		}
		cfg.Target[t.Name] = &tpb.Target{Addresses: []string{a.addr}, Request: t.Request}
	}
	cfgText := prototext.MarshalOptions{Multiline: true}.Format(cfg)
	rep.Config = cfgText
	cfgFile := filepath.Join(dir, "collector.textproto")
	if err := os.WriteFile(cfgFile, []byte(cfgText), 0o600); err != nil {
		fail("setup-failed", "config: %v", err)
		return
	}
	// the collector (a port picked a moment ago may have been taken meanwhile: three attempts)
	logFile := filepath.Join(dir, "collector.log")
	var coll *exec.Cmd
	var exited chan error
	addr := ""
	stop := func() {
		if coll != nil && coll.Process != nil {
			coll.Process.Kill()
			select {
			case <-exited:
			case <-time.After(5 * time.Second):
			}
		}
	}
	defer func() {
		stop()
		if rep.Observation != "ok" {
			rep.CollectorLog = tail(logFile, 40000)
		}
	}()
	serving := false
	why := ""
	for attempt := 0; attempt < 3 && !serving; attempt++ {
		port, err := freePort()
		if err != nil {
			fail("setup-failed", "port: %v", err)
			return
		}
		lf, err := os.Create(logFile)
		if err != nil {
			fail("setup-failed", "log: %v", err)
			return
		}
		coll = exec.Command(collectorBin, "-config_file", cfgFile, "-cert_file", certFile, "-key_file", keyFile,
			"-port", strconv.Itoa(port), "-logtostderr", "-v", "2")
		coll.Dir = dir
		coll.Env = append(os.Environ(), "TMPDIR="+dir)
		coll.Stdout, coll.Stderr = lf, lf
		if err := coll.Start(); err != nil {
			lf.Close()
			fail("collector-failed", "start: %v", err)
			return
		}
		lf.Close()
		exited = make(chan error, 1)
		go func(c *exec.Cmd, ch chan error) { ch <- c.Wait() }(coll, exited)
		addr = "localhost:" + strconv.Itoa(port)
		gone := false
		for deadline := time.Now().Add(15 * time.Second); time.Now().Before(deadline) && !serving && !gone; {
			select {
			case err := <-exited:
				exited <- err
				why = fmt.Sprintf("the collector exited: %v", err)
				gone = true
				continue
			default:
			}
			c, err := tls.DialWithDialer(&net.Dialer{Timeout: time.Second}, "tcp", addr, &tls.Config{RootCAs: pool, ServerName: "localhost"})
			if err == nil {
				c.Close()
				serving = true
				continue
			}
			time.Sleep(20 * time.Millisecond)
		}
		if !serving {
			if !gone {
				why = "the collector does not serve on " + addr
			}
			stop()
		}
	}
	if !serving {
		fail("collector-failed", "%s", why)
		return
	}
	// client-library view (STREAM), also the quiescence detector
	var ws []*watcher
	for _, t := range sc.Export.Targets {
		ws = append(ws, startWatcher(addr, pool, t, sc.Export.Queries))
	}
	defer func() {
		for _, w := range ws {
			w.cancel()
			w.cc.Close()
		}
	}()
	wait := 8 * time.Second
	for i, t := range sc.Export.Targets {
		if !t.HasMarker {
			time.Sleep(500 * time.Millisecond)
			continue
		}
		select {
		case <-ws[i].marker:
			// The end marker may reach a client that subscribed late inside the initial walk, whose order
			// is the tree's, not the stream's: only the sync marker says that the walk is complete.  (A
			// marker streamed after the sync marker comes behind everything the target sent before it.)
			select {
			case <-ws[i].syncCh:
			case err := <-ws[i].done:
				fail("timeout:"+t.Name, "the STREAM client of %s ended before the sync marker: %v", t.Name, err)
			case <-time.After(wait):
				fail("timeout:"+t.Name, "no sync marker for the STREAM client of %s", t.Name)
				wait = time.Second
			}
		case err := <-ws[i].done:
			fail("timeout:"+t.Name, "the STREAM client of %s ended before the end marker: %v", t.Name, err)
		case <-time.After(wait):
			fail("timeout:"+t.Name, "the end marker of %s did not come through the collector", t.Name)
			wait = time.Second // the other targets had the same time
		}
	}
	expOnce := parseObservation(sc.ExpectedOnce)
	expStream := parseObservation(sc.ExpectedStream)
	rep.StreamView = map[string]string{}
	for _, w := range ws {
		got := filterShown(w.leaves())
		var ls []string
		for k, v := range got {
			ls = append(ls, showPath(k)+"="+v)
		}
		sort.Strings(ls)
		rep.StreamView[w.name] = strings.Join(ls, " ")
		if sc.ExpectedStream != "" {
			if d := firstDiff(got, expStream[w.name].leaves); d != "" {
				fail("diff:stream:"+w.name+":"+d, "client-library STREAM view of %s: %s", w.name, d)
			}
		}
	}
	// gnmi_cli, three ways
	qflag, qerr := queryFlag(sc.Export.Queries)
	for _, t := range sc.Export.Targets {
		text := subscribeRequestText(t.Name, sc.Export.Queries)
		pfile := filepath.Join(dir, "req-"+strconv.Itoa(len(rep.CLI))+".textproto")
		if err := os.WriteFile(pfile, []byte(text), 0o600); err != nil {
			fail("setup-failed", "proto file: %v", err)
			return
		}
		common := []string{"-a", addr, "-ca_crt", certFile, "-timeout", "15s", "-logtostderr"}
		routes := []struct {
			name string
			args []string
		}{
			{"flags", append(append([]string{}, common...), "-t", t.Name, "-q", qflag, "-qt", "once")},
			{"proto", append(append([]string{}, common...), "-proto", text)},
			{"proto_file", append(append([]string{}, common...), "-proto_file", pfile)},
		}
		var outs []string
		for _, r := range routes {
			if r.name == "flags" && qerr != nil {
				outs = append(outs, "")
				continue
			}
			run := runCLI(cliBin, r.args, dir)
			run.Target, run.Route = t.Name, r.name
			rep.CLI = append(rep.CLI, run)
			outs = append(outs, run.Stdout)
			got, err := parseGroup(run.Stdout)
			if run.Exit != 0 || err != nil {
				fail("diff:cli-"+r.name+":"+t.Name+":no parsable output", "gnmi_cli (%s) for %s: exit %d, %v", r.name, t.Name, run.Exit, err)
				continue
			}
			if d := firstDiff(filterShown(got), expOnce[t.Name].leaves); d != "" {
				fail("diff:cli-"+r.name+":"+t.Name+":"+d, "gnmi_cli (%s) view of %s: %s", r.name, t.Name, d)
			}
		}
		base := 1
		if qerr == nil {
			base = 0
		}
		for i := base + 1; i < len(outs); i++ {
			if outs[i] != outs[base] {
				fail("cli-differ:"+t.Name+":"+routes[i].name, "gnmi_cli output for %s differs between %s and %s", t.Name, routes[base].name, routes[i].name)
			}
		}
	}
	if rep.Observation == "" {
		rep.Observation = "ok"
	}
	return
}

// rank orders observations: what is reported when several things went wrong.
func rank(obs string) int {
	switch {
	case strings.HasPrefix(obs, "setup-failed"), strings.HasPrefix(obs, "collector-failed"):
		return 0
	case strings.HasPrefix(obs, "diff:"):
		return 1
	case strings.HasPrefix(obs, "cli-differ:"):
		return 2
	case strings.HasPrefix(obs, "timeout:"):
		return 3
	}
	return 4
}

func main() {
	spec := flag.String("spec", "", "scenario file (JSON)")
	collectorBin := flag.String("collector", "", "built gnmi_collector")
	cliBin := flag.String("cli", "", "built gnmi_cli")
	scratch := flag.String("scratch", os.Getenv("VERIF_SCRATCH"), "scratch directory (removed by the caller)")
	reportFile := flag.String("report", "", "write the detailed report (JSON) here")
	flag.Parse()
	if *spec == "" || *collectorBin == "" || *cliBin == "" || *scratch == "" {
		fmt.Fprintln(os.Stderr, "usage: ve2e -spec f.json -collector bin -cli bin -scratch dir [-report out.json]")
		os.Exit(2)
	}
	b, err := os.ReadFile(*spec)
	if err != nil {
		fmt.Fprintln(os.Stderr, err)
		os.Exit(2)
	}
	var scs []scenario
	if err := json.Unmarshal(b, &scs); err != nil {
		fmt.Fprintln(os.Stderr, "bad scenario file:", err)
		os.Exit(2)
	}
	var reps []report
	for i, sc := range scs {
		rep := runScenario(sc, *collectorBin, *cliBin, *scratch, i)
		reps = append(reps, rep)
		fmt.Println(rep.Observation)
	}
	if *reportFile != "" {
		out, _ := json.MarshalIndent(reps, "", " ")
		os.WriteFile(*reportFile, out, 0o600)
	}
}
