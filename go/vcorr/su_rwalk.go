package main

// su rwalk: a STREAM subscription is being set up while the match tree is busy.  Another subscriber's callback is
// held inside match.Update (the tree's read lock is held), so the registration of the new subscriber's paths waits
// for the write lock; meanwhile the target adds a leaf and deletes one under the new subscriber's second path; then
// the held callback is released.  The server registers a subscriber BEFORE it walks the cache for it: whatever was
// written before the registration is found by the walk, whatever comes after is streamed.  So once everything has
// quiesced the subscriber's view (its responses replayed) is the cache's content under its paths.  Observation: the
// monitor's verdict only.  Found necessary by seeded change c01_seed12 (the initial walk started before
// addSubscription: a leaf created, or a delete streamed, between the walk and the registration is lost).

import (
	"context"
	"net"
	"sort"
	"strings"
	"sync"
	"time"

	"github.com/openconfig/gnmi/cache"
	"github.com/openconfig/gnmi/ctree"
	"github.com/openconfig/gnmi/path"
	"github.com/openconfig/gnmi/subscribe"
	"google.golang.org/grpc/metadata"
	"google.golang.org/grpc/peer"

	pb "github.com/openconfig/gnmi/proto/gnmi"
)

type rwStream struct {
	ctx    context.Context
	first  *pb.SubscribeRequest
	mu     sync.Mutex
	recvd  bool
	view   map[string]string
	synced chan struct{}
	once   sync.Once
}

func (s *rwStream) Context() context.Context     { return s.ctx }
func (s *rwStream) SetHeader(metadata.MD) error  { return nil }
func (s *rwStream) SendHeader(metadata.MD) error { return nil }
func (s *rwStream) SetTrailer(metadata.MD)       {}
func (s *rwStream) SendMsg(interface{}) error    { return nil }
func (s *rwStream) RecvMsg(interface{}) error    { return nil }

func (s *rwStream) Recv() (*pb.SubscribeRequest, error) {
	s.mu.Lock()
	first := !s.recvd
	s.recvd = true
	s.mu.Unlock()
	if first {
		return s.first, nil
	}
	<-s.ctx.Done()
	return nil, s.ctx.Err()
}

func (s *rwStream) Send(r *pb.SubscribeResponse) error {
	s.mu.Lock()
	defer s.mu.Unlock()
	if r.GetSyncResponse() {
		s.once.Do(func() { close(s.synced) })
		return nil
	}
	n := r.GetUpdate()
	pre := path.ToStrings(n.GetPrefix(), true)
	for _, d := range n.GetDelete() {
		k := strings.Join(append(append([]string{}, pre...), path.ToStrings(d, false)...), "/")
		for have := range s.view {
			if have == k || strings.HasPrefix(have, k+"/") {
				delete(s.view, have)
			}
		}
	}
	for _, u := range n.GetUpdate() {
		k := strings.Join(append(append([]string{}, pre...), path.ToStrings(u.GetPath(), false)...), "/")
		s.view[k] = u.GetVal().String()
	}
	return nil
}

type rwBlocker struct {
	entered chan struct{}
	release chan struct{}
	once    sync.Once
}

func (b *rwBlocker) Update(interface{}) {
	b.once.Do(func() {
		close(b.entered)
		<-b.release
	})
}

func rwNoti(ts int64, elems []string, v int64, del bool) *pb.Notification {
	p := &pb.Path{}
	for _, e := range elems {
		p.Elem = append(p.Elem, &pb.PathElem{Name: e})
	}
	n := &pb.Notification{Timestamp: ts, Prefix: &pb.Path{Target: "dev1"}}
	if del {
		n.Delete = []*pb.Path{p}
	} else {
		n.Update = []*pb.Update{{Path: p, Val: &pb.TypedValue{Value: &pb.TypedValue_IntVal{IntVal: v}}}}
	}
	return n
}

func suRaceWalk() string {
	c := cache.New([]string{"dev1"})
	srv, err := subscribe.NewServer(c, subscribe.WithTimeout(scaled(10*time.Second)))
	if err != nil {
		return "mon=setup-failed"
	}
	c.SetClient(srv.Update)
	c.GnmiUpdate(rwNoti(1, []string{"a", "x"}, 1, false))
	c.GnmiUpdate(rwNoti(2, []string{"b", "x"}, 1, false))
	// another subscriber, registered for everything of dev1, whose callback is slow once
	bl := &rwBlocker{entered: make(chan struct{}), release: make(chan struct{})}
	rm := subscribe.VerifMatch(srv).AddQuery([]string{"dev1"}, bl)
	defer rm()
	var wg sync.WaitGroup
	wg.Add(1)
	go func() { defer wg.Done(); c.GnmiUpdate(rwNoti(3, []string{"c", "z"}, 1, false)) }()
	released := false
	release := func() {
		if !released {
			released = true
			close(bl.release)
		}
	}
	defer release()
	select {
	case <-bl.entered:
	case <-time.After(scaled(10 * time.Second)):
		return "mon=setup-callback-never-entered"
	}
	// the new subscriber: STREAM on dev1, paths a and b
	ctx, cancel := context.WithCancel(peer.NewContext(context.Background(), &peer.Peer{Addr: &net.TCPAddr{IP: net.IPv4(127, 0, 0, 1), Port: 7}}))
	defer cancel()
	st := &rwStream{ctx: ctx, view: map[string]string{}, synced: make(chan struct{}),
		first: &pb.SubscribeRequest{Request: &pb.SubscribeRequest_Subscribe{Subscribe: &pb.SubscriptionList{
			Prefix: &pb.Path{Target: "dev1"}, Mode: pb.SubscriptionList_STREAM,
			Subscription: []*pb.Subscription{
				{Path: &pb.Path{Elem: []*pb.PathElem{{Name: "a"}}}},
				{Path: &pb.Path{Elem: []*pb.PathElem{{Name: "b"}}}},
			}}}}}
	done := make(chan struct{})
	go func() { defer close(done); srv.Subscribe(st) }()
	time.Sleep(scaled(150 * time.Millisecond)) // the handler has reached its registration (and waits there)
	// the target moves on under the second path while the registration waits
	wg.Add(2)
	go func() { defer wg.Done(); c.GnmiUpdate(rwNoti(4, []string{"b", "y"}, 2, false)) }()
	time.Sleep(scaled(50 * time.Millisecond))
	go func() { defer wg.Done(); c.GnmiUpdate(rwNoti(5, []string{"b", "x"}, 0, true)) }()
	time.Sleep(scaled(150 * time.Millisecond))
	release()
	wg.Wait()
	select {
	case <-st.synced:
	case <-time.After(scaled(10 * time.Second)):
		return "mon=FAIL:no-sync-response"
	}
	want := map[string]string{}
	for _, q := range [][]string{{"a"}, {"b"}} {
		c.Query("dev1", q, func(p []string, _ *ctree.Leaf, v interface{}) error {
			n := v.(*pb.Notification)
			want["dev1/"+strings.Join(p, "/")] = n.GetUpdate()[0].GetVal().String()
			return nil
		})
	}
	render := func(m map[string]string) string {
		var ks []string
		for k, v := range m {
			ks = append(ks, k+"="+strings.ReplaceAll(v, " ", ""))
		}
		sort.Strings(ks)
		return strings.Join(ks, ",")
	}
	deadline := time.Now().Add(scaled(5 * time.Second))
	for {
		st.mu.Lock()
		got := render(st.view)
		st.mu.Unlock()
		if got == render(want) {
			break
		}
		if time.Now().After(deadline) {
			return "mon=FAIL:view-differs-from-cache view=[" + got + "] cache=[" + render(want) + "]"
		}
		time.Sleep(scaled(20 * time.Millisecond))
	}
	cancel()
	select {
	case <-done:
	case <-time.After(scaled(10 * time.Second)):
		return "mon=FAIL:rpc-did-not-end"
	}
	return "mon=ok"
}
