package main

// rc new pxr <k> [<where>]: a Poll is in flight on the transport of one subscription when the client is subscribed
// again (what client.Reconnect does after every ended attempt) and then closed.
//
//	1. BaseClient.Subscribe #1 (Poll query) on transport 1: the sync marker, Subscribe returns nil;
//	2. the target answers a poll with k updates and a sync (all received: buffered in transport 1);
//	   BaseClient.Poll() is called; the application's handler is inside the first update;
//	3. BaseClient.Subscribe #2 installs transport 2 (closing transport 1, whose already received messages
//	   are still handed out by Recv, as a gRPC stream does) and returns after its sync marker;
//	4. BaseClient.Close() is called and returns;
//	5. the handler is let go.
//
// <where> (default mid) says when Close is called relative to the second Subscribe:
//
//	mid     as above (Subscribe #2, then Close);
//	before  Close is called instead of the second Subscribe, which is then not made (step 3 dropped);
//	none    no second Subscribe (the same calls as before: kept as a separate spelling of the scenario);
//	after   Close is called and returns, THEN Subscribe #2 (steps 4, 3): Subscribe resets c.closed
//	        (client.go:146), so the Poll caller goes on delivering — outside the hypothesis of the property
//	        (theorem C18Resub.resubscribe_after_close_reopens), recorded as `reopened`, not a failure.
//
// C18: "after Close returns at most the notifications of one further received message are delivered" —
// whichever transport they were received on.  Observation: pxr=<verdict> after=<n> total=<m> with n the
// updates of the poll answer that entered the handler after Close had returned, m all of them, verdict ok
// (n <= 1), afterclose (n > 1), reopened (n > 1 for `after`), or pxr=deadline-<call> when some call did not
// return.  The model side (lean/Driver/RC.lean: pxr) computes the same three values from the LTS of
// lean/Gnmi/Model/ClientResub.lean under this schedule.  Found necessary by seeded change c18_seed10 (run
// honouring `closed` only for the currently installed Impl).

import (
	"context"
	"errors"
	"fmt"
	"strconv"
	"sync"
	"sync/atomic"
	"time"

	"github.com/openconfig/gnmi/client"
)

type pxrImpl struct {
	ch      chan client.Notification
	closedC chan struct{}
	once    sync.Once
	h       client.NotificationHandler
}

func newPxrImpl() *pxrImpl {
	return &pxrImpl{ch: make(chan client.Notification, 64), closedC: make(chan struct{})}
}

func (i *pxrImpl) Subscribe(_ context.Context, q client.Query) error {
	i.h = q.NotificationHandler
	return nil
}

func (i *pxrImpl) Recv() error {
	var n client.Notification
	select {
	case n = <-i.ch: // received before the transport was closed: still handed out
	default:
		select {
		case n = <-i.ch:
		case <-i.closedC:
			return errors.New("transport closed")
		}
	}
	if err := i.h(n); err != nil {
		return err
	}
	if _, ok := n.(client.Sync); ok {
		return client.ErrStopReading
	}
	return nil
}

func (i *pxrImpl) Poll() error { return nil }

func (i *pxrImpl) Close() error {
	i.once.Do(func() { close(i.closedC) })
	return nil
}

var pxrNo int32

func (c *rcComp) pxrRun(args []string) string {
	k, err := strconv.Atoi(args[2])
	if err != nil || k < 1 || k > 40 || strconv.Itoa(k) != args[2] {
		return "bad-scenario"
	}
	where := "mid"
	if len(args) == 4 {
		where = args[3]
	}
	if where != "mid" && where != "before" && where != "none" && where != "after" {
		return "bad-scenario"
	}
	rcRunMu.Lock()
	defer rcRunMu.Unlock()
	typ := fmt.Sprintf("verif-pxr-%d", atomic.AddInt32(&pxrNo, 1))
	impls := []*pxrImpl{newPxrImpl(), newPxrImpl()}
	var dials int32
	client.RegisterTest(typ, func(ctx context.Context, _ client.Destination) (client.Impl, error) {
		n := int(atomic.AddInt32(&dials, 1))
		if n > len(impls) {
			return nil, errors.New("no further transport")
		}
		return impls[n-1], nil
	})
	var (
		inFirst    = make(chan struct{})
		gate       = make(chan struct{})
		firstOnce  sync.Once
		closedDone int32
		after      int32
		total      int32
	)
	q := client.Query{
		Addrs:   []string{"pxr"},
		Type:    client.Poll,
		Queries: []client.Path{{"*"}},
		NotificationHandler: func(n client.Notification) error {
			u, ok := n.(client.Update)
			if !ok || len(u.Path) == 0 || u.Path[0] != "polled" {
				return nil
			}
			atomic.AddInt32(&total, 1)
			if atomic.LoadInt32(&closedDone) == 1 {
				atomic.AddInt32(&after, 1)
			}
			firstOnce.Do(func() {
				close(inFirst)
				<-gate
			})
			return nil
		},
	}
	deadline := scaled(10 * time.Second)
	within := func(f func()) bool {
		done := make(chan struct{})
		go func() { defer close(done); f() }()
		select {
		case <-done:
			return true
		case <-time.After(deadline):
			return false
		}
	}
	bc := &client.BaseClient{}
	c.ret, c.mon = "-", "ok"
	fail := func(what string) string {
		close(gate)
		bc.Close()
		c.mon = what
		return "pxr=" + what
	}
	impls[0].ch <- client.Sync{}
	if !within(func() { bc.Subscribe(context.Background(), q, typ) }) {
		return fail("deadline-subscribe-1")
	}
	for j := 0; j < k; j++ {
		impls[0].ch <- client.Update{Path: client.Path{"polled", strconv.Itoa(j)}, TS: time.Unix(int64(j), 0), Val: j}
	}
	impls[0].ch <- client.Sync{}
	pollDone := make(chan struct{})
	go func() { defer close(pollDone); bc.Poll() }()
	select {
	case <-inFirst:
	case <-time.After(deadline):
		return fail("deadline-poll-never-delivered")
	}
	sub2 := func() bool {
		impls[1].ch <- client.Sync{}
		return within(func() { bc.Subscribe(context.Background(), q, typ) })
	}
	if where == "mid" && !sub2() {
		return fail("deadline-subscribe-2")
	}
	if !within(func() { bc.Close() }) {
		return fail("deadline-close")
	}
	atomic.StoreInt32(&closedDone, 1)
	if where == "after" && !sub2() {
		return fail("deadline-subscribe-2")
	}
	close(gate)
	select {
	case <-pollDone:
	case <-time.After(deadline):
		c.mon = "deadline-poll"
		return "pxr=deadline-poll"
	}
	n, m := atomic.LoadInt32(&after), atomic.LoadInt32(&total)
	verdict := "ok"
	if n > 1 {
		if where == "after" {
			verdict = "reopened" // Subscribe after Close resets c.closed: code behaviour, not a failure
		} else {
			verdict = "afterclose"
			c.mon = "afterclose"
		}
	}
	return fmt.Sprintf("pxr=%s after=%d total=%d", verdict, n, m)
}
