package main

// mh: createConn's next-hop loop, uniqueNextHops, customizeRequest and Config.Timeout of
// manager/manager.go on the REAL code (grammar: lean/Driver/MH.lean; model: Model/ManagerHops.lean).
//
//   uniq <enc addr>*                      manager.uniqueNextHops through its seam, keys sorted
//   cc   T<0|1> H<n> <outs|-> [c<k>]      Manager.createConn through its seam on a target with n next hops
//                                         (plus duplicates and chains behind the separator), against a scripted
//                                         ConnectionManager: the k-th CALL does outs[k] (o ok / f fail / s slower
//                                         than Config.Timeout; beyond the string: fail); c<k>: the caller's context
//                                         is cancelled while call k is in flight
//   creq <enc name> Q<0..3>               customizeRequest through its seam
//   sess|sessc T<0|1> H<n> <outs|-> Q<v>  the real Manager: Add target t (n hops; first attempt as scripted, later
//                                         attempts: first call answers) and target u (one hop) WITH THE SAME request
//                                         object; the scripted gNMI server records the request it receives, keeps
//                                         silent for 3 x Config.Timeout, then sends one update; Remove both.
//                                         sessc: the real connection.Manager (scripted Dial) underneath.
//
// The order in which createConn tries the hops is Go's map iteration order: outcomes are scripted per
// call, the observation lists results per call and checks by monitors that the hops called are distinct
// (dist) and members of the expected key set (inset).  Timeouts are deadlines, not observations: a slow
// dial under Config.Timeout waits for the deadline of the context it was given (however long that takes);
// without Config.Timeout it answers after a short sleep.

import (
	"context"
	"errors"
	"fmt"
	"math/rand"
	"net"
	"sort"
	"strconv"
	"strings"
	"sync"
	"time"

	"google.golang.org/grpc"
	"google.golang.org/grpc/connectivity"
	"google.golang.org/grpc/credentials/insecure"
	"google.golang.org/grpc/test/bufconn"
	"google.golang.org/protobuf/proto"

	"github.com/openconfig/gnmi/connection"
	"github.com/openconfig/gnmi/manager"
	gpb "github.com/openconfig/gnmi/proto/gnmi"
	tpb "github.com/openconfig/gnmi/proto/target"
)

const (
	mhTimeout = 40 * time.Millisecond // Config.Timeout of the T1 scenarios
	mhSlow    = 15 * time.Millisecond // a slow dial without Config.Timeout
)

type mhComp struct{ once sync.Once }

func init() { components["mh"] = &mhComp{} }

func mhParseT(s string) (bool, bool) {
	switch s {
	case "T0":
		return false, true
	case "T1":
		return true, true
	}
	return false, false
}

func mhParseNum(pfx byte, s string) (int, bool) {
	if len(s) < 2 || s[0] != pfx {
		return 0, false
	}
	for _, c := range s[1:] {
		if c < '0' || c > '9' {
			return 0, false
		}
	}
	n, err := strconv.Atoi(s[1:])
	return n, err == nil
}

func mhParseOuts(s string) (string, bool) {
	if s == "-" {
		return "", true
	}
	return s, strings.Trim(s, "ofs") == ""
}

// mhAddrs: n next hops h0..h(n-1), each possibly with a chain behind the separator, with duplicates.
func mhAddrs(n int) []string {
	var a []string
	for k := 0; k < n; k++ {
		a = append(a, fmt.Sprintf("h%d;x%d;y", k, k))
	}
	for k := 0; k < n; k += 2 {
		a = append(a, fmt.Sprintf("h%d", k)) // the same next hop again, no chain
	}
	return a
}

// ---------------------------------------------------------------- scripted ConnectionManager (cc)

type mhCall struct {
	hop      string
	ctx      context.Context
	deadline bool
	res      byte
	dones    int
}

type mhCM struct {
	mu       sync.Mutex
	parent   context.Context
	cancel   func()
	outs     string
	cancelAt int
	calls    []*mhCall
	dial     func() (*grpc.ClientConn, error)
}

func (c *mhCM) Connection(ctx context.Context, addr, dialer string) (*grpc.ClientConn, func(), error) {
	c.mu.Lock()
	k := len(c.calls)
	_, dl := ctx.Deadline()
	call := &mhCall{hop: addr, ctx: ctx, deadline: dl && ctx != c.parent}
	c.calls = append(c.calls, call)
	c.mu.Unlock()
	done := func() { c.mu.Lock(); call.dones++; c.mu.Unlock() }
	out := byte('f')
	if k < len(c.outs) {
		out = c.outs[k]
	}
	if k == c.cancelAt {
		c.cancel() // the caller's context is cancelled while this call is in flight
	}
	switch out {
	case 'o':
	case 's':
		if call.deadline {
			<-ctx.Done() // slower than Config.Timeout: the deadline of connCtx ends the dial
			call.res = 't'
			return nil, done, ctx.Err()
		}
		time.Sleep(mhSlow)
	default:
		call.res = 'f'
		return nil, done, errors.New("scripted hop failure")
	}
	conn, err := c.dial()
	if err != nil {
		call.res = 'f'
		return nil, done, err
	}
	call.res = 'c'
	return conn, done, nil
}

func mhCC(tmo bool, n int, outs string, cancelAt int) string {
	cfg := manager.Config{ConnectionManager: nil}
	parent, cancel := context.WithCancel(context.Background())
	defer cancel()
	var dialed []*grpc.ClientConn
	cm := &mhCM{parent: parent, cancel: cancel, outs: outs, cancelAt: cancelAt, dial: func() (*grpc.ClientConn, error) {
		conn, err := grpc.NewClient("passthrough:///nowhere", grpc.WithTransportCredentials(insecure.NewCredentials()))
		if err == nil {
			dialed = append(dialed, conn)
		}
		return conn, err
	}}
	cfg.ConnectionManager = cm
	if tmo {
		cfg.Timeout = mhTimeout
	}
	m, err := manager.NewManager(cfg)
	if err != nil {
		return "bad-op"
	}
	conn, done, cerr := m.VerifCreateConn(parent, "t", &tpb.Target{Addresses: mhAddrs(n)})
	defer func() {
		for _, c := range dialed {
			c.Close()
		}
	}()
	cm.mu.Lock()
	defer cm.mu.Unlock()
	calls, defers, acq := "", 0, 0
	dl, dist, inset := true, true, true
	seen := map[string]bool{}
	for _, c := range cm.calls {
		calls += string(c.res)
		if c.deadline != tmo {
			dl = false
		}
		if c.deadline && c.ctx.Err() != nil {
			defers++ // a timeout context of this createConn that is done now that createConn has returned
		}
		if c.res == 'c' {
			acq++
		}
		if seen[c.hop] {
			dist = false
		}
		seen[c.hop] = true
		if k, ok := mhParseNum('h', c.hop); !ok || k >= n {
			inset = false
		}
	}
	if calls == "" {
		calls = "-"
	}
	// whose done is returned?
	before := make([]int, len(cm.calls))
	for i, c := range cm.calls {
		before[i] = c.dones
	}
	cm.mu.Unlock()
	if done != nil {
		done()
	}
	cm.mu.Lock()
	dn := "-"
	if done == nil {
		dn = "nil"
	}
	for i, c := range cm.calls {
		if c.dones != before[i] {
			dn = strconv.Itoa(i)
		}
	}
	// which of the four returns?  (the error returns differ in whose done comes back: `last` hands out the
	// done of the last call, `ctx` and `noaddr` a no-op)
	ret := "last"
	switch {
	case cerr == nil && conn != nil:
		ret = "conn"
	case cerr == nil:
		ret = "nilconn"
	case len(mhAddrs(n)) == 0:
		ret = "noaddr"
	case dn == "-" && parent.Err() != nil && errors.Is(cerr, context.Canceled):
		ret = "ctx"
	case dn == "-":
		ret = "noop-done"
	}
	return fmt.Sprintf("ret=%s calls=%s defers=%d done=%s acq=%d dl=%s dist=%s inset=%s", ret, calls, defers, dn, acq,
		b01(dl), b01(dist), b01(inset))
}

// ---------------------------------------------------------------- customizeRequest (creq)

func mhRequest(v int) *gpb.SubscribeRequest {
	paths := []*gpb.Subscription{
		{Path: &gpb.Path{Elem: []*gpb.PathElem{{Name: "a"}}}},
		{Path: &gpb.Path{Elem: []*gpb.PathElem{{Name: "b"}, {Name: "c"}}}},
	}
	sl := &gpb.SubscriptionList{Subscription: paths, Mode: gpb.SubscriptionList_STREAM}
	switch v {
	case 1:
		sl.Prefix = &gpb.Path{Target: "cfg", Origin: "oc", Elem: []*gpb.PathElem{{Name: "p"}}}
	case 2:
		sl.Prefix = &gpb.Path{Origin: "oc"}
	case 3:
		return &gpb.SubscribeRequest{Request: &gpb.SubscribeRequest_Poll{Poll: &gpb.Poll{}}}
	}
	return &gpb.SubscribeRequest{Request: &gpb.SubscribeRequest_Subscribe{Subscribe: sl}}
}

func mhRenderPath(p *gpb.Path) string {
	if len(p.GetElem()) == 0 {
		return "."
	}
	s := ""
	for _, e := range p.GetElem() {
		s += "/" + encStr(e.GetName())
	}
	return s
}

func mhRenderReq(r *gpb.SubscribeRequest) string {
	switch r.GetRequest().(type) {
	case *gpb.SubscribeRequest_Subscribe:
		s := r.GetSubscribe()
		pf := "nil"
		if p := s.GetPrefix(); p != nil {
			pf = encStr(p.GetTarget()) + ":" + encStr(p.GetOrigin()) + ":" + mhRenderPath(p)
		}
		var ps []string
		for _, sub := range s.GetSubscription() {
			ps = append(ps, mhRenderPath(sub.GetPath()))
		}
		return "sub " + pf + " [" + strings.Join(ps, ",") + "]"
	case *gpb.SubscribeRequest_Poll:
		return "poll"
	}
	return "unset"
}

func mhCreq(name string, v int) string {
	sr := mhRequest(v)
	keep := proto.Clone(sr).(*gpb.SubscribeRequest)
	cr := manager.VerifCustomizeRequest(name, sr)
	fresh := cr != sr
	if s := cr.GetSubscribe(); s != nil {
		fresh = fresh && s != sr.GetSubscribe() && (s.GetPrefix() == nil || s.GetPrefix() != sr.GetSubscribe().GetPrefix())
	}
	return fmt.Sprintf("sent=%s orig=%s fresh=%s", mhRenderReq(cr), b01(proto.Equal(sr, keep)), b01(fresh))
}

// ---------------------------------------------------------------- whole sessions (sess / sessc)

type mhSess struct {
	gpb.UnimplementedGNMIServer
	tmo   bool
	outs  string
	lis   *bufconn.Listener
	acct  mgAcct
	real  *connection.Manager
	mu    sync.Mutex
	att   map[string]int    // Connection/Dial calls of the current attempt, per target
	calls string            // results of the calls of target t's first attempt
	first bool              // t's first attempt is over
	dl    bool              // every Connection context had a deadline iff Config.Timeout
	reqs  map[string]string // request received by the server, per prefix target
	evs   map[string][]string
	late  int
	gone  map[string]bool
	dials []*grpc.ClientConn
	cond  *sync.Cond
	// the harness itself was too slow for Config.Timeout (a Connection call was entered with its deadline
	// already expired): timeouts are deadlines, never observations — the scenario is run again
	disturbed bool
}

func (s *mhSess) record(name, ev string) {
	s.mu.Lock()
	if s.gone[name] {
		s.late++
	}
	s.evs[name] = append(s.evs[name], ev)
	if name == "t" && ev == "E" {
		s.first = true // the first attempt failed as a whole: from now on the first call answers
		s.att[name] = 0
	}
	s.cond.Broadcast()
	s.mu.Unlock()
}

func (s *mhSess) newConn() (*grpc.ClientConn, error) {
	conn, err := grpc.NewClient("passthrough:///bufnet",
		grpc.WithContextDialer(func(ctx context.Context, _ string) (net.Conn, error) { return s.lis.DialContext(ctx) }),
		grpc.WithTransportCredentials(insecure.NewCredentials()))
	if err == nil {
		s.mu.Lock()
		s.dials = append(s.dials, conn)
		s.mu.Unlock()
	}
	return conn, err
}

// scriptDial: what the k-th call of the current attempt of the target named in ctx does.
func (s *mhSess) scriptDial(ctx context.Context, _ string, _ ...grpc.DialOption) (*grpc.ClientConn, error) {
	name := mgTargetOf(ctx)
	_, dl := ctx.Deadline()
	s.mu.Lock()
	k := s.att[name]
	s.att[name]++
	scripted := name == "t" && !s.first
	if dl != s.tmo {
		s.dl = false
	}
	s.mu.Unlock()
	out := byte('o')
	if scripted {
		out = 'f'
		if k < len(s.outs) {
			out = s.outs[k]
		}
	}
	res := byte('c')
	var conn *grpc.ClientConn
	var err error
	switch out {
	case 'f':
		res, err = 'f', errors.New("scripted hop failure")
	case 's':
		if dl {
			<-ctx.Done()
			res, err = 't', ctx.Err()
		} else {
			time.Sleep(mhSlow)
		}
	}
	if err == nil {
		conn, err = s.newConn()
	}
	if scripted {
		s.mu.Lock()
		s.calls += string(res)
		if res == 'c' {
			s.first = true
		}
		s.mu.Unlock()
	}
	return conn, err
}

func (s *mhSess) Connection(ctx context.Context, addr, dialer string) (*grpc.ClientConn, func(), error) {
	if errors.Is(ctx.Err(), context.DeadlineExceeded) {
		s.mu.Lock()
		s.disturbed = true
		s.mu.Unlock()
	}
	var conn *grpc.ClientConn
	var done func()
	var err error
	if s.real != nil {
		conn, done, err = s.real.Connection(ctx, addr, dialer)
	} else if conn, err = s.scriptDial(ctx, addr); err == nil {
		c := conn
		done = func() { c.Close() }
	}
	if err != nil {
		return nil, func() {}, err
	}
	return conn, s.acct.acquire(mgTargetOf(ctx), conn, done), nil
}

// Subscribe: record the request; silent for 3 x Config.Timeout; one update; then silent.
func (s *mhSess) Subscribe(stream gpb.GNMI_SubscribeServer) error {
	req, err := stream.Recv()
	if err != nil {
		return err
	}
	name := req.GetSubscribe().GetPrefix().GetTarget()
	s.mu.Lock()
	s.reqs[name] = mhRenderReq(req)
	s.mu.Unlock()
	select {
	case <-time.After(3 * mhTimeout):
	case <-stream.Context().Done():
		return stream.Context().Err()
	}
	if err := stream.Send(mgResponse('u', 0)); err != nil {
		return err
	}
	<-stream.Context().Done()
	return stream.Context().Err()
}

func mhSession(real, tmo bool, n int, outs string, v int) string {
	obs := ""
	for try := 0; try < 3; try++ {
		var disturbed bool
		if obs, disturbed = mhSessionOnce(real, tmo, n, outs, v); !disturbed {
			break
		}
	}
	return obs
}

func mhSessionOnce(real, tmo bool, n int, outs string, v int) (string, bool) {
	s := &mhSess{tmo: tmo, outs: outs, lis: bufconn.Listen(1 << 20), att: map[string]int{}, dl: true,
		reqs: map[string]string{}, evs: map[string][]string{}, gone: map[string]bool{}}
	s.cond = sync.NewCond(&s.mu)
	if real {
		cm, err := connection.NewManagerCustom(map[string]connection.Dial{connection.DEFAULT: s.scriptDial})
		if err != nil {
			return "bad-op", false
		}
		s.real = cm
	}
	srv := grpc.NewServer()
	gpb.RegisterGNMIServer(srv, s)
	go srv.Serve(s.lis)
	defer srv.Stop()
	cfg := manager.Config{
		Connect:           func(name string) { s.record(name, "C") },
		Reset:             func(name string) { s.record(name, "R") },
		Sync:              func(name string) { s.record(name, "S") },
		Update:            func(name string, _ *gpb.Notification) { s.record(name, "U") },
		ConnectError:      func(name string, _ error) { s.record(name, "E") },
		MonitorError:      func(name string, _ error) {},
		ConnectionManager: s,
	}
	if tmo {
		cfg.Timeout = mhTimeout
	}
	m, err := manager.NewManager(cfg)
	if err != nil {
		return "bad-op", false
	}
	sr := mhRequest(v)
	keep := proto.Clone(sr).(*gpb.SubscribeRequest)
	// ONE request object for both targets (as the collector does)
	if err := m.Add("t", &tpb.Target{Addresses: mhAddrs(n)}, sr); err != nil {
		return "bad-op", false
	}
	if err := m.Add("u", &tpb.Target{Addresses: []string{"u0;z"}}, sr); err != nil {
		return "bad-op", false
	}
	// wait for the update of both targets (it comes 3 x Config.Timeout into the stream) — or for the end of their streams
	has := func(name, ev string) bool {
		for _, e := range s.evs[name] {
			if e == ev {
				return true
			}
		}
		return false
	}
	t := time.AfterFunc(scaled(5*time.Second), func() { s.mu.Lock(); s.late += 1000; s.cond.Broadcast(); s.mu.Unlock() })
	s.mu.Lock()
	for s.late < 1000 && !((has("t", "U") || has("t", "R")) && (has("u", "U") || has("u", "R"))) {
		s.cond.Wait()
	}
	stuck := s.late >= 1000
	if stuck {
		s.late -= 1000
	}
	s.mu.Unlock()
	t.Stop()
	m.Remove("t")
	s.mu.Lock()
	s.gone["t"] = true
	s.mu.Unlock()
	m.Remove("u")
	s.mu.Lock()
	s.gone["u"] = true
	s.mu.Unlock()
	time.Sleep(2 * time.Millisecond)
	s.mu.Lock()
	defer s.mu.Unlock()
	if stuck {
		return "stuck", s.disturbed
	}
	// E before the first Connect; the update must arrive on the FIRST stream (no Reset before it): it is sent
	// 3 x Config.Timeout into the stream
	errs, conn, upd := 0, false, false
	for _, e := range s.evs["t"] {
		if e == "R" {
			break
		}
		switch e {
		case "E":
			if !conn {
				errs++
			}
		case "C":
			conn = true
		case "U":
			upd = conn
		}
	}
	calls := s.calls
	if calls == "" {
		calls = "-"
	}
	acq, leak, twice, _ := s.acct.counts("t")
	obs := fmt.Sprintf("calls=%s E=%d conn=%s upd=%s req=%s req2=%s orig=%s acq=%d leak=%d twice=%d dl=%s quiet=%s",
		calls, errs, b01(conn), b01(upd), s.reqs["t"], s.reqs["u"], b01(proto.Equal(sr, keep)), acq, leak, twice,
		b01(s.dl), b01(s.late == 0))
	if real {
		open := 0
		for _, c := range s.dials {
			if c.GetState() != connectivity.Shutdown {
				open++
			}
		}
		obs += fmt.Sprintf(" # cm=%d open=%d", len(connection.VerifSnapshot(s.real)), open)
	} else {
		for _, c := range s.dials {
			c.Close()
		}
	}
	return obs, s.disturbed
}

// ---------------------------------------------------------------- component

func (c *mhComp) Run(args []string) string {
	if len(args) == 0 {
		return "bad-op"
	}
	c.once.Do(func() {
		manager.RetryBaseDelay = time.Millisecond
		manager.RetryMaxDelay = 2 * time.Millisecond
	})
	switch args[0] {
	case "new":
		return "ok"
	case "uniq":
		var addrs []string
		for _, a := range args[1:] {
			addrs = append(addrs, decStr(a))
		}
		keys := manager.VerifUniqueNextHops(addrs)
		sort.Strings(keys)
		for i := range keys {
			keys[i] = encStr(keys[i])
		}
		return "[" + strings.Join(keys, ",") + "]"
	case "cc":
		if len(args) != 4 && len(args) != 5 {
			return "bad-op"
		}
		tmo, ok1 := mhParseT(args[1])
		n, ok2 := mhParseNum('H', args[2])
		outs, ok3 := mhParseOuts(args[3])
		cancelAt := -1
		if len(args) == 5 {
			k, ok := mhParseNum('c', args[4])
			if !ok {
				return "bad-op"
			}
			cancelAt = k
		}
		if !ok1 || !ok2 || !ok3 || n > 6 {
			return "bad-op"
		}
		return mhCC(tmo, n, outs, cancelAt)
	case "creq":
		if len(args) != 3 {
			return "bad-op"
		}
		v, ok := mhParseNum('Q', args[2])
		if !ok || v > 3 {
			return "bad-op"
		}
		return mhCreq(decStr(args[1]), v)
	case "sess", "sessc":
		if len(args) != 5 {
			return "bad-op"
		}
		tmo, ok1 := mhParseT(args[1])
		n, ok2 := mhParseNum('H', args[2])
		outs, ok3 := mhParseOuts(args[3])
		v, ok4 := mhParseNum('Q', args[4])
		if !ok1 || !ok2 || !ok3 || !ok4 || n == 0 || n > 6 || v > 2 {
			return "bad-op"
		}
		return mhSession(args[0] == "sessc", tmo, n, outs, v)
	}
	return "bad-op"
}

func mhGenOuts(r *rand.Rand, n int) string {
	k := r.Intn(n + 2)
	if k == 0 {
		return "-"
	}
	s := ""
	for i := 0; i < k; i++ {
		s += string("ooffffss"[r.Intn(8)])
	}
	return s
}

func (c *mhComp) Gen(r *rand.Rand, tier string) []string {
	seq := []string{"new"}
	k := 4 + r.Intn(6)
	for i := 0; i < k; i++ {
		switch x := r.Intn(10); {
		case x < 2:
			// address lists with shared first elements, empty elements, separators only
			pool := []string{"a", "b", "a;x", "a;y;z", "b;", ";x", "", "c;a", "c", ";", "a;;b"}
			n := r.Intn(6)
			line := "uniq"
			for j := 0; j < n; j++ {
				line += " " + encStr(pool[r.Intn(len(pool))])
			}
			seq = append(seq, line)
		case x < 7:
			n := r.Intn(5)
			line := fmt.Sprintf("cc T%d H%d %s", r.Intn(2), n, mhGenOuts(r, n))
			if r.Intn(3) == 0 {
				line += fmt.Sprintf(" c%d", r.Intn(n+1))
			}
			seq = append(seq, line)
		case x < 8:
			seq = append(seq, fmt.Sprintf("creq %s Q%d", encStr([]string{"t0", "dev/1", "x y"}[r.Intn(3)]), r.Intn(4)))
		default:
			n := 1 + r.Intn(3)
			op := "sess"
			if r.Intn(2) == 0 {
				op = "sessc"
			}
			seq = append(seq, fmt.Sprintf("%s T%d H%d %s Q%d", op, r.Intn(2), n, mhGenOuts(r, n), r.Intn(3)))
		}
	}
	return seq
}

// Exhaustive: every outcome string of length <= hops for 0..3 hops, with and without Config.Timeout, every
// cancellation point; every request variant; sessions over every outcome string of length <= 2.
func (c *mhComp) Exhaustive(tier string) [][]string {
	var seqs [][]string
	cur := []string{"new"}
	emit := func(l string) {
		cur = append(cur, l)
		if len(cur) == 30 {
			seqs = append(seqs, cur)
			cur = []string{"new"}
		}
	}
	var strs func(n int) []string
	strs = func(n int) []string {
		if n == 0 {
			return []string{""}
		}
		var out []string
		for _, p := range strs(n - 1) {
			for _, ch := range "ofs" {
				out = append(out, p+string(ch))
			}
		}
		return out
	}
	maxHops := 3
	for n := 0; n <= maxHops; n++ {
		for l := 0; l <= n; l++ {
			for _, o := range strs(l) {
				if o == "" {
					o = "-"
				}
				for t := 0; t < 2; t++ {
					emit(fmt.Sprintf("cc T%d H%d %s", t, n, o))
					if tier != "quick" || n <= 2 {
						for k := 0; k < n; k++ {
							emit(fmt.Sprintf("cc T%d H%d %s c%d", t, n, o, k))
						}
					}
				}
			}
		}
	}
	for v := 0; v <= 3; v++ {
		emit(fmt.Sprintf("creq t0 Q%d", v))
		emit(fmt.Sprintf("creq %s Q%d", encStr("dev/1"), v))
	}
	emit("uniq")
	emit("uniq " + encStr("a;x") + " b " + encStr("a;y;z") + " b")
	emit("uniq " + encStr(";x") + " ~ " + encStr(";"))
	sessOuts := []string{"-", "o", "f", "s", "fo", "so", "ff", "fs", "sf", "ss"}
	for i, o := range sessOuts {
		for t := 0; t < 2; t++ {
			for _, op := range []string{"sess", "sessc"} {
				if tier == "quick" && (i+t)%2 == 1 && op == "sess" {
					continue
				}
				emit(fmt.Sprintf("%s T%d H2 %s Q%d", op, t, o, (i+t)%3))
			}
		}
	}
	if len(cur) > 1 {
		seqs = append(seqs, cur)
	}
	return seqs
}
