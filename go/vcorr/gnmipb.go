package main

// Abstract descriptions of gNMI messages shared by several components: the
// generator builds these, renders them on the op line (index paths computed by
// the harness itself, independently of the repository's path package, plus
// canonical "raw" renderings that stand for proto.Equal), and `run` rebuilds
// the real protobuf objects from the raw renderings.

import (
	"encoding/hex"
	"fmt"
	"math"
	"math/rand"
	"sort"
	"strconv"
	"strings"

	pb "github.com/openconfig/gnmi/proto/gnmi"
)

type gElem struct {
	name string
	keys [][2]string // sorted by key name when rendered
}

type gPath struct {
	isNil   bool
	origin  string
	target  string
	elem    []gElem
	element []string
}

type gVal struct {
	kind string // absent unset s i u b y d f m l x
	s    string
	i    int64
	u    uint64
	b    bool
	bits uint64
	prec uint32
	list []gVal
	tag  string
}

type gUpd struct {
	path gPath
	val  gVal
	dup  uint32
}

type gNoti struct {
	ts     int64
	prefix gPath
	atomic bool
	upd    []gUpd
	del    []gPath
}

// ---- index (what path.ToStrings is specified to produce) ----

func (p gPath) elems() []string {
	var out []string
	if len(p.elem) > 0 {
		for _, e := range p.elem {
			out = append(out, e.name)
			ks := append([][2]string(nil), e.keys...)
			sort.Slice(ks, func(i, j int) bool { return ks[i][0] < ks[j][0] })
			for _, kv := range ks {
				out = append(out, kv[1])
			}
		}
		return out
	}
	return append(out, p.element...)
}

// ---- raw renderings ----

func (p gPath) raw() string {
	if p.isNil {
		return "nil"
	}
	var es []string
	for _, e := range p.elem {
		s := encStr(e.name)
		ks := append([][2]string(nil), e.keys...)
		sort.Slice(ks, func(i, j int) bool { return ks[i][0] < ks[j][0] })
		for _, kv := range ks {
			s += "[" + encStr(kv[0]) + "=" + encStr(kv[1]) + "]"
		}
		es = append(es, s)
	}
	var ls []string
	for _, e := range p.element {
		ls = append(ls, encStr(e))
	}
	enc := func(s string) string {
		if s == "" {
			return ""
		}
		return encStr(s)
	}
	return "o=" + enc(p.origin) + ";t=" + enc(p.target) + ";e=" + strings.Join(es, ",") + ";l=" + strings.Join(ls, ",")
}

func (v gVal) raw() string {
	switch v.kind {
	case "absent", "unset":
		return v.kind
	case "s":
		return "s:" + encStr(v.s)
	case "i":
		return "i:" + strconv.FormatInt(v.i, 10)
	case "u":
		return "u:" + strconv.FormatUint(v.u, 10)
	case "b":
		return "b:" + strconv.FormatBool(v.b)
	case "y":
		return "y:" + v.s
	case "d":
		// raw renderings stand for proto.Equal, which compares floating point fields with
		// == (so +0 and -0 are equal) except that NaNs are equal to each other
		b := v.bits
		if f := math.Float64frombits(b); f == 0 {
			b = 0
		} else if f != f {
			return "d:nan"
		}
		return "d:" + strconv.FormatUint(b, 10)
	case "f":
		b := v.bits
		if f := math.Float32frombits(uint32(b)); f == 0 {
			b = 0
		} else if f != f {
			return "f:nan"
		}
		return "f:" + strconv.FormatUint(b, 10)
	case "m":
		return "m:" + strconv.FormatInt(v.i, 10) + ":" + strconv.FormatUint(uint64(v.prec), 10)
	case "l":
		var xs []string
		for _, e := range v.list {
			xs = append(xs, e.raw())
		}
		return "l:(" + strings.Join(xs, ",") + ")"
	case "x":
		return "x:" + v.tag + ":" + v.s
	}
	return "?"
}

// token rendering for the model (fields separated by ':' on the op line, so '=' here)
func (v gVal) token() string {
	switch v.kind {
	case "absent", "unset":
		return v.kind
	case "s":
		return "s=" + encStr(v.s)
	case "i":
		return "i=" + strconv.FormatInt(v.i, 10)
	case "u":
		return "u=" + strconv.FormatUint(v.u, 10)
	case "b":
		return "b=" + strconv.FormatBool(v.b)
	case "y":
		return "y=" + v.s
	case "d":
		return "d=" + strconv.FormatUint(v.bits, 10)
	case "f":
		return "f=" + strconv.FormatUint(v.bits, 10)
	case "m":
		return "m=" + strconv.FormatInt(v.i, 10) + "_" + strconv.FormatUint(uint64(v.prec), 10)
	case "l":
		var xs []string
		for _, e := range v.list {
			xs = append(xs, e.token())
		}
		return "l=(" + strings.Join(xs, "+") + ")"
	case "x":
		return "x=" + v.tag + "_" + v.s
	}
	return "?"
}

func (u gUpd) raw() string { return u.path.raw() + "#" + u.val.raw() + "#" + strconv.Itoa(int(u.dup)) }

// ---- op-line token of a notification ----

func (n gNoti) token() string {
	at := "N"
	if n.atomic {
		at = "A"
	}
	us := "-"
	if len(n.upd) > 0 {
		var xs []string
		for _, u := range n.upd {
			xs = append(xs, encStr(u.path.origin)+":"+encPath(u.path.elems())+":"+u.val.token()+":"+encStr(u.raw()))
		}
		us = strings.Join(xs, ";")
	}
	ds := "-"
	if len(n.del) > 0 {
		var xs []string
		for _, d := range n.del {
			xs = append(xs, encStr(d.origin)+":"+encPath(d.elems())+":"+encStr(d.raw()))
		}
		ds = strings.Join(xs, ";")
	}
	return strings.Join([]string{strconv.FormatInt(n.ts, 10), encStr(n.prefix.target), encStr(n.prefix.origin),
		encPath(n.prefix.elems()), encStr(n.prefix.raw()), at, us, ds}, "|")
}

// ---- parsing raw renderings back (run mode) ----

func parseRawPath(s string) gPath {
	if s == "nil" {
		return gPath{isNil: true}
	}
	var p gPath
	for _, f := range strings.Split(s, ";") {
		if len(f) < 2 {
			continue
		}
		body := f[2:]
		switch f[:2] {
		case "o=":
			if body != "" {
				p.origin = decStr(body)
			}
		case "t=":
			if body != "" {
				p.target = decStr(body)
			}
		case "e=":
			if body == "" {
				continue
			}
			for _, es := range strings.Split(body, ",") {
				var e gElem
				i := strings.IndexByte(es, '[')
				if i < 0 {
					e.name = decStr(es)
				} else {
					e.name = decStr(es[:i])
					for _, kv := range strings.Split(strings.TrimSuffix(es[i+1:], "]"), "][") {
						j := strings.IndexByte(kv, '=')
						e.keys = append(e.keys, [2]string{decStr(kv[:j]), decStr(kv[j+1:])})
					}
				}
				p.elem = append(p.elem, e)
			}
		case "l=":
			if body == "" {
				continue
			}
			for _, es := range strings.Split(body, ",") {
				p.element = append(p.element, decStr(es))
			}
		}
	}
	return p
}

func parseRawVal(s string) gVal {
	switch {
	case s == "absent" || s == "unset":
		return gVal{kind: s}
	case strings.HasPrefix(s, "l:("):
		v := gVal{kind: "l"}
		inner := strings.TrimSuffix(s[3:], ")")
		if inner != "" {
			for _, e := range strings.Split(inner, ",") {
				v.list = append(v.list, parseRawVal(e))
			}
		}
		return v
	}
	k, body := s[:1], s[2:]
	v := gVal{kind: k}
	switch k {
	case "s":
		v.s = decStr(body)
	case "i":
		v.i, _ = strconv.ParseInt(body, 10, 64)
	case "u":
		v.u, _ = strconv.ParseUint(body, 10, 64)
	case "b":
		v.b = body == "true"
	case "y":
		v.s = body
	case "d", "f":
		v.bits, _ = strconv.ParseUint(body, 10, 64)
	case "m":
		f := strings.Split(body, ":")
		v.i, _ = strconv.ParseInt(f[0], 10, 64)
		p, _ := strconv.ParseUint(f[1], 10, 32)
		v.prec = uint32(p)
	case "x":
		f := strings.SplitN(body, ":", 2)
		v.tag, v.s = f[0], f[1]
	}
	return v
}

// parseValToken is the inverse of gVal.token.
func parseValToken(s string) gVal {
	switch {
	case s == "absent" || s == "unset":
		return gVal{kind: s}
	case strings.HasPrefix(s, "l=("):
		v := gVal{kind: "l"}
		inner := strings.TrimSuffix(s[3:], ")")
		if inner != "" {
			for _, e := range strings.Split(inner, "+") {
				v.list = append(v.list, parseValToken(e))
			}
		}
		return v
	}
	k, body := s[:1], s[2:]
	v := gVal{kind: k}
	switch k {
	case "s":
		v.s = decStr(body)
	case "i":
		v.i, _ = strconv.ParseInt(body, 10, 64)
	case "u":
		v.u, _ = strconv.ParseUint(body, 10, 64)
	case "b":
		v.b = body == "true"
	case "y":
		v.s = body
	case "d", "f":
		v.bits, _ = strconv.ParseUint(body, 10, 64)
	case "m":
		f := strings.Split(body, "_")
		v.i, _ = strconv.ParseInt(f[0], 10, 64)
		p, _ := strconv.ParseUint(f[1], 10, 32)
		v.prec = uint32(p)
	case "x":
		f := strings.SplitN(body, "_", 2)
		v.tag, v.s = f[0], f[1]
	}
	return v
}

func parseRawUpd(s string) gUpd {
	f := strings.Split(s, "#")
	d, _ := strconv.Atoi(f[2])
	return gUpd{path: parseRawPath(f[0]), val: parseRawVal(f[1]), dup: uint32(d)}
}

// parseNotiToken rebuilds the abstract notification from the raw fields of the op-line token.
func parseNotiToken(tok string) gNoti {
	f := strings.Split(tok, "|")
	var n gNoti
	n.ts, _ = strconv.ParseInt(f[0], 10, 64)
	n.prefix = parseRawPath(decStr(f[4]))
	n.atomic = f[5] == "A"
	if f[6] != "-" {
		for _, u := range strings.Split(f[6], ";") {
			uf := strings.Split(u, ":")
			u := parseRawUpd(decStr(uf[3]))
			u.val = parseValToken(uf[2]) // the token keeps the exact float bits
			n.upd = append(n.upd, u)
		}
	}
	if f[7] != "-" {
		for _, d := range strings.Split(f[7], ";") {
			df := strings.Split(d, ":")
			n.del = append(n.del, parseRawPath(decStr(df[2])))
		}
	}
	return n
}

// ---- building the real protobuf objects ----

// pbPool shares objects between notifications the way a careless caller does:
// equal prefixes are one *pb.Path object whose Elem slice has spare capacity.
type pbPool struct {
	prefixes map[string]*pb.Path
}

func newPool() *pbPool { return &pbPool{prefixes: map[string]*pb.Path{}} }

func (p gPath) proto() *pb.Path {
	if p.isNil {
		return nil
	}
	out := &pb.Path{Origin: p.origin, Target: p.target}
	if len(p.elem) > 0 {
		out.Elem = make([]*pb.PathElem, 0, len(p.elem)+4) // spare capacity on purpose
		for _, e := range p.elem {
			pe := &pb.PathElem{Name: e.name}
			if len(e.keys) > 0 {
				pe.Key = map[string]string{}
				for _, kv := range e.keys {
					pe.Key[kv[0]] = kv[1]
				}
			}
			out.Elem = append(out.Elem, pe)
		}
	}
	if len(p.element) > 0 {
		out.Element = make([]string, 0, len(p.element)+4)
		out.Element = append(out.Element, p.element...)
	}
	return out
}

func (pool *pbPool) prefix(p gPath) *pb.Path {
	if p.isNil {
		return nil
	}
	if pool == nil {
		return p.proto()
	}
	k := p.raw()
	if x, ok := pool.prefixes[k]; ok {
		return x
	}
	x := p.proto()
	pool.prefixes[k] = x
	return x
}

func (v gVal) proto() *pb.TypedValue {
	switch v.kind {
	case "absent":
		return nil
	case "unset":
		return &pb.TypedValue{}
	case "s":
		return &pb.TypedValue{Value: &pb.TypedValue_StringVal{StringVal: v.s}}
	case "i":
		return &pb.TypedValue{Value: &pb.TypedValue_IntVal{IntVal: v.i}}
	case "u":
		return &pb.TypedValue{Value: &pb.TypedValue_UintVal{UintVal: v.u}}
	case "b":
		return &pb.TypedValue{Value: &pb.TypedValue_BoolVal{BoolVal: v.b}}
	case "y":
		b, _ := hex.DecodeString(v.s)
		return &pb.TypedValue{Value: &pb.TypedValue_BytesVal{BytesVal: b}}
	case "d":
		return &pb.TypedValue{Value: &pb.TypedValue_DoubleVal{DoubleVal: math.Float64frombits(v.bits)}}
	case "f":
		return &pb.TypedValue{Value: &pb.TypedValue_FloatVal{FloatVal: math.Float32frombits(uint32(v.bits))}}
	case "m":
		return &pb.TypedValue{Value: &pb.TypedValue_DecimalVal{DecimalVal: &pb.Decimal64{Digits: v.i, Precision: v.prec}}}
	case "l":
		sa := &pb.ScalarArray{}
		for _, e := range v.list {
			sa.Element = append(sa.Element, e.proto())
		}
		return &pb.TypedValue{Value: &pb.TypedValue_LeaflistVal{LeaflistVal: sa}}
	case "x":
		b, _ := hex.DecodeString(v.s)
		switch v.tag {
		case "json":
			return &pb.TypedValue{Value: &pb.TypedValue_JsonVal{JsonVal: b}}
		case "jsonietf":
			return &pb.TypedValue{Value: &pb.TypedValue_JsonIetfVal{JsonIetfVal: b}}
		case "ascii":
			return &pb.TypedValue{Value: &pb.TypedValue_AsciiVal{AsciiVal: string(b)}}
		default:
			return &pb.TypedValue{Value: &pb.TypedValue_ProtoBytes{ProtoBytes: b}}
		}
	}
	return nil
}

func (n gNoti) proto(pool *pbPool) *pb.Notification {
	out := &pb.Notification{Timestamp: n.ts, Prefix: pool.prefix(n.prefix), Atomic: n.atomic}
	for _, u := range n.upd {
		out.Update = append(out.Update, &pb.Update{Path: u.path.proto(), Val: u.val.proto(), Duplicates: u.dup})
	}
	for _, d := range n.del {
		out.Delete = append(out.Delete, d.proto())
	}
	return out
}

// ---- from real protobuf objects back to abstract (for rendering observations) ----

func fromPath(p *pb.Path) gPath {
	if p == nil {
		return gPath{isNil: true}
	}
	g := gPath{origin: p.GetOrigin(), target: p.GetTarget(), element: append([]string(nil), p.GetElement()...)}
	for _, e := range p.GetElem() {
		ge := gElem{name: e.GetName()}
		for k, v := range e.GetKey() {
			ge.keys = append(ge.keys, [2]string{k, v})
		}
		sort.Slice(ge.keys, func(i, j int) bool { return ge.keys[i][0] < ge.keys[j][0] })
		g.elem = append(g.elem, ge)
	}
	return g
}

func fromVal(v *pb.TypedValue) gVal {
	if v == nil {
		return gVal{kind: "absent"}
	}
	switch x := v.GetValue().(type) {
	case nil:
		return gVal{kind: "unset"}
	case *pb.TypedValue_StringVal:
		return gVal{kind: "s", s: x.StringVal}
	case *pb.TypedValue_IntVal:
		return gVal{kind: "i", i: x.IntVal}
	case *pb.TypedValue_UintVal:
		return gVal{kind: "u", u: x.UintVal}
	case *pb.TypedValue_BoolVal:
		return gVal{kind: "b", b: x.BoolVal}
	case *pb.TypedValue_BytesVal:
		return gVal{kind: "y", s: hex.EncodeToString(x.BytesVal)}
	case *pb.TypedValue_DoubleVal:
		return gVal{kind: "d", bits: math.Float64bits(x.DoubleVal)}
	case *pb.TypedValue_FloatVal:
		return gVal{kind: "f", bits: uint64(math.Float32bits(x.FloatVal))}
	case *pb.TypedValue_DecimalVal:
		return gVal{kind: "m", i: x.DecimalVal.GetDigits(), prec: x.DecimalVal.GetPrecision()}
	case *pb.TypedValue_LeaflistVal:
		g := gVal{kind: "l"}
		for _, e := range x.LeaflistVal.GetElement() {
			g.list = append(g.list, fromVal(e))
		}
		return g
	case *pb.TypedValue_JsonVal:
		return gVal{kind: "x", tag: "json", s: hex.EncodeToString(x.JsonVal)}
	case *pb.TypedValue_JsonIetfVal:
		return gVal{kind: "x", tag: "jsonietf", s: hex.EncodeToString(x.JsonIetfVal)}
	case *pb.TypedValue_AsciiVal:
		return gVal{kind: "x", tag: "ascii", s: hex.EncodeToString([]byte(x.AsciiVal))}
	case *pb.TypedValue_ProtoBytes:
		return gVal{kind: "x", tag: "protobytes", s: hex.EncodeToString(x.ProtoBytes)}
	}
	return gVal{kind: "x", tag: "unknown", s: ""}
}

func fromNoti(n *pb.Notification) gNoti {
	g := gNoti{ts: n.GetTimestamp(), prefix: fromPath(n.GetPrefix()), atomic: n.GetAtomic()}
	for _, u := range n.GetUpdate() {
		g.upd = append(g.upd, gUpd{path: fromPath(u.GetPath()), val: fromVal(u.GetVal()), dup: u.GetDuplicates()})
	}
	for _, d := range n.GetDelete() {
		g.del = append(g.del, fromPath(d))
	}
	return g
}

// subscriber-side index of prefix+path: [target] [origin] prefix-elems path-elems
func subIndexOf(prefix, p gPath) []string {
	var out []string
	if prefix.target != "" {
		out = append(out, prefix.target)
	}
	if prefix.origin != "" {
		out = append(out, prefix.origin)
	}
	out = append(out, prefix.elems()...)
	return append(out, p.elems()...)
}

func fnv32(s string) uint32 {
	h := uint32(2166136261)
	for i := 0; i < len(s); i++ {
		h ^= uint32(s[i])
		h *= 16777619
	}
	return h
}

// renderStored mirrors Driver/CA.lean renderStored.
func renderStored(g gNoti) string {
	var raws []string
	for _, u := range g.upd {
		raws = append(raws, u.raw())
	}
	v := "absent"
	if g.atomic {
		v = fmt.Sprintf("A%d", len(g.upd))
	} else if len(g.upd) > 0 {
		v = g.upd[0].val.token()
	}
	return fmt.Sprintf("@%d=%s#%d", g.ts, v, fnv32(g.prefix.raw()+"|"+strings.Join(raws, "|")))
}

// ---- generators of abstract messages ----

var genNames = []string{"a", "b", "c", "d"}

func genElemName(r *rand.Rand) string {
	if r.Intn(25) == 0 {
		return []string{"é", "x/y", "", "*", "meta"}[r.Intn(5)]
	}
	if r.Intn(12) == 0 {
		// names one of which is a textual prefix of another (eth1 / eth10): distinct elements
		return []string{"a1", "ab", "b1"}[r.Intn(3)]
	}
	return genNames[r.Intn(len(genNames))]
}

func genVal(r *rand.Rand) gVal {
	switch x := r.Intn(40); {
	case x < 22:
		return gVal{kind: "i", i: int64(r.Intn(4))}
	case x < 26:
		return gVal{kind: "s", s: []string{"x", "y", ""}[r.Intn(3)]}
	case x < 28:
		return gVal{kind: "u", u: uint64(r.Intn(3))}
	case x < 30:
		return gVal{kind: "b", b: r.Intn(2) == 0}
	case x < 32:
		return gVal{kind: "d", bits: math.Float64bits([]float64{0, 1.5, -2, math.Copysign(0, -1)}[r.Intn(4)])}
	case x < 33:
		return gVal{kind: "f", bits: uint64(math.Float32bits([]float32{0, 1.5}[r.Intn(2)]))}
	case x < 34:
		return gVal{kind: "m", i: int64(r.Intn(3)), prec: uint32(r.Intn(2))}
	case x < 35:
		return gVal{kind: "y", s: []string{"", "00", "ff01"}[r.Intn(3)]}
	case x < 36:
		n := r.Intn(3)
		v := gVal{kind: "l"}
		for i := 0; i < n; i++ {
			v.list = append(v.list, gVal{kind: "i", i: int64(r.Intn(2))})
		}
		return v
	case x < 37:
		return gVal{kind: "x", tag: []string{"json", "jsonietf", "ascii", "protobytes"}[r.Intn(4)], s: "7b7d"}
	case x < 38:
		return gVal{kind: "unset"}
	default:
		return gVal{kind: "absent"}
	}
}
