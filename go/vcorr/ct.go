package main

import (
	"fmt"
	"math/rand"
	"strconv"

	"github.com/openconfig/gnmi/ctree"
)

// ct: ctree.Tree driven through its whole exported API from one goroutine.
type ctComp struct {
	t *ctree.Tree
}

func init() { components["ct"] = &ctComp{} }

var ctAlphabet = []string{"a", "b", "*", "", "é", "x/y", "c"}

func ctPath(r *rand.Rand, maxLen int) []string {
	n := r.Intn(maxLen + 1)
	p := make([]string, n)
	for i := range p {
		// favour a, b, * so that paths collide
		switch x := r.Intn(10); {
		case x < 4:
			p[i] = "a"
		case x < 6:
			p[i] = "b"
		case x < 8:
			p[i] = "*"
		default:
			p[i] = ctAlphabet[r.Intn(len(ctAlphabet))]
		}
	}
	return p
}

// literal path (no glob) for adds most of the time
func ctLitPath(r *rand.Rand, maxLen int) []string {
	p := ctPath(r, maxLen)
	if r.Intn(8) != 0 {
		for i := range p {
			if p[i] == "*" {
				p[i] = "c"
			}
		}
	}
	return p
}

func (c *ctComp) Gen(r *rand.Rand, tier string) []string {
	n := 5 + r.Intn(36)
	seq := []string{"new"}
	var added [][]string
	pick := func() []string {
		if len(added) > 0 && r.Intn(3) != 0 {
			p := cloneStrs(added[r.Intn(len(added))])
			switch r.Intn(6) {
			case 0: // truncate
				if len(p) > 0 {
					p = p[:r.Intn(len(p))]
				}
			case 1: // extend
				p = append(p, ctPath(r, 2)...)
			case 2: // glob one element
				if len(p) > 0 {
					p[r.Intn(len(p))] = "*"
				}
			case 3: // glob beyond the leaf
				for k := 1 + r.Intn(2); k > 0; k-- {
					p = append(p, "*")
				}
			}
			return p
		}
		return ctPath(r, 4)
	}
	if r.Intn(4) == 0 {
		// sibling leaves (and sibling subtrees) below a parent 3..7 elements deep: a walk hands its visitor one
		// path per leaf, and visitors keep them (client.CacheClient.Leaves does) — the slices must not share
		// a backing array (seeded change c09_seed8 dropped the per-child copy: append reuses spare capacity
		// exactly at these depths)
		base := []string{"t"}
		for d := 2 + r.Intn(5); d > 0; d-- {
			base = append(base, ctAlphabet[r.Intn(len(ctAlphabet))])
		}
		for k := 2 + r.Intn(3); k > 0; k-- {
			q := append(cloneStrs(base), fmt.Sprintf("s%d", k))
			if r.Intn(3) == 0 {
				q = append(q, "x", fmt.Sprintf("y%d", r.Intn(2)))
			}
			added = append(added, q)
			seq = append(seq, fmt.Sprintf("add %s %d", encPath(q), 1+r.Intn(9)))
		}
	}
	for i := 0; i < n; i++ {
		switch x := r.Intn(100); {
		case x < 34:
			p := ctLitPath(r, 4)
			if r.Intn(4) == 0 {
				p = pick()
			}
			added = append(added, p)
			seq = append(seq, fmt.Sprintf("add %s %d", encPath(p), 1+r.Intn(9)))
		case x < 44:
			seq = append(seq, "del "+encPath(pick()))
		case x < 50:
			seq = append(seq, fmt.Sprintf("delif %s %d", encPath(pick()), r.Intn(11)))
		case x < 54:
			seq = append(seq, fmt.Sprintf("wdel %s %d", encPath(pick()), r.Intn(11)))
		case x < 66:
			seq = append(seq, "query "+encPath(pick()))
		case x < 74:
			seq = append(seq, "get "+encPath(pick()))
		case x < 77:
			seq = append(seq, "walk")
		case x < 82:
			seq = append(seq, "walks")
		case x < 86:
			seq = append(seq, "children "+encPath(pick()))
		case x < 89:
			seq = append(seq, "isbranch "+encPath(pick()))
		case x < 95:
			seq = append(seq, fmt.Sprintf("upd %s %d", encPath(pick()), 1+r.Intn(9)))
		default:
			seq = append(seq, "val "+encPath(pick()))
		}
	}
	seq = append(seq, "walks")
	return seq
}

func (c *ctComp) Exhaustive(tier string) [][]string {
	alpha := []string{"a", "*"}
	depth := 3
	if tier == "thorough" {
		alpha = []string{"a", "b", "*"}
	}
	var paths [][]string
	paths = append(paths, nil)
	for _, x := range alpha {
		paths = append(paths, []string{x})
		for _, y := range alpha {
			paths = append(paths, []string{x, y})
		}
	}
	// one level deeper with globs only, to reach "past the leaf"
	paths = append(paths, []string{"a", "*", "*"}, []string{"*", "*", "*"})
	var ops []string
	for _, p := range paths {
		ops = append(ops, "add "+encPath(p)+" 1", "del "+encPath(p), "query "+encPath(p))
	}
	ops = append(ops, "delif . 1")
	var out [][]string
	var rec func(prefix []string, d int)
	rec = func(prefix []string, d int) {
		if d == 0 {
			seq := append([]string{"new"}, prefix...)
			seq = append(seq, "walks")
			out = append(out, seq)
			return
		}
		for _, o := range ops {
			rec(append(cloneStrs(prefix), o), d-1)
		}
	}
	for d := 1; d <= depth; d++ {
		rec(nil, d)
	}
	return out
}

func (c *ctComp) Run(args []string) string {
	if len(args) == 0 {
		return "bad-op"
	}
	if args[0] == "new" {
		c.t = &ctree.Tree{}
		return "ok"
	}
	t := c.t
	kv := func(p []string, v interface{}) string { return fmt.Sprintf("%s=%v", encPath(p), v) }
	switch args[0] {
	case "add":
		v, _ := strconv.Atoi(args[2])
		if err := t.Add(decPath(args[1]), v); err != nil {
			return "err"
		}
		return "ok"
	case "get":
		n := t.Get(decPath(args[1]))
		switch {
		case n == nil:
			return "none"
		case n.IsBranch():
			return "branch"
		case n.Value() == nil:
			return "nil"
		}
		// GetLeaf / GetLeafValue must agree with Get
		lv := t.GetLeafValue(decPath(args[1]))
		l := t.GetLeaf(decPath(args[1]))
		if lv != n.Value() || l.Value() != n.Value() {
			return "inconsistent-get"
		}
		return fmt.Sprintf("leaf:%v", n.Value())
	case "query":
		var out []string
		t.Query(decPath(args[1]), func(p []string, l *ctree.Leaf, v interface{}) error {
			out = append(out, kv(p, v))
			return nil
		})
		return sortedBracket(out)
	case "walk", "walks":
		// the visitor keeps the path slices it is handed (as client.CacheClient.Leaves and the package's own
		// tests do) and they are rendered only after the walk has returned: what was reported for an earlier
		// leaf must still be that leaf's path then
		var paths [][]string
		var vals []interface{}
		var during []string
		f := func(p []string, l *ctree.Leaf, v interface{}) error {
			paths, vals = append(paths, p), append(vals, v)
			during = append(during, kv(p, v))
			return nil
		}
		if args[0] == "walk" {
			t.Walk(f)
		} else {
			t.WalkSorted(f)
		}
		var out []string
		for i, p := range paths {
			out = append(out, kv(p, vals[i]))
		}
		for i := range out {
			if out[i] != during[i] {
				return "retained-path-changed:" + during[i] + "->" + out[i]
			}
		}
		if args[0] == "walk" {
			return sortedBracket(out)
		}
		return bracket(out)
	case "del":
		var out []string
		for _, p := range t.Delete(decPath(args[1])) {
			out = append(out, encPath(p))
		}
		return sortedBracket(out)
	case "delif":
		n, _ := strconv.Atoi(args[2])
		var out []string
		for _, p := range t.DeleteConditional(decPath(args[1]), func(v interface{}) bool { return v.(int) < n }) {
			out = append(out, encPath(p))
		}
		return sortedBracket(out)
	case "wdel":
		n, _ := strconv.Atoi(args[2])
		var out []string
		t.WalkDeleted(decPath(args[1]), func(v interface{}) bool { return v.(int) < n }, func(v interface{}) {
			out = append(out, fmt.Sprint(v))
		})
		return sortedBracket(out)
	case "children":
		var out []string
		ch := t.Get(decPath(args[1])).Children()
		for k := range ch {
			out = append(out, encStr(k))
		}
		// the mapping Children hands out is the caller's own (a snapshot): filtering or editing it must not
		// change what the tree stores (seeded changes c09_seed10 / c10_seed8 returned the node's own map)
		for k := range ch {
			delete(ch, k)
		}
		if ch != nil {
			ch["scribbled"] = nil
		}
		return sortedBracket(out)
	case "isbranch":
		return strconv.FormatBool(t.Get(decPath(args[1])).IsBranch())
	case "upd":
		v, _ := strconv.Atoi(args[2])
		n := t.Get(decPath(args[1]))
		if n == nil || n.IsBranch() || n.Value() == nil {
			return "err"
		}
		t.GetLeaf(decPath(args[1])).Update(v)
		return "ok"
	case "val":
		v := t.GetLeafValue(decPath(args[1]))
		if v == nil {
			return "nil"
		}
		return fmt.Sprint(v)
	}
	return "bad-op"
}
