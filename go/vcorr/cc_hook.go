package main

// The `ctree.add.upgrade` schedule point of /repo/ctree (build tag verif, ctree/verif_on.go).

import "github.com/openconfig/gnmi/ctree"

func ccInstallHook(h func(string)) {
	if ctree.VerifHook == nil {
		ctree.VerifHook = h
	}
}
