package main

import (
	"context"
	"errors"
	"flag"
	"fmt"
	"io"
	"math"
	"math/rand"
	"os"
	"strconv"
	"strings"

	"google.golang.org/grpc/metadata"
	"google.golang.org/protobuf/proto"

	gpb "github.com/openconfig/gnmi/proto/gnmi"
	fgnmi "github.com/openconfig/gnmi/testing/fake/gnmi"
	fpb "github.com/openconfig/gnmi/testing/fake/proto"
	"github.com/openconfig/gnmi/testing/fake/queue"
)

// fq: the synthetic target's update generator (testing/fake/queue.UpdateQueue) and the fake
// agent's use of it (testing/fake/gnmi.Client: reset + valToResp).  Property C20.
//
// Line protocol (mirrored by lean/Driver/FQ.lean):
//
//	new <look> <sync 0|1> <seed>:<draws> <value>*      -> ok | viol:<monitor>@<step>
//	next                                                -> <kind> <path> <ts> <val> | nil | err
//	agent <limit>                                       -> [<resp>,...]
//
// <draws> are the raw Int63() results of rand.NewSource(seed), which the queue's own
// rand.New(rand.NewSource(seed)) is going to consume; the model runs math/rand's algorithms on
// top of them.  `next` steps TWO generators built from the same configuration and seed and
// reports a mismatch between them as `nondet:`.  The answer to `new` is the verdict of the
// model-independent property monitors (ordering, delta bounds, range, repeat, sync position,
// determinism, error-only-on-invalid-configuration) evaluated on a further pair of generators
// (and a fake-agent client) run for <look> steps; the model always answers `ok`.
type fqComp struct {
	a, b *queue.UpdateQueue
	cfg  []*fqV
	seed int64
	sync bool
	maxEmitted int64 // greatest timestamp handed out by `next` so far
	sawErr     bool  // a `next` of this sequence returned an error (an invalid configuration: no claim afterwards)
}

func init() { components["fq"] = &fqComp{} }

// ---------------------------------------------------------------- configuration values

type fqV struct {
	kind   string // int uint dbl str sl bool sync del unset
	path   []string
	hasTS  bool
	ts     int64
	dmin   int64
	dmax   int64
	repeat int32
	seed   int64
	dist   byte // 'c' constant, 'r' range, 'l' list

	iv    int64
	uv    uint64
	fv    float64
	sv    string
	slv   []string
	bv    bool
	syncN uint64

	imin, imax   int64 // int range
	umin, umax   uint64
	idmin, idmax int64 // int / uint deltas
	fmin, fmax   float64
	fdmin, fdmax float64
	rnd          bool
	iopts        []int64
	uopts        []uint64
	fopts        []float64
	sopts        []string
	bopts        []bool
}

func fhex(f float64) string { return fmt.Sprintf("%016x", math.Float64bits(f)) }

func unfhex(s string) float64 {
	u, _ := strconv.ParseUint(s, 16, 64)
	return math.Float64frombits(u)
}

func b01(b bool) string {
	if b {
		return "1"
	}
	return "0"
}

func rawDraws(seed int64, n int) string {
	src := rand.NewSource(seed)
	var sb strings.Builder
	for i := 0; i < n; i++ {
		if i > 0 {
			sb.WriteByte(',')
		}
		sb.WriteString(strconv.FormatInt(src.Int63(), 16))
	}
	return sb.String()
}

func (v *fqV) payload() string {
	var val, dist string
	list := func(opts []string) string {
		return "l," + b01(v.rnd) + strings.Repeat(",", minInt(1, len(opts))) + strings.Join(opts, ",")
	}
	switch v.kind {
	case "int":
		val = strconv.FormatInt(v.iv, 10)
		switch v.dist {
		case 'r':
			dist = fmt.Sprintf("r,%d,%d,%d,%d", v.imin, v.imax, v.idmin, v.idmax)
		case 'l':
			var o []string
			for _, x := range v.iopts {
				o = append(o, strconv.FormatInt(x, 10))
			}
			dist = list(o)
		}
	case "uint":
		val = strconv.FormatUint(v.uv, 10)
		switch v.dist {
		case 'r':
			dist = fmt.Sprintf("r,%d,%d,%d,%d", v.umin, v.umax, v.idmin, v.idmax)
		case 'l':
			var o []string
			for _, x := range v.uopts {
				o = append(o, strconv.FormatUint(x, 10))
			}
			dist = list(o)
		}
	case "dbl":
		val = fhex(v.fv)
		switch v.dist {
		case 'r':
			dist = "r," + fhex(v.fmin) + "," + fhex(v.fmax) + "," + fhex(v.fdmin) + "," + fhex(v.fdmax)
		case 'l':
			var o []string
			for _, x := range v.fopts {
				o = append(o, fhex(x))
			}
			dist = list(o)
		}
	case "str", "sl":
		if v.kind == "str" {
			val = encStr(v.sv)
		} else {
			var o []string
			for _, x := range v.slv {
				o = append(o, encStr(x))
			}
			val = strings.Join(o, ",")
		}
		if v.dist == 'l' {
			var o []string
			for _, x := range v.sopts {
				o = append(o, encStr(x))
			}
			dist = list(o)
		}
	case "bool":
		val = b01(v.bv)
		if v.dist == 'l' {
			var o []string
			for _, x := range v.bopts {
				o = append(o, b01(x))
			}
			dist = list(o)
		}
	case "sync":
		return strconv.FormatUint(v.syncN, 10)
	default:
		return "-"
	}
	if dist == "" {
		dist = "c"
	}
	return val + ";" + dist
}

func minInt(a, b int) int {
	if a < b {
		return a
	}
	return b
}

// token renders the value for the op line; ndraws raw draws of its own PRNG are attached when
// it has a seed.
func (v *fqV) token(ndraws int) string {
	ts := "-"
	if v.hasTS {
		ts = fmt.Sprintf("%d,%d,%d", v.ts, v.dmin, v.dmax)
	}
	sd := "0:"
	if v.seed != 0 {
		sd = fmt.Sprintf("%d:%s", v.seed, rawDraws(v.seed, ndraws))
	}
	return strings.Join([]string{v.kind, encPath(v.path), ts, strconv.Itoa(int(v.repeat)), sd, v.payload()}, "|")
}

func fqParseValue(tok string) *fqV {
	f := strings.Split(tok, "|")
	if len(f) != 6 {
		return &fqV{kind: "unset"}
	}
	v := &fqV{kind: f[0], path: decPath(f[1]), dist: 'c'}
	if f[2] != "-" {
		t := strings.Split(f[2], ",")
		if len(t) == 3 {
			v.hasTS = true
			v.ts, _ = strconv.ParseInt(t[0], 10, 64)
			v.dmin, _ = strconv.ParseInt(t[1], 10, 64)
			v.dmax, _ = strconv.ParseInt(t[2], 10, 64)
		}
	}
	rep, _ := strconv.ParseInt(f[3], 10, 32)
	v.repeat = int32(rep)
	v.seed, _ = strconv.ParseInt(strings.SplitN(f[4], ":", 2)[0], 10, 64)
	parts := strings.SplitN(f[5], ";", 2)
	val := parts[0]
	var d []string
	if len(parts) == 2 {
		for _, x := range strings.Split(parts[1], ",") {
			if x != "" {
				d = append(d, x)
			}
		}
	}
	var opts []string
	if len(d) >= 2 && d[0] == "l" {
		v.dist = 'l'
		v.rnd = d[1] == "1"
		opts = d[2:]
	}
	isRange := len(d) == 5 && d[0] == "r"
	pi := func(s string) int64 { x, _ := strconv.ParseInt(s, 10, 64); return x }
	pu := func(s string) uint64 { x, _ := strconv.ParseUint(s, 10, 64); return x }
	switch v.kind {
	case "int":
		v.iv = pi(val)
		if isRange {
			v.dist = 'r'
			v.imin, v.imax, v.idmin, v.idmax = pi(d[1]), pi(d[2]), pi(d[3]), pi(d[4])
		}
		for _, o := range opts {
			v.iopts = append(v.iopts, pi(o))
		}
	case "uint":
		v.uv = pu(val)
		if isRange {
			v.dist = 'r'
			v.umin, v.umax, v.idmin, v.idmax = pu(d[1]), pu(d[2]), pi(d[3]), pi(d[4])
		}
		for _, o := range opts {
			v.uopts = append(v.uopts, pu(o))
		}
	case "dbl":
		v.fv = unfhex(val)
		if isRange {
			v.dist = 'r'
			v.fmin, v.fmax, v.fdmin, v.fdmax = unfhex(d[1]), unfhex(d[2]), unfhex(d[3]), unfhex(d[4])
		}
		for _, o := range opts {
			v.fopts = append(v.fopts, unfhex(o))
		}
	case "str":
		v.sv = decStr(val)
		for _, o := range opts {
			v.sopts = append(v.sopts, decStr(o))
		}
	case "sl":
		for _, x := range strings.Split(val, ",") {
			if x != "" {
				v.slv = append(v.slv, decStr(x))
			}
		}
		for _, o := range opts {
			v.sopts = append(v.sopts, decStr(o))
		}
	case "bool":
		v.bv = val == "1"
		for _, o := range opts {
			v.bopts = append(v.bopts, o == "1")
		}
	case "sync":
		v.syncN = pu(f[5])
	}
	return v
}

// proto builds the repository's own configuration message.
func (v *fqV) proto() *fpb.Value {
	p := &fpb.Value{Path: cloneStrs(v.path), Repeat: v.repeat, Seed: v.seed}
	if v.hasTS {
		p.Timestamp = &fpb.Timestamp{Timestamp: v.ts, DeltaMin: v.dmin, DeltaMax: v.dmax}
	}
	switch v.kind {
	case "int":
		m := &fpb.IntValue{Value: v.iv}
		switch v.dist {
		case 'r':
			m.Distribution = &fpb.IntValue_Range{Range: &fpb.IntRange{Minimum: v.imin, Maximum: v.imax, DeltaMin: v.idmin, DeltaMax: v.idmax}}
		case 'l':
			m.Distribution = &fpb.IntValue_List{List: &fpb.IntList{Options: append([]int64(nil), v.iopts...), Random: v.rnd}}
		}
		p.Value = &fpb.Value_IntValue{IntValue: m}
	case "uint":
		m := &fpb.UintValue{Value: v.uv}
		switch v.dist {
		case 'r':
			m.Distribution = &fpb.UintValue_Range{Range: &fpb.UintRange{Minimum: v.umin, Maximum: v.umax, DeltaMin: v.idmin, DeltaMax: v.idmax}}
		case 'l':
			m.Distribution = &fpb.UintValue_List{List: &fpb.UintList{Options: append([]uint64(nil), v.uopts...), Random: v.rnd}}
		}
		p.Value = &fpb.Value_UintValue{UintValue: m}
	case "dbl":
		m := &fpb.DoubleValue{Value: v.fv}
		switch v.dist {
		case 'r':
			m.Distribution = &fpb.DoubleValue_Range{Range: &fpb.DoubleRange{Minimum: v.fmin, Maximum: v.fmax, DeltaMin: v.fdmin, DeltaMax: v.fdmax}}
		case 'l':
			m.Distribution = &fpb.DoubleValue_List{List: &fpb.DoubleList{Options: append([]float64(nil), v.fopts...), Random: v.rnd}}
		}
		p.Value = &fpb.Value_DoubleValue{DoubleValue: m}
	case "str":
		m := &fpb.StringValue{Value: v.sv}
		if v.dist == 'l' {
			m.Distribution = &fpb.StringValue_List{List: &fpb.StringList{Options: cloneStrs(v.sopts), Random: v.rnd}}
		}
		p.Value = &fpb.Value_StringValue{StringValue: m}
	case "sl":
		m := &fpb.StringListValue{Value: cloneStrs(v.slv)}
		if v.dist == 'l' {
			m.Distribution = &fpb.StringListValue_List{List: &fpb.StringList{Options: cloneStrs(v.sopts), Random: v.rnd}}
		}
		p.Value = &fpb.Value_StringListValue{StringListValue: m}
	case "bool":
		m := &fpb.BoolValue{Value: v.bv}
		if v.dist == 'l' {
			m.Distribution = &fpb.BoolValue_List{List: &fpb.BoolList{Options: append([]bool(nil), v.bopts...), Random: v.rnd}}
		}
		p.Value = &fpb.Value_BoolValue{BoolValue: m}
	case "sync":
		p.Value = &fpb.Value_Sync{Sync: v.syncN}
	case "del":
		p.Value = &fpb.Value_Delete{Delete: &fpb.DeleteValue{}}
	}
	return p
}

func fqProtos(cfg []*fqV) []*fpb.Value {
	out := make([]*fpb.Value, len(cfg))
	for i, v := range cfg {
		out[i] = v.proto()
	}
	return out
}

// fqQueue builds a generator the way Client.reset does (the real reset is exercised by the
// `agent` operation and by the agent monitor).
func fqQueue(seed int64, vals []*fpb.Value, sync bool) *queue.UpdateQueue {
	q := queue.New(false, seed, vals)
	if sync {
		q.Add(&fpb.Value{
			Timestamp: &fpb.Timestamp{Timestamp: q.Latest()},
			Repeat:    1,
			Value:     &fpb.Value_Sync{Sync: 1},
		})
	}
	return q
}

// ---------------------------------------------------------------- observations

type fqEm struct {
	tag  string // "val", "nil", "err", "panic"
	v    *fpb.Value
	kind string
	path string
	ts   int64
	val  string
}

func fqKindVal(v *fpb.Value) (string, string) {
	switch x := v.GetValue().(type) {
	case *fpb.Value_IntValue:
		return "int", strconv.FormatInt(x.IntValue.GetValue(), 10)
	case *fpb.Value_DoubleValue:
		return "dbl", fhex(x.DoubleValue.GetValue())
	case *fpb.Value_StringValue:
		return "str", encStr(x.StringValue.GetValue())
	case *fpb.Value_StringListValue:
		var o []string
		for _, s := range x.StringListValue.GetValue() {
			o = append(o, encStr(s))
		}
		return "sl", bracket(o)
	case *fpb.Value_BoolValue:
		return "bool", strconv.FormatBool(x.BoolValue.GetValue())
	case *fpb.Value_UintValue:
		return "uint", strconv.FormatUint(x.UintValue.GetValue(), 10)
	case *fpb.Value_Sync:
		return "sync", strconv.FormatUint(x.Sync, 10)
	case *fpb.Value_Delete:
		return "del", "-"
	}
	return "unset", "-"
}

func fqNext(q *queue.UpdateQueue) (em fqEm) {
	defer func() {
		if r := recover(); r != nil {
			em = fqEm{tag: "panic"}
		}
	}()
	x, err := q.Next()
	if err != nil {
		return fqEm{tag: "err"}
	}
	if x == nil {
		return fqEm{tag: "nil"}
	}
	v, ok := x.(*fpb.Value)
	if !ok || v == nil {
		return fqEm{tag: "nil"}
	}
	k, val := fqKindVal(v)
	return fqEm{tag: "val", v: v, kind: k, path: encPath(v.Path), ts: v.GetTimestamp().GetTimestamp(), val: val}
}

func (e fqEm) String() string {
	if e.tag != "val" {
		return e.tag
	}
	ts := "nil"
	if e.v.Timestamp != nil {
		ts = strconv.FormatInt(e.ts, 10)
	}
	return e.kind + " " + e.path + " " + ts + " " + e.val
}

// ---------------------------------------------------------------- the fake agent, in process

type fqStream struct {
	limit int
	out   []*gpb.SubscribeResponse
	first bool
	done  chan struct{}
}

func (s *fqStream) Send(r *gpb.SubscribeResponse) error {
	if len(s.out) >= s.limit {
		return errors.New("limit")
	}
	s.out = append(s.out, proto.Clone(r).(*gpb.SubscribeResponse))
	return nil
}

func (s *fqStream) Recv() (*gpb.SubscribeRequest, error) {
	if !s.first {
		s.first = true
		return &gpb.SubscribeRequest{Request: &gpb.SubscribeRequest_Subscribe{Subscribe: &gpb.SubscriptionList{}}}, nil
	}
	<-s.done
	return nil, io.EOF
}
func (s *fqStream) SetHeader(metadata.MD) error  { return nil }
func (s *fqStream) SendHeader(metadata.MD) error { return nil }
func (s *fqStream) SetTrailer(metadata.MD)       {}
func (s *fqStream) Context() context.Context     { return context.Background() }
func (s *fqStream) SendMsg(m any) error          { return nil }
func (s *fqStream) RecvMsg(m any) error          { return nil }

var fqDevNull *os.File

// fqAgent runs a fresh fake-agent client (NewClient + Run: reset, processQueue, valToResp) on
// an in-memory stream and returns the first `limit` responses.
func fqAgent(seed int64, vals []*fpb.Value, sync bool, limit int) []*gpb.SubscribeResponse {
	if fqDevNull == nil {
		flag.Set("logtostderr", "true")
		fqDevNull, _ = os.OpenFile(os.DevNull, os.O_WRONLY, 0)
	}
	// the client logs "end of updates" through glog on every run: keep stderr quiet
	saved := os.Stderr
	if fqDevNull != nil {
		os.Stderr = fqDevNull
	}
	defer func() { os.Stderr = saved }()
	cfg := &fpb.Config{Target: "fq", Seed: seed, Values: vals, DisableSync: !sync}
	c := fgnmi.NewClient(cfg)
	st := &fqStream{limit: limit, done: make(chan struct{})}
	defer close(st.done)
	c.Run(st)
	return st.out
}

func fqTV(tv *gpb.TypedValue) string {
	switch x := tv.GetValue().(type) {
	case *gpb.TypedValue_IntVal:
		return "int:" + strconv.FormatInt(x.IntVal, 10)
	case *gpb.TypedValue_DoubleVal:
		return "dbl:" + fhex(x.DoubleVal)
	case *gpb.TypedValue_StringVal:
		return "str:" + encStr(x.StringVal)
	case *gpb.TypedValue_LeaflistVal:
		var o []string
		for _, e := range x.LeaflistVal.GetElement() {
			s, ok := e.GetValue().(*gpb.TypedValue_StringVal)
			if !ok {
				return "ll:?"
			}
			o = append(o, encStr(s.StringVal))
		}
		return "ll:" + bracket(o)
	case *gpb.TypedValue_BoolVal:
		return "bool:" + strconv.FormatBool(x.BoolVal)
	case *gpb.TypedValue_UintVal:
		return "uint:" + strconv.FormatUint(x.UintVal, 10)
	}
	return "?"
}

func fqResp(r *gpb.SubscribeResponse) string {
	switch x := r.GetResponse().(type) {
	case *gpb.SubscribeResponse_SyncResponse:
		return "s:" + strconv.FormatBool(x.SyncResponse)
	case *gpb.SubscribeResponse_Update:
		n := x.Update
		if n.GetPrefix() != nil || n.GetAtomic() {
			return "?prefix"
		}
		switch {
		case len(n.Update) == 1 && len(n.Delete) == 0:
			u := n.Update[0]
			return "u:" + encPath(u.GetPath().GetElement()) + "@" + strconv.FormatInt(n.Timestamp, 10) + "=" + fqTV(u.GetVal())
		case len(n.Update) == 0 && len(n.Delete) == 1:
			return "d:" + encPath(n.Delete[0].GetElement()) + "@" + strconv.FormatInt(n.Timestamp, 10)
		}
		return "?shape"
	}
	return "?"
}

// ---------------------------------------------------------------- monitors (model independent)

// fqValid restates the configuration defects listed by the updaters' validity checks; a value
// with repeat 1 is never advanced, hence never rejected.
func fqValid(v *fqV) bool {
	if v.repeat == 1 {
		return true
	}
	if v.hasTS && (v.ts < 0 || v.dmin < 0 || v.dmin > v.dmax) {
		return false
	}
	switch v.kind {
	case "unset":
		return false
	case "int":
		switch v.dist {
		case 'r':
			if v.imin > v.imax || v.iv < v.imin || v.iv > v.imax {
				return false
			}
			if (v.idmin != 0 || v.idmax != 0) && v.idmin > v.idmax {
				return false
			}
		case 'l':
			return len(v.iopts) > 0
		}
	case "uint":
		switch v.dist {
		case 'r':
			if v.umin > v.umax || v.uv < v.umin || v.uv > v.umax {
				return false
			}
			if (v.idmin != 0 || v.idmax != 0) && v.idmin > v.idmax {
				return false
			}
		case 'l':
			return len(v.uopts) > 0
		}
	case "dbl":
		switch v.dist {
		case 'r':
			if v.fmin > v.fmax || v.fv < v.fmin || v.fv > v.fmax {
				return false
			}
			if (v.fdmin != 0 || v.fdmax != 0) && v.fdmin > v.fdmax {
				return false
			}
		case 'l':
			return len(v.fopts) > 0
		}
	case "str", "sl":
		if v.dist == 'l' {
			return len(v.sopts) > 0
		}
	case "bool":
		if v.dist == 'l' {
			return len(v.bopts) > 0
		}
	}
	return true
}

func clampI(x, lo, hi int64) int64 {
	if x > hi {
		return hi
	}
	if x < lo {
		return lo
	}
	return x
}

func eqStrs(a, b []string) bool {
	if len(a) != len(b) {
		return false
	}
	for i := range a {
		if a[i] != b[i] {
			return false
		}
	}
	return true
}

func rotated(opts []string, k int) []string {
	n := len(opts)
	out := make([]string, n)
	for i := range opts {
		out[i] = opts[(i+k)%n]
	}
	return out
}

// subMultiset: every element of a occurs in b at least as often
func subMultiset(a, b []string) bool {
	c := map[string]int{}
	for _, x := range b {
		c[x]++
	}
	for _, x := range a {
		c[x]--
		if c[x] < 0 {
			return false
		}
	}
	return true
}

// fqRange checks the k-th emission (k >= 2) of a configured value against its configuration
// and its previous emission.
func fqRange(v *fqV, k int, prev, cur *fpb.Value) string {
	switch v.kind {
	case "int":
		x, p := cur.GetIntValue().GetValue(), prev.GetIntValue().GetValue()
		switch v.dist {
		case 'r':
			if x < v.imin || x > v.imax {
				return "range"
			}
			if v.idmin != 0 || v.idmax != 0 {
				if x < clampI(p+v.idmin, v.imin, v.imax) || x > clampI(p+v.idmax, v.imin, v.imax) {
					return "step"
				}
			}
		case 'l':
			if v.rnd {
				ok := false
				for _, o := range v.iopts {
					ok = ok || o == x
				}
				if !ok {
					return "options"
				}
			} else if x != v.iopts[(k-2)%len(v.iopts)] {
				return "rotation"
			}
		default:
			if x != v.iv {
				return "constant"
			}
		}
	case "uint":
		x, p := cur.GetUintValue().GetValue(), prev.GetUintValue().GetValue()
		switch v.dist {
		case 'r':
			if x < v.umin || x > v.umax {
				return "range"
			}
			if (v.idmin != 0 || v.idmax != 0) && v.umax < 1<<62 {
				lo := clampI(int64(p)+v.idmin, int64(v.umin), int64(v.umax))
				hi := clampI(int64(p)+v.idmax, int64(v.umin), int64(v.umax))
				if int64(x) < lo || int64(x) > hi {
					return "step"
				}
			}
		case 'l':
			if v.rnd {
				ok := false
				for _, o := range v.uopts {
					ok = ok || o == x
				}
				if !ok {
					return "options"
				}
			} else if x != v.uopts[(k-2)%len(v.uopts)] {
				return "rotation"
			}
		default:
			if x != v.uv {
				return "constant"
			}
		}
	case "dbl":
		x := cur.GetDoubleValue().GetValue()
		switch v.dist {
		case 'r':
			if !(x >= v.fmin && x <= v.fmax) {
				return "range"
			}
		case 'l':
			if v.rnd {
				ok := false
				for _, o := range v.fopts {
					ok = ok || math.Float64bits(o) == math.Float64bits(x)
				}
				if !ok {
					return "options"
				}
			} else if math.Float64bits(x) != math.Float64bits(v.fopts[(k-2)%len(v.fopts)]) {
				return "rotation"
			}
		default:
			if math.Float64bits(x) != math.Float64bits(v.fv) {
				return "constant"
			}
		}
	case "str":
		x := cur.GetStringValue().GetValue()
		switch v.dist {
		case 'l':
			if v.rnd {
				if !subMultiset([]string{x}, v.sopts) {
					return "options"
				}
			} else if x != v.sopts[(k-2)%len(v.sopts)] {
				return "rotation"
			}
		default:
			if x != v.sv {
				return "constant"
			}
		}
	case "sl":
		x := cur.GetStringListValue().GetValue()
		switch v.dist {
		case 'l':
			if v.rnd {
				if len(x) >= len(v.sopts) || !subMultiset(x, v.sopts) {
					return "options"
				}
			} else if !eqStrs(x, rotated(v.sopts, (k-1)%len(v.sopts))) {
				return "rotation"
			}
		default:
			if !eqStrs(x, v.slv) {
				return "constant"
			}
		}
	case "bool":
		x := cur.GetBoolValue().GetValue()
		switch v.dist {
		case 'l':
			if v.rnd {
				ok := false
				for _, o := range v.bopts {
					ok = ok || o == x
				}
				if !ok {
					return "options"
				}
			} else if x != v.bopts[(k-2)%len(v.bopts)] {
				return "rotation"
			}
		default:
			if x != v.bv {
				return "constant"
			}
		}
	}
	return ""
}

// fqMonitor evaluates the property's predicates directly on one emission sequence.
func fqMonitor(cfg []*fqV, sync bool, seq []fqEm) string {
	byPath := map[string]*fqV{}
	allValid := true
	for _, v := range cfg {
		byPath[encPath(v.path)] = v
		allValid = allValid && fqValid(v)
	}
	count := map[string]int{}
	last := map[string]*fpb.Value{}
	syncs := 0
	var prevTS int64
	havePrev := false
	for i, e := range seq {
		at := fmt.Sprintf("@%d", i)
		switch e.tag {
		case "panic":
			return "viol:panic" + at
		case "err":
			if allValid {
				return "viol:error-on-valid-config" + at
			}
			return "ok" // nothing is claimed after the generator reported a configuration error
		case "nil":
			// exhausted: every configured value was emitted exactly `repeat` times
			for _, v := range cfg {
				if v.repeat < 1 {
					return "viol:unbounded-value-dropped" + at
				}
				if count[encPath(v.path)] != int(v.repeat) {
					return "viol:repeat-short" + at
				}
			}
			if sync && syncs != 1 {
				return "viol:sync-missing" + at
			}
			for _, e2 := range seq[i:] {
				if e2.tag != "nil" {
					return "viol:emission-after-exhaustion" + at
				}
			}
			return "ok"
		}
		// ordering
		if havePrev && e.ts < prevTS {
			return "viol:order" + at
		}
		prevTS, havePrev = e.ts, true
		v := byPath[e.path]
		if v == nil {
			if sync && e.kind == "sync" && e.path == "." {
				syncs++
				if syncs > 1 {
					return "viol:sync-twice" + at
				}
				for _, c := range cfg {
					if count[encPath(c.path)] == 0 {
						return "viol:sync-before-first-emission" + at
					}
				}
				continue
			}
			return "viol:unknown-value" + at
		}
		if e.kind != v.kind {
			return "viol:kind" + at
		}
		count[e.path]++
		k := count[e.path]
		if v.repeat >= 1 && k > int(v.repeat) {
			return "viol:repeat-exceeded" + at
		}
		if k == 1 {
			// the first emission is the configured value itself
			want := v.proto()
			if want.Timestamp == nil {
				want.Timestamp = &fpb.Timestamp{}
			}
			if !proto.Equal(want, e.v) {
				return "viol:first-emission" + at
			}
		} else {
			p := last[e.path]
			d := e.ts - p.GetTimestamp().GetTimestamp()
			if d < v.dmin || d > v.dmax {
				return "viol:delta" + at
			}
			if e.v.GetTimestamp().GetDeltaMin() != v.dmin || e.v.GetTimestamp().GetDeltaMax() != v.dmax {
				return "viol:delta-config" + at
			}
			if r := fqRange(v, k, p, e.v); r != "" {
				return "viol:" + r + at
			}
		}
		last[e.path] = e.v
	}
	return "ok"
}

// fqAgentMonitor: the sync response comes after the first update of every configured value and
// exactly once (only evaluated for configurations without sync values of their own).
func fqAgentMonitor(cfg []*fqV, sync bool, resps []*gpb.SubscribeResponse, limit int) string {
	for _, v := range cfg {
		// a value without a kind makes valToResp fail even when the queue never advances it
		if v.kind == "sync" || v.kind == "unset" || !fqValid(v) {
			return "ok"
		}
	}
	seen := map[string]bool{}
	syncs := 0
	for i, r := range resps {
		s := fqResp(r)
		switch {
		case strings.HasPrefix(s, "s:"):
			syncs++
			if !sync {
				return fmt.Sprintf("viol:agent-sync-disabled@%d", i)
			}
			if syncs > 1 {
				return fmt.Sprintf("viol:agent-sync-twice@%d", i)
			}
			for _, v := range cfg {
				if !seen[encPath(v.path)] {
					return fmt.Sprintf("viol:agent-sync-before-first-update@%d", i)
				}
			}
		case strings.HasPrefix(s, "u:") || strings.HasPrefix(s, "d:"):
			seen[strings.SplitN(s[2:], "@", 2)[0]] = true
		default:
			return fmt.Sprintf("viol:agent-response@%d", i)
		}
	}
	if len(resps) < limit && sync && syncs != 1 {
		return "viol:agent-sync-missing"
	}
	return "ok"
}

// ---------------------------------------------------------------- Run

func (c *fqComp) Run(args []string) string {
	if len(args) == 0 {
		return "bad-op"
	}
	switch args[0] {
	case "new":
		if len(args) < 4 {
			return "bad-op"
		}
		look, _ := strconv.Atoi(args[1])
		c.sync = args[2] == "1"
		c.seed, _ = strconv.ParseInt(strings.SplitN(args[3], ":", 2)[0], 10, 64)
		c.cfg = nil
		for _, tok := range args[4:] {
			c.cfg = append(c.cfg, fqParseValue(tok))
		}
		// the pair stepped by `next` shares one set of configuration objects
		shared := fqProtos(c.cfg)
		c.maxEmitted, c.sawErr = 0, false
		c.a = fqQueue(c.seed, shared, c.sync)
		c.b = fqQueue(c.seed, shared, c.sync)
		// monitor run on a further pair
		m1, m2 := fqQueue(c.seed, fqProtos(c.cfg), c.sync), fqQueue(c.seed, fqProtos(c.cfg), c.sync)
		var seq []fqEm
		for i := 0; i < look; i++ {
			e1, e2 := fqNext(m1), fqNext(m2)
			if e1.String() != e2.String() {
				return fmt.Sprintf("viol:nondeterministic@%d", i)
			}
			seq = append(seq, e1)
			if e1.tag == "panic" {
				break
			}
		}
		if r := fqMonitor(c.cfg, c.sync, seq); r != "ok" {
			return r
		}
		if look > 0 {
			resps := fqAgent(c.seed, fqProtos(c.cfg), c.sync, look)
			if r := fqAgentMonitor(c.cfg, c.sync, resps, look); r != "ok" {
				return r
			}
		}
		return "ok"
	case "mark":
		// a sync marker added to the RUNNING generator at its Latest(), the way Client.reset places it on a fresh
		// one: Latest() is the maximum timestamp queued, also after any number of Next calls (seeded change
		// c20_seed10 let it go stale once a single stream was left: a marker sorted in front of pending updates)
		if c.a == nil {
			return "noqueue"
		}
		la, lb := c.a.Latest(), c.b.Latest()
		if la < c.maxEmitted && !c.sawErr {
			// Latest() is the maximum timestamp of the values the generator holds or has produced: a marker
			// placed there can never sort in front of an update that is still to come
			return "viol:latest-below-an-emitted-timestamp"
		}
		for i, q := range []*queue.UpdateQueue{c.a, c.b} {
			q.Add(&fpb.Value{Timestamp: &fpb.Timestamp{Timestamp: []int64{la, lb}[i]}, Repeat: 1, Value: &fpb.Value_Sync{Sync: 1}})
		}
		if la != lb {
			return "nondet:latest"
		}
		return "latest=" + strconv.FormatInt(la, 10)
	case "next":
		if c.a == nil {
			return "noqueue"
		}
		e1, e2 := fqNext(c.a), fqNext(c.b)
		if e1.tag == "err" || e1.tag == "panic" {
			c.sawErr = true
		}
		if e1.v != nil && e1.v.GetTimestamp().GetTimestamp() > c.maxEmitted {
			c.maxEmitted = e1.v.GetTimestamp().GetTimestamp()
		}
		if e1.String() != e2.String() {
			return "nondet:" + strings.ReplaceAll(e1.String()+"|"+e2.String(), " ", "_")
		}
		return e1.String()
	case "rand":
		if len(args) < 3 {
			return "bad-op"
		}
		var draws string
		if len(args) > 3 {
			draws = args[3]
		}
		return fqRand(args[1], args[2], draws)
	case "agent":
		if len(args) < 2 {
			return "bad-op"
		}
		limit, _ := strconv.Atoi(args[1])
		var out []string
		for _, r := range fqAgent(c.seed, fqProtos(c.cfg), c.sync, limit) {
			out = append(out, fqResp(r))
		}
		return bracket(out)
	}
	return "bad-op"
}

// ---------------------------------------------------------------- math/rand on scripted draws

// fqScript is a rand.Source delivering a scripted list of raw draws, so that the real
// math/rand algorithms (Int63n, Int31n, Intn, Float64, Shuffle) can be compared with their
// transcription in the model on adversarial draws (redraw loops, Float64 rounding up to 1).
type fqScript struct {
	draws []int64
	used  int
}

type fqNoDraws struct{}

func (s *fqScript) Int63() int64 {
	if s.used >= len(s.draws) {
		panic(fqNoDraws{})
	}
	s.used++
	return s.draws[s.used-1]
}
func (s *fqScript) Seed(int64) {}

func fqRand(fn, arg, draws string) (out string) {
	src := &fqScript{}
	for _, d := range strings.Split(draws, ",") {
		if d != "" {
			x, _ := strconv.ParseUint(d, 16, 64)
			src.draws = append(src.draws, int64(x&(1<<63-1)))
		}
	}
	defer func() {
		if r := recover(); r != nil {
			if _, ok := r.(fqNoDraws); ok {
				out = "nodraws"
				return
			}
			out = "panic"
		}
	}()
	r := rand.New(src)
	n, _ := strconv.ParseInt(arg, 10, 64)
	var res string
	switch fn {
	case "int63n":
		res = strconv.FormatInt(r.Int63n(n), 10)
	case "int31n":
		res = strconv.FormatInt(int64(r.Int31n(int32(n))), 10)
	case "intn":
		res = strconv.Itoa(r.Intn(int(n)))
	case "float64":
		res = fhex(r.Float64())
	case "shuffle":
		l := make([]string, n)
		for i := range l {
			l[i] = strconv.Itoa(i)
		}
		r.Shuffle(len(l), func(i, j int) { l[i], l[j] = l[j], l[i] })
		res = bracket(l)
	default:
		return "bad-op"
	}
	return res + " " + strconv.Itoa(src.used)
}

// fqGenDraw: raw draws biased towards the values that make the algorithms redraw
func fqGenDraw(r *rand.Rand) int64 {
	switch r.Intn(8) {
	case 0:
		return r.Int63n(1 << 31) // Uint32() == 0, Int31() == 0
	case 1:
		return 1<<63 - 1 - r.Int63n(1<<10) // rounds up to 1.0 in Float64; above every redraw bound
	case 2:
		return (1<<31-1-r.Int63n(4))<<32 | r.Int63n(1<<32) // Int31() at the top of its range
	case 3:
		return r.Int63n(8) << 31 // tiny Uint32()
	case 4:
		return 1<<63 - 1 - r.Int63n(1<<62)
	}
	return r.Int63()
}

func fqGenRand(r *rand.Rand) []string {
	seq := []string{"new 0 0 1:"}
	for i, n := 0, 5+r.Intn(20); i < n; i++ {
		nd := r.Intn(7)
		var ds []string
		for k := 0; k < nd; k++ {
			ds = append(ds, strconv.FormatInt(fqGenDraw(r), 16))
		}
		var arg int64
		fn := []string{"int63n", "int31n", "intn", "float64", "shuffle"}[r.Intn(5)]
		switch fn {
		case "int63n":
			arg = []int64{0, -3, 1, 2, 3, 6, 7, 1 << 32, 1<<32 + 1, 1<<62 + 1, 1<<63 - 1, 3 << 61, 1 << 62}[r.Intn(13)]
		case "int31n":
			arg = []int64{0, -1, 1, 2, 3, 5, 1 << 16, 1<<30 + 1, 1<<31 - 1, 3 << 29}[r.Intn(10)]
		case "intn":
			arg = []int64{0, 1, 2, 3, 5, 1<<31 - 1, 1 << 31, 1<<31 + 1, 1<<40 + 7}[r.Intn(9)]
		case "shuffle":
			arg = int64(r.Intn(7))
			for k := 0; k < int(arg); k++ {
				ds = append(ds, strconv.FormatInt(fqGenDraw(r), 16))
			}
		}
		seq = append(seq, fmt.Sprintf("rand %s %d %s", fn, arg, strings.Join(ds, ",")))
	}
	return seq
}

// ---------------------------------------------------------------- generation

var fqStrs = []string{"a", "b", "", "up", "DOWN", "é", "x y", "a/b", "10%"}

// Int63n(n) redraws with probability (2^63 mod n)/2^63: budget more raw draws for huge n
func fqCost63(n int64) int {
	if n <= 0 || n&(n-1) == 0 || n < 1<<50 {
		return 1
	}
	return 4
}

// upper bound on the raw draws one nextValue() of v consumes (absent long redraw runs)
func (v *fqV) cost() int {
	c := fqCost63(v.dmax - v.dmin + 1)
	switch v.kind {
	case "int":
		if v.dist == 'r' {
			if v.idmin != 0 || v.idmax != 0 {
				c += fqCost63(v.idmax - v.idmin + 1)
			} else {
				c += fqCost63(v.imax - v.imin + 1)
			}
		} else {
			c++
		}
	case "uint":
		if v.dist == 'r' {
			if v.idmin != 0 || v.idmax != 0 {
				c += fqCost63(v.idmax - v.idmin + 1)
			} else {
				c += fqCost63(int64(v.umax) - int64(v.umin) + 1)
			}
		} else {
			c++
		}
	case "sl":
		c += len(v.sopts) + 1
	default:
		c++
	}
	return c
}

func fqGenTS(r *rand.Rand, v *fqV, base int64) {
	if r.Intn(12) == 0 {
		v.hasTS = false // nil Timestamp: addValue installs the zero Timestamp
		return
	}
	v.hasTS = true
	pool := []int64{0, 0, 1, 1, 2, 3, 5, 5, 10, 100}
	v.ts = base + pool[r.Intn(len(pool))]
	switch r.Intn(10) {
	case 0:
		v.dmin, v.dmax = 0, 0
	case 1, 2:
		v.dmin, v.dmax = 1, 1
	case 3, 4:
		v.dmin, v.dmax = 0, int64(1+r.Intn(3))
	case 5, 6:
		v.dmin = int64(1 + r.Intn(3))
		v.dmax = v.dmin + int64(r.Intn(8))
	case 7:
		v.dmin, v.dmax = 5, 5
	case 8:
		v.dmin, v.dmax = 1000, 1000000
	default:
		v.dmin, v.dmax = int64(r.Intn(3)), 1<<40+int64(r.Intn(1000))
	}
}

func fqPickStrs(r *rand.Rand, n int) []string {
	out := make([]string, n)
	for i := range out {
		out[i] = fqStrs[r.Intn(len(fqStrs))]
	}
	return out
}

var fqDbls = []float64{0, 0.1, 0.5, 1, -1, 2.5, -2.5, 7.25, 1e-3, 1e3, 3.141592653589793, 1e9 + 0.3, -1e-7}

func fqGenValue(r *rand.Rand, idx int, base int64) *fqV {
	kinds := []string{"int", "int", "uint", "uint", "dbl", "dbl", "str", "sl", "bool", "del", "sync"}
	v := &fqV{kind: kinds[r.Intn(len(kinds))], dist: 'c'}
	v.path = append(fqPickStrs(r, r.Intn(3)), fmt.Sprintf("v%d", idx))
	fqGenTS(r, v, base)
	switch r.Intn(12) {
	case 0, 1, 2, 3:
		v.repeat = 0
	case 4, 5:
		v.repeat = 1
	case 6, 7, 8:
		v.repeat = int32(2 + r.Intn(5))
	case 9:
		v.repeat = int32(-1 - r.Intn(3))
	default:
		v.repeat = 1000
	}
	if r.Intn(3) == 0 {
		v.seed = int64(1 + r.Intn(5))
		if r.Intn(4) == 0 {
			v.seed = r.Int63() - r.Int63()
			if v.seed == 0 {
				v.seed = 7
			}
		}
	}
	nopts := 1 + r.Intn(4)
	d := r.Intn(10)
	switch v.kind {
	case "int":
		switch {
		case d < 5:
			v.dist = 'r'
			switch r.Intn(6) {
			case 0:
				v.imin, v.imax = 0, 10
			case 1:
				v.imin, v.imax = -5, 5
			case 2:
				v.imin = int64(r.Intn(7)) - 3
				v.imax = v.imin
			case 3:
				v.imin, v.imax = -(1 << 61), 1<<61
			case 4:
				v.imin, v.imax = 0, 1<<32-1 // power-of-two span
			default:
				v.imin = int64(r.Intn(100)) - 50
				v.imax = v.imin + int64(r.Intn(1000))
			}
			span := v.imax - v.imin
			if span > 0 && span < 1<<60 {
				v.iv = v.imin + r.Int63n(span+1)
			} else {
				v.iv = v.imin
			}
			switch r.Intn(6) {
			case 0:
				v.idmin, v.idmax = -2, 3
			case 1:
				v.idmin, v.idmax = 1, 1
			case 2:
				v.idmin, v.idmax = -5, -1
			case 3:
				v.idmin, v.idmax = -3, 0
			case 4:
				v.idmin, v.idmax = 0, 7
			}
		case d < 8:
			v.dist = 'l'
			v.rnd = r.Intn(2) == 0
			for i := 0; i < nopts; i++ {
				v.iopts = append(v.iopts, int64(r.Intn(9))-4)
			}
			v.iv = int64(r.Intn(5))
		default:
			v.iv = int64(r.Intn(100)) - 50
		}
	case "uint":
		switch {
		case d < 5:
			v.dist = 'r'
			switch r.Intn(5) {
			case 0:
				v.umin, v.umax = 0, 10
			case 1:
				v.umin = uint64(r.Intn(7))
				v.umax = v.umin
			case 2:
				v.umin, v.umax = 0, 1<<62
			case 3:
				v.umin, v.umax = 3, 3+1<<16-1
			default:
				v.umin = uint64(r.Intn(100))
				v.umax = v.umin + uint64(r.Intn(1000))
			}
			span := v.umax - v.umin
			if span > 0 && span < 1<<60 {
				v.uv = v.umin + uint64(r.Int63n(int64(span)+1))
			} else {
				v.uv = v.umin
			}
			switch r.Intn(6) {
			case 0:
				v.idmin, v.idmax = -2, 3
			case 1:
				v.idmin, v.idmax = 1, 1
			case 2:
				v.idmin, v.idmax = -5, -1 // drives tmpVal below zero at minimum 0
			case 3:
				v.idmin, v.idmax = -3, 0
			case 4:
				v.idmin, v.idmax = 0, 7
			}
		case d < 8:
			v.dist = 'l'
			v.rnd = r.Intn(2) == 0
			for i := 0; i < nopts; i++ {
				if r.Intn(6) == 0 {
					v.uopts = append(v.uopts, math.MaxUint64-uint64(r.Intn(3)))
				} else {
					v.uopts = append(v.uopts, uint64(r.Intn(9)))
				}
			}
			v.uv = uint64(r.Intn(5))
		default:
			v.uv = uint64(r.Intn(100))
			if r.Intn(5) == 0 {
				v.uv = math.MaxUint64
			}
		}
	case "dbl":
		switch {
		case d < 5:
			v.dist = 'r'
			a, b := fqDbls[r.Intn(len(fqDbls))], fqDbls[r.Intn(len(fqDbls))]
			if a > b {
				a, b = b, a
			}
			v.fmin, v.fmax = a, b
			v.fv = a + (b-a)*float64(r.Intn(5))/4
			if v.fv < a || v.fv > b {
				v.fv = a
			}
			if r.Intn(8) == 0 {
				// "any finite double": a range whose width overflows float64 — the generator's draw
				// minimum + Float64()*(maximum-minimum) is +Inf there and only the clamp to [minimum, maximum]
				// keeps the value in range (seeded change c20_seed8 skipped the clamp for ranges without a delta)
				w := []float64{1e308, math.MaxFloat64}[r.Intn(2)]
				v.fmin, v.fmax = -w, w
				v.fv = fqDbls[r.Intn(len(fqDbls))]
			}
			switch r.Intn(5) {
			case 0:
				v.fdmin, v.fdmax = 0.1, 0.5
			case 1:
				v.fdmin, v.fdmax = -1, 1
			case 2:
				v.fdmin, v.fdmax = -0.25, 0
			case 3:
				v.fdmin, v.fdmax = 1e-9, 1e3
			}
		case d < 8:
			v.dist = 'l'
			v.rnd = r.Intn(2) == 0
			for i := 0; i < nopts; i++ {
				v.fopts = append(v.fopts, fqDbls[r.Intn(len(fqDbls))])
			}
			v.fv = fqDbls[r.Intn(len(fqDbls))]
		default:
			v.fv = fqDbls[r.Intn(len(fqDbls))]
		}
	case "str":
		v.sv = fqStrs[r.Intn(len(fqStrs))]
		if d < 7 {
			v.dist = 'l'
			v.rnd = r.Intn(2) == 0
			v.sopts = fqPickStrs(r, nopts)
		}
	case "sl":
		v.slv = fqPickStrs(r, r.Intn(3))
		if d < 8 {
			v.dist = 'l'
			v.rnd = r.Intn(2) == 0
			v.sopts = fqPickStrs(r, nopts+r.Intn(2))
		}
	case "bool":
		v.bv = r.Intn(2) == 0
		if d < 7 {
			v.dist = 'l'
			v.rnd = r.Intn(2) == 0
			for i := 0; i < nopts; i++ {
				v.bopts = append(v.bopts, r.Intn(2) == 0)
			}
		}
	case "sync":
		v.syncN = uint64(r.Intn(3))
	}
	return v
}

// fqBreak turns v into one of the configurations the updaters reject.
func fqBreak(r *rand.Rand, v *fqV) {
	if v.repeat == 1 {
		v.repeat = 3
	}
	switch r.Intn(8) {
	case 0:
		v.hasTS, v.ts = true, -1-int64(r.Intn(5))
	case 1:
		v.hasTS, v.dmin, v.dmax = true, 5, 2
	case 2:
		v.hasTS, v.dmin, v.dmax = true, -1, 3
	case 3:
		v.kind = "unset"
	default:
		switch v.kind {
		case "int":
			switch r.Intn(4) {
			case 0:
				v.dist, v.imin, v.imax, v.iv = 'r', 5, 1, 3
			case 1:
				v.dist, v.imin, v.imax, v.iv = 'r', 0, 5, 9
			case 2:
				v.dist, v.imin, v.imax, v.iv, v.idmin, v.idmax = 'r', 0, 5, 2, 3, 1
			default:
				v.dist, v.iopts = 'l', nil
			}
		case "uint":
			switch r.Intn(4) {
			case 0:
				v.dist, v.umin, v.umax, v.uv = 'r', 5, 1, 3
			case 1:
				v.dist, v.umin, v.umax, v.uv = 'r', 2, 5, 1
			case 2:
				v.dist, v.umin, v.umax, v.uv, v.idmin, v.idmax = 'r', 0, 5, 2, 3, 1
			default:
				v.dist, v.uopts = 'l', nil
			}
		case "dbl":
			switch r.Intn(4) {
			case 0:
				v.dist, v.fmin, v.fmax, v.fv = 'r', 5, 1, 3
			case 1:
				v.dist, v.fmin, v.fmax, v.fv = 'r', 0, 5, 5.5
			case 2:
				v.dist, v.fmin, v.fmax, v.fv, v.fdmin, v.fdmax = 'r', 0, 5, 2, 0.5, 0.25
			default:
				v.dist, v.fopts = 'l', nil
			}
		case "str", "sl":
			v.dist, v.sopts = 'l', nil
		case "bool":
			v.dist, v.bopts = 'l', nil
		default:
			v.hasTS, v.ts = true, -3
		}
	}
}

func (c *fqComp) Gen(r *rand.Rand, tier string) []string {
	if r.Intn(12) == 0 {
		return fqGenRand(r)
	}
	nvals := r.Intn(9)
	if r.Intn(3) == 0 {
		nvals = 1 + r.Intn(3)
	}
	steps := 8 + r.Intn(50)
	switch r.Intn(12) {
	case 0:
		steps = 200
	case 1:
		steps = 2 + r.Intn(6)
	}
	seed := int64(1 + r.Intn(1000))
	if r.Intn(5) == 0 {
		seed = r.Int63() - r.Int63()
		if seed == 0 {
			seed = 42
		}
	}
	sync := r.Intn(4) != 0
	base := []int64{0, 0, 0, 1, 1000, 1500000000000000000}[r.Intn(6)]
	var cfg []*fqV
	for i := 0; i < nvals; i++ {
		cfg = append(cfg, fqGenValue(r, i, base))
	}
	if nvals > 0 && r.Intn(10) == 0 {
		fqBreak(r, cfg[r.Intn(nvals)])
	}
	// a configuration of finite values only is exhausted after the sum of its repeats
	total, finite := 3, true
	for _, v := range cfg {
		finite = finite && v.repeat >= 1
		total += int(v.repeat)
	}
	if finite && total < steps {
		steps = total
	}
	agent := -1
	if r.Intn(3) == 0 {
		agent = 1 + r.Intn(40)
	}
	return fqSeq(cfg, seed, sync, steps, agent)
}

// fqSeq renders one sequence: the configuration, `steps` Next calls, optionally an agent run.
func fqSeq(cfg []*fqV, seed int64, sync bool, steps, agent int) []string {
	look := 60
	if steps > look {
		look = steps
	}
	if agent+1 > look {
		look = agent + 1
	}
	kk := steps + 2
	if agent+3 > kk {
		kk = agent + 3
	}
	gcost := 1
	for _, v := range cfg {
		if v.seed == 0 && v.cost() > gcost {
			gcost = v.cost()
		}
	}
	toks := []string{"new", strconv.Itoa(look), b01(sync), fmt.Sprintf("%d:%s", seed, rawDraws(seed, kk*gcost+48))}
	for _, v := range cfg {
		n := kk
		if v.repeat >= 1 && int(v.repeat) < n {
			n = int(v.repeat)
		}
		toks = append(toks, v.token(n*v.cost()+48))
	}
	seq := []string{strings.Join(toks, " ")}
	markAt := -1
	if h := seed & 0x7fffffff; !sync && steps > 2 && h%3 == 0 {
		markAt = 1 + int(h/3)%(steps-1) // a marker added to the running generator (configurations without the automatic one)
	}
	for i := 0; i < steps; i++ {
		if i == markAt {
			seq = append(seq, "mark")
		}
		seq = append(seq, "next")
	}
	if agent > 0 {
		seq = append(seq, fmt.Sprintf("agent %d", agent))
	}
	return seq
}

// fqVariants: one value of every kind and distribution arm.
func fqVariants() []*fqV {
	return []*fqV{
		{kind: "int", dist: 'c', iv: -7},
		{kind: "int", dist: 'r', iv: 3, imin: 0, imax: 10},
		{kind: "int", dist: 'r', iv: 3, imin: 0, imax: 10, idmin: -2, idmax: 3},
		{kind: "int", dist: 'r', iv: 9, imin: 0, imax: 10, idmin: 1, idmax: 5},
		{kind: "int", dist: 'r', iv: 2, imin: -(1 << 61), imax: 1 << 61},
		{kind: "int", dist: 'l', iv: 0, iopts: []int64{5, -6, 7}},
		{kind: "int", dist: 'l', iv: 0, iopts: []int64{5, -6, 7}, rnd: true},
		{kind: "uint", dist: 'c', uv: math.MaxUint64},
		{kind: "uint", dist: 'r', uv: 3, umin: 0, umax: 10},
		{kind: "uint", dist: 'r', uv: 1, umin: 0, umax: 10, idmin: -5, idmax: -2},
		{kind: "uint", dist: 'r', uv: 8, umin: 2, umax: 10, idmin: -1, idmax: 4},
		{kind: "uint", dist: 'l', uv: 0, uopts: []uint64{5, math.MaxUint64, 7}},
		{kind: "uint", dist: 'l', uv: 0, uopts: []uint64{5, 6, 7, 8, 9}, rnd: true},
		{kind: "dbl", dist: 'c', fv: 0.1},
		{kind: "dbl", dist: 'r', fv: 0.5, fmin: 0.1, fmax: 7.25},
		{kind: "dbl", dist: 'r', fv: 0.5, fmin: -2.5, fmax: 2.5, fdmin: -0.3, fdmax: 0.7},
		{kind: "dbl", dist: 'r', fv: 1e9, fmin: -1e-7, fmax: 1e9 + 0.3, fdmin: 1e-9, fdmax: 1e3},
		{kind: "dbl", dist: 'l', fv: 0, fopts: []float64{0.1, -1, 3.141592653589793}},
		{kind: "dbl", dist: 'l', fv: 0, fopts: []float64{0.1, -1, 3.141592653589793}, rnd: true},
		{kind: "str", dist: 'c', sv: "x y"},
		{kind: "str", dist: 'l', sv: "", sopts: []string{"a", "", "é"}},
		{kind: "str", dist: 'l', sv: "", sopts: []string{"a", "", "é"}, rnd: true},
		{kind: "sl", dist: 'c', slv: []string{"a", "b"}},
		{kind: "sl", dist: 'l', slv: nil, sopts: []string{"a", "b", "c", "d"}},
		{kind: "sl", dist: 'l', slv: []string{"z"}, sopts: []string{"a", "b", "c", "d"}, rnd: true},
		{kind: "bool", dist: 'c', bv: true},
		{kind: "bool", dist: 'l', bv: false, bopts: []bool{true, true, false}},
		{kind: "bool", dist: 'l', bv: false, bopts: []bool{true, false}, rnd: true},
		{kind: "sync", syncN: 0},
		{kind: "sync", syncN: 2},
		{kind: "del"},
		{kind: "unset"},
	}
}

// Exhaustive: a structured small scope — every kind/distribution arm x repeat setting x
// timestamp-delta setting x PRNG ownership as a single-value configuration, and every ordered
// pair of a few arms at equal and adjacent timestamps (bucket order, sync position).
func (c *fqComp) Exhaustive(tier string) [][]string {
	var out [][]string
	type dl struct{ min, max int64 }
	deltas := []dl{{0, 0}, {1, 1}, {0, 2}, {3, 1 << 41}}
	repeats := []int32{0, 1, 2, 3, -1}
	for _, base := range fqVariants() {
		for _, rep := range repeats {
			for di, d := range deltas {
				for _, seed := range []int64{0, 5} {
					v := *base
					v.path = []string{"x", "v0"}
					v.hasTS, v.ts, v.dmin, v.dmax = true, 4, d.min, d.max
					v.repeat, v.seed = rep, seed
					agent := 0
					if di == 1 {
						agent = 6
					}
					out = append(out, fqSeq([]*fqV{&v}, 11, true, 9, agent))
				}
			}
		}
	}
	// configurations the updaters reject (each defect listed by error_is_config), alone and
	// behind a healthy value
	broken := []*fqV{
		{kind: "int", dist: 'c', iv: 1, hasTS: true, ts: -1, dmin: 0, dmax: 1},
		{kind: "int", dist: 'c', iv: 1, hasTS: true, ts: 4, dmin: 3, dmax: 1},
		{kind: "int", dist: 'c', iv: 1, hasTS: true, ts: 4, dmin: -1, dmax: 1},
		{kind: "unset", hasTS: true, ts: 4, dmin: 1, dmax: 1},
		{kind: "int", dist: 'r', iv: 3, imin: 5, imax: 1, hasTS: true, ts: 4, dmin: 1, dmax: 1},
		{kind: "int", dist: 'r', iv: 9, imin: 0, imax: 5, hasTS: true, ts: 4, dmin: 1, dmax: 1},
		{kind: "int", dist: 'r', iv: 2, imin: 0, imax: 5, idmin: 3, idmax: 1, hasTS: true, ts: 4, dmin: 1, dmax: 1},
		{kind: "int", dist: 'l', hasTS: true, ts: 4, dmin: 1, dmax: 1},
		{kind: "uint", dist: 'r', uv: 3, umin: 5, umax: 1, hasTS: true, ts: 4, dmin: 1, dmax: 1},
		{kind: "uint", dist: 'r', uv: 1, umin: 2, umax: 5, hasTS: true, ts: 4, dmin: 1, dmax: 1},
		{kind: "uint", dist: 'r', uv: 2, umin: 0, umax: 5, idmin: 3, idmax: 1, hasTS: true, ts: 4, dmin: 1, dmax: 1},
		{kind: "uint", dist: 'l', hasTS: true, ts: 4, dmin: 1, dmax: 1},
		{kind: "dbl", dist: 'r', fv: 3, fmin: 5, fmax: 1, hasTS: true, ts: 4, dmin: 1, dmax: 1},
		{kind: "dbl", dist: 'r', fv: 5.5, fmin: 0, fmax: 5, hasTS: true, ts: 4, dmin: 1, dmax: 1},
		{kind: "dbl", dist: 'r', fv: 2, fmin: 0, fmax: 5, fdmin: 0.5, fdmax: 0.25, hasTS: true, ts: 4, dmin: 1, dmax: 1},
		{kind: "dbl", dist: 'l', hasTS: true, ts: 4, dmin: 1, dmax: 1},
		{kind: "str", dist: 'l', hasTS: true, ts: 4, dmin: 1, dmax: 1},
		{kind: "sl", dist: 'l', hasTS: true, ts: 4, dmin: 1, dmax: 1},
		{kind: "bool", dist: 'l', hasTS: true, ts: 4, dmin: 1, dmax: 1},
	}
	for _, b := range broken {
		for _, rep := range []int32{0, 1, 3} {
			v := *b
			v.path, v.repeat = []string{"bad"}, rep
			ok := fqV{kind: "int", dist: 'c', iv: 1, path: []string{"ok"}, hasTS: true, ts: 2, dmin: 1, dmax: 2}
			out = append(out, fqSeq([]*fqV{&v}, 7, true, 6, 4))
			out = append(out, fqSeq([]*fqV{&ok, &v}, 7, true, 8, 0))
		}
	}
	vars := fqVariants()
	pick := []int{2, 6, 9, 15, 21, 24, 27, 29, 30}
	if tier == "thorough" {
		pick = nil
		for i := range vars {
			pick = append(pick, i)
		}
	}
	for _, i := range pick {
		for _, j := range pick {
			for _, off := range []int64{0, 1} {
				for _, sync := range []bool{true, false} {
					a, b := *vars[i], *vars[j]
					a.path, b.path = []string{"v0"}, []string{"v1"}
					a.hasTS, a.ts, a.dmin, a.dmax = true, 2+off, 0, 1
					b.hasTS, b.ts, b.dmin, b.dmax = true, 2, 1, 1
					a.repeat, b.repeat = 3, 0
					b.seed = 9
					out = append(out, fqSeq([]*fqV{&a, &b}, 3, sync, 10, 0))
				}
			}
		}
	}
	return out
}
