package main

// mg shared <k> <fails> <r|k>[j]: k managed targets SHARING ONE ADDRESS of the REAL connection.Manager.
//
// C13 quantifies over "any number of targets sharing or not sharing an address", and "failed sessions
// are retried with backoff for as long as the target is managed".  With a shared address the retry of
// one target depends on what connection.Manager did with the connection object of the failed attempt
// of ANOTHER target: a failed shared dial must be forgotten, or every later Connection(addr) returns the
// stale error without dialing and no sharer is ever really retried (seeded change c13_seed7).
//
// Scenario (self-contained: its own bufconn server, manager, connection manager, ledger):
//
//   * the k targets are added; the scripted Dial function blocks in its FIRST invocation until every
//     sharer waits on that pending dial (the connection object's reference count, read through the
//     overlay seam connection.VerifSnapshot, is k), and then
//       r : refuses it (Dial returns an error), or
//       k : Reconnect(creator) is called — the creator's context is the one the dial runs on — and
//           Dial returns that context's error; the joiners get the failure too;
//   * the next <fails> invocations are refused at once, every later one succeeds (a lazily connecting
//     bufconn ClientConn to a server that streams one update and a sync and then stays silent);
//   * wait until every sharer has had its Connect callback;
//   * `j`: Reconnect(t0): t0 releases its handle of the SHARED connection while the others hold it —
//     their sessions must go on undisturbed (no Reset), t0 joins the same connection again (no new dial);
//   * every target is removed.
//
// Observation (quiescent end state only; every wait is a scaled deadline, never an observation):
//   connected=<sharers that got a Connect>/<k>  dials=<invocations of Dial: exactly fails+2 — one NEW dial
//   per failure, none once the connection is shared> steady=<no sharer but t0 saw a Reset before its Remove>
//   acc=<every trace accepted by the session discipline> done=<every wait met its deadline>
//   acq= leak= twice= uad= (the ledger of mg_conn.go, all targets)  cm= open= (connection.Manager at the end).

import (
	"context"
	"errors"
	"fmt"
	"net"
	"strconv"
	"sync"
	"sync/atomic"
	"time"

	"google.golang.org/grpc"
	"google.golang.org/grpc/connectivity"
	"google.golang.org/grpc/credentials/insecure"
	"google.golang.org/grpc/test/bufconn"

	"github.com/openconfig/gnmi/connection"
	"github.com/openconfig/gnmi/manager"
	gpb "github.com/openconfig/gnmi/proto/gnmi"
	tpb "github.com/openconfig/gnmi/proto/target"
)

type mgSharedServer struct {
	gpb.UnimplementedGNMIServer
}

func (s *mgSharedServer) Subscribe(stream gpb.GNMI_SubscribeServer) error {
	if _, err := stream.Recv(); err != nil {
		return err
	}
	if err := stream.Send(mgResponse('u', 0)); err != nil {
		return err
	}
	if err := stream.Send(mgResponse('s', 1)); err != nil {
		return err
	}
	<-stream.Context().Done()
	return stream.Context().Err()
}

func mgSharedArgs(args []string) (k, fails int, byReconnect, rejoin, ok bool) {
	if len(args) != 3 {
		return
	}
	k, e1 := strconv.Atoi(args[0])
	fails, e2 := strconv.Atoi(args[1])
	if e1 != nil || e2 != nil || k < 2 || k > 3 || fails < 0 || fails > 3 {
		return
	}
	switch args[2] {
	case "r":
	case "k":
		byReconnect = true
	case "rj":
		rejoin = true
	case "kj":
		byReconnect, rejoin = true, true
	default:
		return
	}
	return k, fails, byReconnect, rejoin, true
}

func mgShared(args []string) string {
	k, fails, byReconnect, rejoin, ok := mgSharedArgs(args)
	if !ok {
		return "bad-op"
	}
	const addr = "shared-address:1"
	lis := bufconn.Listen(1 << 16)
	srv := grpc.NewServer()
	gpb.RegisterGNMIServer(srv, &mgSharedServer{})
	go srv.Serve(lis)
	defer srv.Stop()

	oldBase, oldMax := manager.RetryBaseDelay, manager.RetryMaxDelay
	manager.RetryBaseDelay, manager.RetryMaxDelay = time.Millisecond, 2*time.Millisecond
	defer func() { manager.RetryBaseDelay, manager.RetryMaxDelay = oldBase, oldMax }()

	acct := &mgAcct{}
	var mu sync.Mutex
	evs := map[string][]string{}
	connects := map[string]int{}
	rec := func(name, ev string) {
		mu.Lock()
		evs[name] = append(evs[name], ev)
		if ev == "C" {
			connects[name]++
		}
		mu.Unlock()
	}
	waitFor := func(cond func() bool, d time.Duration) bool {
		deadline := time.Now().Add(scaled(d))
		for !cond() {
			if time.Now().After(deadline) {
				return false
			}
			time.Sleep(200 * time.Microsecond)
		}
		return true
	}

	var (
		m      *manager.Manager
		real   *connection.Manager
		dials  int32
		dmu    sync.Mutex
		dialed []*grpc.ClientConn
		done   int32 = 1
	)
	dial := func(ctx context.Context, _ string, _ ...grpc.DialOption) (*grpc.ClientConn, error) {
		n := int(atomic.AddInt32(&dials, 1))
		if n == 1 {
			// every sharer has joined this pending dial (c.ref == k)
			if !waitFor(func() bool { return connection.VerifSnapshot(real)[addr] == k }, 3*time.Second) {
				atomic.StoreInt32(&done, 0)
			}
			if byReconnect {
				m.Reconnect(mgTargetOf(ctx)) // the creator: its context is the one this dial runs on
				select {
				case <-ctx.Done():
					return nil, ctx.Err()
				case <-time.After(scaled(time.Second)):
					atomic.StoreInt32(&done, 0)
				}
			}
			return nil, errors.New("connection refused")
		}
		if n <= 1+fails {
			return nil, errors.New("connection refused")
		}
		conn, err := grpc.NewClient("passthrough:///bufnet",
			grpc.WithContextDialer(func(ctx context.Context, _ string) (net.Conn, error) { return lis.DialContext(ctx) }),
			grpc.WithTransportCredentials(insecure.NewCredentials()),
			grpc.WithStreamInterceptor(func(ctx context.Context, desc *grpc.StreamDesc, cc *grpc.ClientConn, method string,
				streamer grpc.Streamer, o ...grpc.CallOption) (grpc.ClientStream, error) {
				acct.streamOpened(mgTargetOf(ctx), cc)
				return streamer(ctx, desc, cc, method, o...)
			}))
		if err == nil {
			dmu.Lock()
			dialed = append(dialed, conn)
			dmu.Unlock()
		}
		return conn, err
	}
	var err error
	if real, err = connection.NewManagerCustom(map[string]connection.Dial{connection.DEFAULT: dial}); err != nil {
		return "err-new"
	}
	m, err = manager.NewManager(manager.Config{
		Connect:           func(n string) { rec(n, "C") },
		Reset:             func(n string) { rec(n, "R") },
		Sync:              func(n string) { rec(n, "S") },
		ConnectError:      func(n string, _ error) { rec(n, "E") },
		MonitorError:      func(n string, _ error) { rec(n, "M") },
		Update:            func(n string, no *gpb.Notification) { rec(n, "U"+strconv.FormatInt(no.GetTimestamp(), 10)) },
		ConnectionManager: &mgAcctCM{inner: real, acct: acct},
	})
	if err != nil {
		return "err-new"
	}
	names := make([]string, k)
	for i := range names {
		names[i] = "t" + strconv.Itoa(i)
		if m.Add(names[i], &tpb.Target{Addresses: []string{addr}}, mgRequest()) != nil {
			return "err-add"
		}
	}
	nConnected := func(min int) int {
		mu.Lock()
		defer mu.Unlock()
		n := 0
		for _, name := range names {
			if connects[name] >= min {
				n++
			}
		}
		return n
	}
	// after the refused shared dial every sharer is retried for real: a later dial is made and, once one
	// succeeds, every sharer gets its Connect
	if !waitFor(func() bool { return nConnected(1) == k }, 3*time.Second) {
		atomic.StoreInt32(&done, 0)
	}
	connected := nConnected(1)
	steady := true
	if rejoin && connected == k {
		m.Reconnect(names[0])
		if !waitFor(func() bool { mu.Lock(); defer mu.Unlock(); return connects[names[0]] >= 2 }, 3*time.Second) {
			atomic.StoreInt32(&done, 0)
		}
		mu.Lock()
		for _, name := range names[1:] {
			for _, ev := range evs[name] {
				if ev == "R" {
					steady = false // a session on the shared connection was disturbed by t0's release
				}
			}
		}
		mu.Unlock()
	}
	for _, name := range names {
		rm := make(chan struct{})
		go func() { m.Remove(name); close(rm) }()
		select {
		case <-rm:
		case <-time.After(scaled(3 * time.Second)):
			atomic.StoreInt32(&done, 0)
		}
	}
	time.Sleep(scaled(2 * time.Millisecond))
	acc := true
	mu.Lock()
	for _, name := range names {
		acc = acc && mgAccepts(mgStripEM(append([]string(nil), evs[name]...)))
	}
	mu.Unlock()
	acq, leak, twice, uad := acct.counts("")
	open := 0
	dmu.Lock()
	for _, c := range dialed {
		if c.GetState() != connectivity.Shutdown {
			open++
		}
	}
	dmu.Unlock()
	return fmt.Sprintf("connected=%d/%d dials=%d steady=%s acc=%s done=%s acq=%d leak=%d twice=%d uad=%d cm=%d open=%d",
		connected, k, atomic.LoadInt32(&dials), b01(steady), b01(acc), b01(atomic.LoadInt32(&done) == 1),
		acq, leak, twice, uad, len(connection.VerifSnapshot(real)), open)
}
