//go:build ctreehook

package main

// Built only when /repo/ctree carries the `ctree.add.upgrade` schedule point
// (proposed_hooks/ctree_upgrade.diff; lib/steps_C10.py probes for it and adds the tag).

import "github.com/openconfig/gnmi/ctree"

func ccHookAvailable() bool { return true }

func ccInstallHook(h func(string)) {
	if ctree.VerifHook == nil {
		ctree.VerifHook = h
	}
}
