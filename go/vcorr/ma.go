package main

import (
	"context"
	"fmt"
	"math/rand"
	"sort"
	"strconv"
	"strings"
	"sync"
	"time"

	"github.com/openconfig/gnmi/cache"
	"github.com/openconfig/gnmi/coalesce"
	"github.com/openconfig/gnmi/ctree"
	"github.com/openconfig/gnmi/match"
	"github.com/openconfig/gnmi/path"
	pb "github.com/openconfig/gnmi/proto/gnmi"
	"github.com/openconfig/gnmi/subscribe"
)

// ma: the subscription matcher of a real subscribe.Server (match.Match), driven
// through match's exported API (AddQuery + remove closures, Update, UpdateOnce),
// through subscribe's registration path (addSubscription, via the overlay seam
// go/pkg_subscribe) and through subscribe.Server.Update with real notifications
// in real ctree leaves.  Observation of an update: sorted "<client>:<number of
// Client.Update invocations>".
//
// Clients named c* are counting match.Clients; clients named s* are the real
// *subscribe.matchClient delivering into a real coalesce.Queue (invocations =
// items + duplicate counts drained after the operation).
type maComp struct {
	srv      *subscribe.Server
	m        *match.Match
	order    []string                // client names in creation order
	cnt      map[string]*maCounter   // c* clients
	mcs      map[string]match.Client // s* clients
	queues   map[string]*coalesce.Queue
	names    map[match.Client]string
	closures map[string][]func() // "<client> <path token>" -> remove closures returned by AddQuery
	subs     []func()            // remove closures returned by addSubscription, in order of the sub ops
}

type maCounter struct {
	n    int
	name string
}

// maHook, when set, runs at the start of every counter client's Update (op `updrm`).
var maHook func(name string)

func (c *maCounter) Update(interface{}) {
	if h := maHook; h != nil {
		h(c.name)
	}
	c.n++
}

func init() { components["ma"] = &maComp{} }

func (c *maComp) reset() {
	srv, err := subscribe.NewServer(cache.New(nil))
	if err != nil {
		panic(err)
	}
	*c = maComp{srv: srv, m: subscribe.VerifMatch(srv), cnt: map[string]*maCounter{}, mcs: map[string]match.Client{},
		queues: map[string]*coalesce.Queue{}, names: map[match.Client]string{}, closures: map[string][]func(){}}
}

func (c *maComp) client(name string) match.Client {
	if strings.HasPrefix(name, "s") {
		if mc, ok := c.mcs[name]; ok {
			return mc
		}
		q := coalesce.NewQueue()
		mc := subscribe.VerifNewMatchClient(q)
		c.mcs[name], c.queues[name], c.names[mc] = mc, q, name
		c.order = append(c.order, name)
		return mc
	}
	if cc, ok := c.cnt[name]; ok {
		return cc
	}
	cc := &maCounter{name: name}
	c.cnt[name], c.names[cc] = cc, name
	c.order = append(c.order, name)
	return cc
}

// counts collects and resets the invocation counts of all clients.
func (c *maComp) counts() string {
	var out []string
	for _, name := range c.order {
		n := 0
		if cc, ok := c.cnt[name]; ok {
			n, cc.n = cc.n, 0
		} else {
			q := c.queues[name]
			for q.Len() > 0 {
				_, dup, err := q.Next(context.Background())
				if err != nil {
					break
				}
				n += 1 + int(dup)
			}
		}
		if n > 0 {
			out = append(out, encStr(name)+":"+strconv.Itoa(n))
		}
	}
	return sortedBracket(out)
}

// ---- building real protobuf paths from the line tokens ----

// maPath builds a *pb.Path whose path.ToStrings(·, false) is idx, in the encoding
// selected by hint: e = PathElem names, l = deprecated Element, k = PathElems with one
// key each (name, value pairs), m = first PathElem with two keys, n = nil when empty.
func maPath(target, origin string, idx []string, hint byte) *pb.Path {
	p := &pb.Path{Target: target, Origin: origin}
	switch hint {
	case 'l':
		p.Element = cloneStrs(idx)
	case 'k':
		for i := 0; i < len(idx); i += 2 {
			e := &pb.PathElem{Name: idx[i]}
			if i+1 < len(idx) {
				e.Key = map[string]string{"k": idx[i+1]}
			}
			p.Elem = append(p.Elem, e)
		}
	case 'm':
		if len(idx) >= 3 {
			p.Elem = append(p.Elem, &pb.PathElem{Name: idx[0], Key: map[string]string{"k1": idx[1], "k2": idx[2]}})
			for _, x := range idx[3:] {
				p.Elem = append(p.Elem, &pb.PathElem{Name: x})
			}
			break
		}
		fallthrough
	default:
		for _, x := range idx {
			p.Elem = append(p.Elem, &pb.PathElem{Name: x})
		}
	}
	return p
}

// gpath token: nil | <target>,<origin>,<path>[,<hint>]
func maGPath(tok string) *pb.Path {
	if tok == "nil" {
		return nil
	}
	f := strings.Split(tok, ",")
	if len(f) < 3 {
		return nil
	}
	hint := byte('e')
	if len(f) > 3 && len(f[3]) > 0 {
		hint = f[3][0]
	}
	return maPath(decStr(f[0]), decStr(f[1]), decPath(f[2]), hint)
}

func maGTok(target, origin string, idx []string, hint byte) string {
	return encStr(target) + "," + encStr(origin) + "," + encPath(idx) + "," + string(hint)
}

// entry token: u<hint><path> | d<hint><path>
func maNoti(pfx string, entries []string) *pb.Notification {
	n := &pb.Notification{Timestamp: 1, Prefix: maGPath(pfx)}
	for _, e := range entries {
		if len(e) < 3 {
			continue
		}
		idx := decPath(e[2:])
		var p *pb.Path
		if !(e[1] == 'n' && len(idx) == 0) {
			p = maPath("", "", idx, e[1])
		}
		if e[0] == 'd' {
			n.Delete = append(n.Delete, p)
		} else {
			n.Update = append(n.Update, &pb.Update{Path: p, Val: &pb.TypedValue{Value: &pb.TypedValue_IntVal{IntVal: 1}}})
		}
	}
	return n
}

func (c *maComp) Run(args []string) string {
	if len(args) == 0 {
		return "bad-op"
	}
	if args[0] == "new" {
		c.reset()
		return "ok"
	}
	if c.m == nil {
		c.reset()
	}
	switch {
	case args[0] == "add" && len(args) == 3:
		cl := c.client(decStr(args[1]))
		rm := c.m.AddQuery(decPath(args[2]), cl)
		key := args[1] + " " + args[2]
		c.closures[key] = append(c.closures[key], rm)
		return "ok"
	case args[0] == "rm" && len(args) == 3:
		// run a remove closure AddQuery returned for this (client, query); running it again is
		// the idempotence the API promises
		for _, rm := range c.closures[args[1]+" "+args[2]] {
			rm()
		}
		return "ok"
	case args[0] == "upd" && len(args) == 2:
		c.m.Update(ctree.DetachedLeaf(1), decPath(args[1]))
		return c.counts()
	case args[0] == "updrm" && len(args) == 4:
		// an update is in flight (the first matched counter client is slow: its callback is held)
		// while the registration (client, query) is removed.  The removal must not return before
		// the notification has been offered to everybody it matched: a subscriber is never offered
		// a notification after its remove function returned.  The removed registration belongs to a
		// client of its own (registered here, nowhere else), so any later offer to it is wrong.
		// Sequentially this is `add c q`, `upd p`, `rm c q`.
		cl := decStr(args[2])
		rmTemp := c.m.AddQuery(decPath(args[3]), c.client(cl))
		hold, entered := make(chan struct{}), make(chan struct{})
		var mu sync.Mutex
		seen, removed, late := 0, false, false
		maHook = func(name string) {
			mu.Lock()
			seen++
			first := seen == 1
			if removed && name == cl {
				late = true
			}
			mu.Unlock()
			if first {
				close(entered)
				<-hold
			}
		}
		updDone, rmDone := make(chan struct{}), make(chan struct{})
		go func() { c.m.Update(ctree.DetachedLeaf(1), decPath(args[1])); close(updDone) }()
		select {
		case <-entered:
		case <-updDone:
		}
		go func() {
			rmTemp()
			mu.Lock()
			removed = true
			mu.Unlock()
			close(rmDone)
		}()
		select {
		case <-rmDone:
		case <-time.After(3 * time.Millisecond):
		}
		close(hold)
		<-updDone
		<-rmDone
		maHook = nil
		mon := "mon=ok"
		if late {
			mon = "mon=FAIL:offered-after-remove-returned"
		}
		return c.counts() + " " + mon
	case args[0] == "once":
		updated := map[match.Client]struct{}{}
		v := ctree.DetachedLeaf(1)
		for _, p := range args[1:] {
			c.m.UpdateOnce(v, decPath(p), updated)
		}
		return c.counts()
	case (args[0] == "updnoti" || args[0] == "updnotiA") && len(args) >= 2:
		// updnotiA: the same notification marked atomic (the cache keeps it as one leaf at its prefix;
		// whom it is offered to is decided by its updates all the same)
		n := maNoti(args[1], args[2:])
		n.Atomic = args[0] == "updnotiA"
		c.srv.Update(ctree.DetachedLeaf(n))
		return c.counts()
	case args[0] == "updother" && len(args) == 1:
		c.srv.Update(ctree.DetachedLeaf("not a notification"))
		return c.counts()
	case args[0] == "sub" && len(args) >= 3:
		sl := &pb.SubscriptionList{Prefix: maGPath(args[2])}
		for _, p := range args[3:] {
			sl.Subscription = append(sl.Subscription, &pb.Subscription{Path: maGPath(p)})
		}
		c.subs = append(c.subs, subscribe.VerifAddSubscription(c.m, sl, c.client(decStr(args[1]))))
		return "ok"
	case args[0] == "unsub" && len(args) == 2:
		i, err := strconv.Atoi(args[1])
		if err != nil || i < 0 || i >= len(c.subs) {
			return "none"
		}
		c.subs[i]()
		return "ok"
	case args[0] == "dump" && len(args) == 1:
		regs, nodes := match.VerifDump(c.m, func(cl match.Client) string { return encStr(c.names[cl]) }, encPath)
		return bracket(regs) + " nodes=" + strconv.Itoa(nodes)
	case args[0] == "qs" && len(args) == 3:
		q, k := decPath(args[1]), decPath(args[2])
		t := &ctree.Tree{}
		if err := t.Add(k, 1); err != nil {
			return "err"
		}
		found := false
		t.Query(q, func([]string, *ctree.Leaf, interface{}) error { found = true; return nil })
		m := match.New()
		cc := &maCounter{}
		m.AddQuery(q, cc)
		m.Update(1, k)
		return fmt.Sprintf("q:%t s:%d", found, cc.n)
	case args[0] == "subq" && len(args) == 3:
		pfx, p := maGPath(args[1]), maGPath(args[2])
		if p == nil {
			return "skip"
		}
		m := match.New()
		mc := subscribe.VerifNewMatchClient(coalesce.NewQueue())
		subscribe.VerifAddSubscription(m, &pb.SubscriptionList{Prefix: pfx, Subscription: []*pb.Subscription{{Path: p}}}, mc)
		var reg []string
		regs, _ := match.VerifDump(m, func(match.Client) string { return "" }, func(p []string) string { reg = cloneStrs(p); return "" })
		if len(regs) != 1 {
			return "not-one-registration"
		}
		out := "reg=" + encPath(reg)
		full, err := path.CompletePath(pfx, p)
		if err != nil {
			return out + " full=err consistent=n/a"
		}
		want := full
		if t := pfx.GetTarget(); t != "" {
			want = append([]string{t}, full...)
		}
		return out + " full=" + encPath(full) + " consistent=" + strconv.FormatBool(encPath(want) == encPath(reg))
	}
	return "bad-op"
}

// ---- generators ----

var maOdd = []string{"", "é", "x/y", "a b", "**", "c"}

func maElem(r *rand.Rand) string {
	switch x := r.Intn(20); {
	case x < 7:
		return "a"
	case x < 12:
		return "b"
	case x < 17:
		return "*"
	case x < 19:
		return "d"
	}
	return maOdd[r.Intn(len(maOdd))]
}

func maRandPath(r *rand.Rand, maxLen int) []string {
	p := make([]string, r.Intn(maxLen+1))
	for i := range p {
		p[i] = maElem(r)
	}
	return p
}

var maHints = []byte{'e', 'l', 'k', 'm', 'e'}

func (c *maComp) Gen(r *rand.Rand, tier string) []string {
	seq := []string{"new"}
	nc := 1 + r.Intn(4)
	var pool [][]string // every index path mentioned so far: shared between clients, mutated for updates
	type reg struct {
		c string
		q []string
	}
	var added []reg
	nsubs := 0
	targets := []string{"d", "d", "dev", "*", "a"}
	org := []string{"oc", "openconfig"}[r.Intn(2)] // the origin name of this sequence (c06_seed7 special-cased the default origin)
	pick := func() []string {
		if len(pool) > 0 && r.Intn(5) != 0 {
			p := cloneStrs(pool[r.Intn(len(pool))])
			switch r.Intn(7) {
			case 0:
				if len(p) > 0 {
					p = p[:r.Intn(len(p))]
				}
			case 1:
				p = append(p, maRandPath(r, 2)...)
			case 2:
				if len(p) > 0 {
					p[r.Intn(len(p))] = "*"
				}
			case 3:
				if len(p) > 0 {
					p[r.Intn(len(p))] = maElem(r)
				}
			}
			return p
		}
		return maRandPath(r, 4)
	}
	cname := func() string { return "c" + strconv.Itoa(r.Intn(nc)) }
	sname := func() string { return "s" + strconv.Itoa(r.Intn(2)) }
	// split an index path into a notification/subscription prefix (target[, origin][, elems]) and a rest
	gpfx := func(p []string) (tok string, rest []string) {
		if r.Intn(12) == 0 {
			return "nil", p
		}
		target, origin := "", ""
		if len(p) > 0 && p[0] != "" && r.Intn(6) != 0 {
			target, p = p[0], p[1:]
		}
		if len(p) > 0 && p[0] != "" && r.Intn(4) == 0 {
			origin, p = p[0], p[1:]
		}
		k := 0
		if len(p) > 0 && r.Intn(3) == 0 {
			k = r.Intn(len(p) + 1)
		}
		return maGTok(target, origin, p[:k], maHints[r.Intn(len(maHints))]), p[k:]
	}
	n := 8 + r.Intn(30)
	for i := 0; i < n; i++ {
		switch x := r.Intn(100); {
		case x < 26:
			q := pick()
			if r.Intn(3) == 0 {
				q = append([]string{targets[r.Intn(len(targets))]}, q...)
			}
			cl := cname()
			if r.Intn(6) == 0 {
				cl = sname()
			}
			pool = append(pool, q)
			added = append(added, reg{cl, q})
			seq = append(seq, "add "+cl+" "+encPath(q))
		case x < 38:
			if len(added) == 0 {
				continue
			}
			a := added[r.Intn(len(added))]
			seq = append(seq, "rm "+a.c+" "+encPath(a.q))
		case x < 49:
			seq = append(seq, "upd "+encPath(pick()))
		case x < 52:
			// an update in flight while one of the registrations it may match is removed
			if len(added) == 0 || r.Intn(3) != 0 {
				seq = append(seq, "upd "+encPath(pick()))
				continue
			}
			a := added[r.Intn(len(added))]
			p := cloneStrs(a.q)
			for j := range p {
				if p[j] == "*" {
					p[j] = maElem(r)
				}
			}
			if r.Intn(3) == 0 {
				p = append(p, maRandPath(r, 2)...)
			}
			// (the removed registration: a fresh client on a registered query or a prefix of it)
			q := cloneStrs(a.q)
			if len(q) > 0 && r.Intn(3) == 0 {
				q = q[:r.Intn(len(q))]
			}
			seq = append(seq, "updrm "+encPath(p)+" cz"+strconv.Itoa(i)+" "+encPath(q))
		case x < 59:
			l := "once"
			for k := 1 + r.Intn(3); k > 0; k-- {
				l += " " + encPath(pick())
			}
			seq = append(seq, l)
		case x < 76:
			// a notification: prefix + 1..3 update/delete paths whose joined index paths are
			// (mutations of) registered queries; single-update notifications are the common case
			base := pick()
			tok, rest := gpfx(base)
			l := "updnoti " + tok
			if r.Intn(4) == 0 {
				l = "updnotiA " + tok
			}
			k := 1
			switch y := r.Intn(10); {
			case y == 0:
				k = 0
			case y >= 6:
				k = 2 + r.Intn(2)
			}
			for j := 0; j < k; j++ {
				e := rest
				if j > 0 {
					switch r.Intn(3) {
					case 0:
						e = maRandPath(r, 3)
					case 1:
						if len(e) > 0 {
							e = cloneStrs(e)
							e[r.Intn(len(e))] = maElem(r)
						}
					}
				}
				kind := "u"
				if r.Intn(3) == 0 {
					kind = "d"
				}
				h := maHints[r.Intn(len(maHints))]
				if len(e) == 0 && r.Intn(2) == 0 {
					h = 'n'
				}
				l += " " + kind + string(h) + encPath(e)
			}
			seq = append(seq, l)
		case x < 85:
			// a subscription list as Subscribe hands it to addSubscription
			target := targets[r.Intn(3)]
			origin := ""
			if r.Intn(4) == 0 {
				origin = org
			}
			var pidx []string
			if r.Intn(3) == 0 {
				pidx = maRandPath(r, 2)
			}
			pfx := maGTok(target, origin, pidx, maHints[r.Intn(len(maHints))])
			if r.Intn(15) == 0 {
				pfx = "nil"
				target, origin, pidx = "", "", nil
			}
			l := "sub " + sname() + " " + pfx
			for k := 1 + r.Intn(3); k > 0; k-- {
				if r.Intn(12) == 0 {
					l += " nil"
					continue
				}
				e := pick()
				if r.Intn(25) == 0 { // around the capacity of the prefix slice (20)
					e = nil
					for j := 17 + r.Intn(5); j > 0; j-- {
						e = append(e, "a")
					}
				}
				po := ""
				if r.Intn(4) == 0 {
					po = org
				}
				l += " " + maGTok("", po, e, maHints[r.Intn(len(maHints))])
				full := []string{}
				if target != "" {
					full = append(full, target)
				}
				if origin != "" {
					full = append(full, origin)
				}
				full = append(full, pidx...)
				if origin == "" && po != "" {
					full = append(full, po)
				}
				pool = append(pool, append(full, e...))
			}
			nsubs++
			seq = append(seq, l)
		case x < 91:
			if nsubs == 0 {
				continue
			}
			seq = append(seq, "unsub "+strconv.Itoa(r.Intn(nsubs)))
		case x < 96:
			seq = append(seq, "dump")
		case x < 97:
			seq = append(seq, "updother")
		case x < 99:
			tok, rest := gpfx(pick())
			po := ""
			if r.Intn(3) == 0 {
				po = org
			}
			seq = append(seq, "subq "+tok+" "+maGTok("", po, rest, maHints[r.Intn(len(maHints))]))
		default:
			seq = append(seq, "qs "+encPath(pick())+" "+encPath(pick()))
		}
	}
	seq = append(seq, "dump")
	return seq
}

func maAllPaths(alpha []string, maxLen int) [][]string {
	out := [][]string{nil}
	level := [][]string{nil}
	for l := 1; l <= maxLen; l++ {
		var next [][]string
		for _, p := range level {
			for _, x := range alpha {
				next = append(next, append(cloneStrs(p), x))
			}
		}
		out = append(out, next...)
		level = next
	}
	return out
}

// Exhaustive: every set of at most two queries of one client and every update path, all
// of length <= 3 (quick) / 4 (thorough) over {a, b, *}: Match.Update (multiplicity), a
// single-update notification through Server.Update (once), and both again after the
// first query was removed; plus the cross-check of the streaming relation with
// ctree.Query on every (query, key) pair.
func (c *maComp) Exhaustive(tier string) [][]string {
	maxLen := 3
	if tier == "thorough" {
		maxLen = 4
	}
	paths := maAllPaths([]string{"a", "b", "*"}, maxLen)
	toks := make([]string, len(paths))
	for i, p := range paths {
		toks[i] = encPath(p)
	}
	var out [][]string
	one := func(qs []int) {
		seq := []string{"new"}
		for _, q := range qs {
			seq = append(seq, "add c0 "+toks[q])
		}
		for i, p := range toks {
			seq = append(seq, "upd "+p, "updnoti nil u"+string(maHints[i%4])+p)
		}
		seq = append(seq, "dump")
		if len(qs) > 0 {
			seq = append(seq, "rm c0 "+toks[qs[0]], "dump")
			if len(qs) > 1 {
				for _, p := range toks {
					seq = append(seq, "upd "+p)
				}
			}
		}
		out = append(out, seq)
	}
	one(nil)
	for i := range paths {
		one([]int{i})
		for j := i + 1; j < len(paths); j++ {
			one([]int{i, j})
		}
	}
	for _, q := range toks {
		seq := []string{"new"}
		for _, k := range toks {
			seq = append(seq, "qs "+q+" "+k)
		}
		out = append(out, seq)
	}
	return out
}

var _ = sort.Strings
