package main

import (
	"encoding/json"
	"fmt"
	"math/rand"
	"sort"
	"strconv"
	"strings"
	"time"

	"github.com/openconfig/gnmi/cache"
	"github.com/openconfig/gnmi/ctree"
	"github.com/openconfig/gnmi/subscribe"
	"github.com/openconfig/gnmi/latency"
	"github.com/openconfig/gnmi/metadata"
	"google.golang.org/protobuf/proto"

	pb "github.com/openconfig/gnmi/proto/gnmi"
)

// ca: cache.Cache with a recording SetClient callback and a scripted clock.
type caComp struct {
	c      *cache.Cache
	events []string          // rendered events of the current op, in callback order
	view   map[string]string // feed replayed by the harness itself (the C03 monitor)
	pool   *pbPool
	notis  map[string]*pb.Notification // same token => same object (callers re-sending an object)
	now    int64
	ed     bool
	latNames []string // latency metadata names the current cache registered (package-level state of `metadata`)
}

// scriptedNow is the clock reading handed to cache.Now (set from the op line).
var scriptedNow int64

func init() {
	c := &caComp{}
	components["ca"] = c
	cache.Now = func() time.Time { return time.Unix(0, scriptedNow) }
}

// ---------------------------------------------------------------- running

func (c *caComp) record(l *ctree.Leaf) {
	n, ok := l.Value().(*pb.Notification)
	if !ok {
		c.events = append(c.events, "?non-notification")
		return
	}
	g := fromNoti(n)
	if len(g.del) > 0 {
		idx := subIndexOf(g.prefix, g.del[0])
		c.events = append(c.events, "D"+encPath(idx)+"@"+strconv.FormatInt(g.ts, 10))
		c.viewDelete(idx)
		return
	}
	var idx []string
	kind := "U"
	if g.atomic {
		kind = "A"
		idx = subIndexOf(g.prefix, gPath{})
		c.viewDelete(idx)
	} else if len(g.upd) > 0 {
		idx = subIndexOf(g.prefix, g.upd[0].path)
	}
	c.events = append(c.events, kind+encPath(idx)+renderStored(g))
	c.view[encPath(idx)] = viewVal(g, c.ed)
}

// what the monitor compares: value (and timestamp when nothing is ever suppressed)
func viewVal(g gNoti, eventDriven bool) string {
	if g.atomic {
		return renderStored(g)
	}
	v := "absent"
	if len(g.upd) > 0 {
		val := g.upd[0].val
		// value.Equal treats +0 and -0 as the same value: a suppressed sign change of zero
		// is "value unchanged"
		if val.kind == "d" && val.bits == 1<<63 {
			val.bits = 0
		}
		if val.kind == "f" && val.bits == 1<<31 {
			val.bits = 0
		}
		v = val.token()
	}
	if !eventDriven {
		v += "@" + strconv.FormatInt(g.ts, 10)
	}
	return v
}

func qmatchesGo(q, k []string) bool {
	if len(q) == 0 {
		return true
	}
	if len(k) == 0 {
		return len(q) == 1 && q[0] == "*"
	}
	if q[0] != "*" && q[0] != k[0] {
		return false
	}
	return qmatchesGo(q[1:], k[1:])
}

func (c *caComp) viewDelete(idx []string) {
	for k := range c.view {
		if qmatchesGo(idx, decPath(k)) {
			delete(c.view, k)
		}
	}
}

// groups: events of one op, grouped per delete (map iteration order inside a group is unspecified)
func renderGroupsGo(events []string) string {
	var groups []string
	var cur []string
	flush := func() {
		if len(cur) > 0 {
			sort.Strings(cur)
			groups = append(groups, strings.Join(cur, "+"))
			cur = nil
		}
	}
	for _, e := range events {
		if e[0] != 'D' {
			flush()
			groups = append(groups, e)
			continue
		}
		cur = append(cur, e)
	}
	flush()
	return bracket(groups)
}

func (c *caComp) Run(args []string) string {
	if len(args) == 0 {
		return "bad-op"
	}
	c.events = nil
	atoi := func(s string) int64 { v, _ := strconv.ParseInt(s, 10, 64); return v }
	// latency.Now and cache.Now are two package variables: both read the one scripted clock
	// (the lt component installs its own latency.Now per operation)
	latency.Now = func() time.Time { return time.Unix(0, scriptedNow) }
	switch args[0] {
	case "par":
		return caPar(args)
	case "rr":
		return caRR(args)
	case "ra":
		return caRA(args)
	case "own":
		return caOwn(args)
	case "new":
		var opts []cache.Option
		if thr := atoi(args[1]); thr != 0 {
			opts = append(opts, cache.WithFutureThreshold(time.Duration(thr)))
		}
		c.ed = args[2] == "1"
		if !c.ed {
			opts = append(opts, cache.DisableEventDrivenEmulation())
		}
		if args[3] != "-" {
			var ex []string
			for _, e := range strings.Split(args[3], ",") {
				ex = append(ex, decStr(e))
			}
			opts = append(opts, cache.WithExcludedMeta(ex))
		}
		// the registration of the optional serverName metadata is package-level state of
		// `metadata` that outlives a cache: put it back to "not registered" first, so that
		// a cache created without a server name does not inherit it from an earlier sequence
		metadata.UnregisterServerNameMetadata()
		if len(args) > 4 && args[4] != "-" {
			opts = append(opts, cache.WithServerName(decStr(args[4])))
		}
		// the latency names an earlier cache registered are package-level state as well
		for _, name := range c.latNames {
			metadata.UnregisterIntValue(name)
		}
		c.latNames = nil
		if len(args) > 5 && args[5] != "-" {
			// <period>:<precision>:<w1>,<w2>,... in ns: cache.WithLatencyWindows / WithAvgLatencyPrecision
			f := strings.Split(args[5], ":")
			if len(f) == 3 {
				var ws []string
				if f[2] != "-" {
					for _, w := range strings.Split(f[2], ",") {
						ws = append(ws, time.Duration(atoi(w)).String())
					}
				}
				// an error (a window that is not a multiple of the period) leaves the option out, as
				// gnmi_collector's caller would have to; period 0 returns a nil option
				if o, err := cache.WithLatencyWindows(ws, time.Duration(atoi(f[0]))); err == nil && o != nil {
					opts = append(opts, o)
				}
				if p := atoi(f[1]); p != 0 {
					opts = append(opts, cache.WithAvgLatencyPrecision(time.Duration(p)))
				}
			}
		}
		c.c = cache.New(nil, opts...)
		for _, w := range c.c.LatencyWindows() {
			for _, typ := range []latency.StatType{latency.Avg, latency.Max, latency.Min} {
				c.latNames = append(c.latNames, latency.MetadataName(w, typ))
			}
		}
		c.c.SetClient(c.record)
		c.view = map[string]string{}
		c.pool = newPool()
		c.notis = map[string]*pb.Notification{}
		return "ok"
	case "add":
		if t := decStr(args[1]); c.c.HasTarget(t) {
			// Add of a name the cache already has replaces the target silently (no delete is announced): a history the
			// C03 simulation excludes (OkRun: adds of fresh names), so the replayed view forgets the target here too
			c.viewDelete([]string{t, "*"})
			c.viewDelete([]string{t})
		}
		c.c.Add(decStr(args[1]))
		return "ok"
	case "remove":
		scriptedNow = atoi(args[2])
		c.c.Remove(decStr(args[1]))
		return bracket(c.events)
	case "reset":
		scriptedNow = atoi(args[2])
		c.c.Reset(decStr(args[1]))
		return sortedBracket(c.events)
	case "sync":
		scriptedNow = atoi(args[2])
		c.c.Sync(decStr(args[1]))
		return bracket(c.events)
	case "connect":
		scriptedNow = atoi(args[2])
		c.c.Connect(decStr(args[1]))
		return bracket(c.events)
	case "connerr":
		scriptedNow = atoi(args[3])
		c.c.ConnectError(decStr(args[1]), fmt.Errorf("%s", decStr(args[2])))
		return bracket(c.events)
	case "upd", "updu": // updu: the model applies the notification's units one at a time (C03); here it is one call
		scriptedNow = atoi(args[1])
		n, ok := c.notis[args[2]]
		if !ok {
			n = parseNotiToken(args[2]).proto(c.pool)
			c.notis[args[2]] = n
		}
		before := proto.Clone(n)
		err := c.c.GnmiUpdate(n)
		res := "ok"
		switch {
		case err == cache.ErrStale:
			res = "stale"
		case err == cache.ErrFuture:
			res = "future"
		case err != nil:
			res = "err"
		}
		out := res + " " + renderGroupsGo(c.events)
		if !proto.Equal(before, n) {
			out += " caller-notification-mutated"
		}
		return out
	case "updmeta":
		scriptedNow = atoi(args[1])
		c.c.UpdateMetadata()
		return sortedBracket(c.events)
	case "updsize":
		c.c.UpdateSize()
		return "ok"
	case "serve":
		// every stored leaf is handed to a subscriber whose updates were coalesced: the real
		// subscribe.Server builds the response carrying the duplicate count from the stored notification.
		// The cache is not written to: what a leaf holds is still the accepted update (an identical
		// re-send afterwards is stale).  Found necessary by seeded change c02_seed11 (the response built
		// on a shallow copy: the count lands in the stored notification).
		dup, _ := strconv.Atoi(args[1])
		srv, err := subscribe.NewServer(c.c)
		if err != nil {
			return "bad-op"
		}
		var vals []interface{}
		c.c.Query("*", []string{"*"}, func(_ []string, _ *ctree.Leaf, v interface{}) error {
			vals = append(vals, v)
			return nil
		})
		for _, v := range vals {
			srv.MakeSubscribeResponse(v, uint32(dup))
		}
		return "ok"
	case "query":
		var out []string
		err := c.c.Query(decStr(args[1]), decPath(args[2]), func(p []string, l *ctree.Leaf, v interface{}) error {
			n, ok := v.(*pb.Notification)
			if !ok {
				out = append(out, "?non-notification")
				return nil
			}
			g := fromNoti(n)
			out = append(out, encStr(g.prefix.target)+encPath(p)+renderStored(g))
			return nil
		})
		if err != nil {
			return "err"
		}
		res := sortedBracket(out)
		if args[1] == "*" && args[2] == "." {
			// C03 monitor, independent of the model: the replayed feed equals the cache
			if m := c.viewMismatch(); m != "" {
				res += " feed-replay-differs:" + m
			}
		}
		return res
	case "has":
		return strconv.FormatBool(c.c.HasTarget(decStr(args[1])))
	case "meta":
		md, ok := c.c.Metadata()[decStr(args[1])]
		if !ok {
			return "none"
		}
		var out []string
		for name := range metadata.TargetIntValues {
			if v, err := md.GetInt(name); err == nil {
				out = append(out, name+"="+strconv.FormatInt(v, 10))
			}
		}
		for name := range metadata.TargetBoolValues {
			if v, err := md.GetBool(name); err == nil {
				out = append(out, name+"="+strconv.FormatBool(v))
			}
		}
		for name := range metadata.TargetStrValues {
			if v, err := md.GetStr(name); err == nil {
				out = append(out, name+"="+encStr(v))
			}
		}
		return sortedBracket(out)
	}
	return "bad-op"
}

func (c *caComp) viewMismatch() string {
	got := map[string]string{}
	c.c.Query("*", nil, func(p []string, l *ctree.Leaf, v interface{}) error {
		n, ok := v.(*pb.Notification)
		if !ok {
			return nil
		}
		g := fromNoti(n)
		idx := append([]string{g.prefix.target}, p...)
		got[encPath(idx)] = viewVal(g, c.ed)
		return nil
	})
	var diff []string
	for k, v := range got {
		if c.view[k] != v {
			diff = append(diff, k)
		}
	}
	for k := range c.view {
		if _, ok := got[k]; !ok {
			diff = append(diff, k)
		}
	}
	sort.Strings(diff)
	if len(diff) > 3 {
		diff = diff[:3]
	}
	return strings.Join(diff, ",")
}

// ---------------------------------------------------------------- generating

type caGen struct {
	r       *rand.Rand
	now     int64
	thr     int64
	targets []string
	leaves  []caLeaf         // path universe of this sequence
	lastTS  map[string]int64 // last timestamp sent per target+leaf index
	sent    []gNoti
	seq     []string
	atomicApart bool
	atLeaves []caLeaf // (su) leaves below which a subscription asked for a member of the atomic container
	org     string // the origin name of this sequence: "oc", or the collector's default "openconfig" (seeded change c06_seed7 special-cased it)
	allowPO bool // path-level origins allowed (outside the cache's stated contract: no replay monitor)
	sn      string // server name the cache is created with ("" = none; profile c14 only)
	lw      string // latency windows token of the `new` line ("" = none; profile c15 only)
	lwUnit  int64  // the update period of those windows: refreshes are paced by it
	pool    *pbPool // scratch protos for the json sizes on the op line (profile c15 only)
}

// jsonSizes: "<prefix>,<update 1>,..." = len(json.Marshal(m)) of the prefix and update messages of
// n as the cache will store them (-1: json.Marshal fails, e.g. a NaN float); Target.updateSize sums
// len(json.Marshal(notification)) over the stored leaves, and the driver frames these lengths
func (g *caGen) jsonSizes(n gNoti) string {
	if g.pool == nil {
		g.pool = newPool()
	}
	m := n.proto(g.pool)
	sz := func(v interface{}) string {
		b, err := json.Marshal(v)
		if err != nil {
			return "-1"
		}
		return strconv.Itoa(len(b))
	}
	out := []string{sz(m.GetPrefix())}
	for _, u := range m.GetUpdate() {
		out = append(out, sz(u))
	}
	return strings.Join(out, ",")
}

type caLeaf struct {
	origin string
	elems  []gElem
}

func (g *caGen) tick() int64 {
	g.now += int64(g.r.Intn(40))
	return g.now
}

func (g *caGen) emit(format string, a ...interface{}) { g.seq = append(g.seq, fmt.Sprintf(format, a...)) }

func elemsToElement(es []gElem) []string {
	var out []string
	for _, e := range es {
		out = append(out, e.name)
		ks := append([][2]string(nil), e.keys...)
		sort.Slice(ks, func(i, j int) bool { return ks[i][0] < ks[j][0] })
		for _, kv := range ks {
			out = append(out, kv[1])
		}
	}
	return out
}

// split a leaf's elements into prefix and path, in a random encoding
func (g *caGen) splitLeaf(target string, l caLeaf, cut int) (gPath, gPath) {
	r := g.r
	pre := gPath{target: target, origin: l.origin}
	var ph gPath
	a, b := l.elems[:cut], l.elems[cut:]
	// encodings: 0 both elem, 1 both element, 2/3 mixed
	switch enc := r.Intn(8); {
	case enc < 5:
		pre.elem, ph.elem = a, b
	case enc < 6:
		pre.element, ph.element = elemsToElement(a), elemsToElement(b)
	case enc < 7:
		pre.elem, ph.element = a, elemsToElement(b)
	default:
		pre.element, ph.elem = elemsToElement(a), b
	}
	return pre, ph
}

func (g *caGen) pickTS(key string) int64 {
	r := g.r
	old, ok := g.lastTS[key]
	if !ok {
		old = g.now - int64(r.Intn(30))
	}
	var ts int64
	switch x := r.Intn(20); {
	case x < 7:
		ts = old + 1 + int64(r.Intn(5))
	case x < 10:
		ts = old
	case x < 12:
		ts = old - 1 - int64(r.Intn(3))
	case x < 14:
		ts = g.now
	case x < 15:
		ts = g.now + g.thr
	case x < 17:
		ts = g.now + g.thr + 1 + int64(r.Intn(3))
	case x < 18:
		ts = old + g.thr
	case x < 19:
		ts = old + g.thr + 1
	default:
		ts = g.now + 1000000
	}
	if ts < 1 {
		ts = 1
	}
	return ts
}

func leafKey(target string, l caLeaf) string {
	return target + "|" + l.origin + "|" + strings.Join(elemsToElement(l.elems), "/")
}

func (g *caGen) genLeafUniverse() {
	r := g.r
	g.org = []string{"oc", "openconfig"}[r.Intn(2)]
	n := 4 + r.Intn(6)
	for i := 0; i < n; i++ {
		depth := 1 + r.Intn(3)
		var es []gElem
		for d := 0; d < depth; d++ {
			e := gElem{name: genNames[r.Intn(3)]}
			if r.Intn(6) == 0 {
				// input restriction (DESIGN C03): stored paths hold no element literally named
				// "*" (a delete announced for such a leaf is a wildcard at the subscriber)
				for e.name = genElemName(r); e.name == "*"; e.name = genElemName(r) {
				}
			}
			for k := r.Intn(5) - 2; k > 0; k-- {
				e.keys = append(e.keys, [2]string{[]string{"k", "j", "i"}[k%3], []string{"1", "2", "x/y", "10"}[r.Intn(4)]})
			}
			es = append(es, e)
		}
		origin := ""
		if r.Intn(3) == 0 {
			origin = g.org
		}
		if es[0].name == "" {
			// input restriction (DESIGN C03/C14): the first index element is non-empty. Reset
			// announces each top-level subtree with the root name in the *origin* field, and an
			// empty origin means "no origin".
			es[0].name = "e"
		}
		g.leaves = append(g.leaves, caLeaf{origin: origin, elems: es})
		if r.Intn(4) == 0 {
			// a sibling whose last element (or key value) merely *starts with* this one's text
			// (interface eth1 / eth10): distinct leaves that string-based shortcuts confuse
			sib := make([]gElem, len(es))
			copy(sib, es)
			last := sib[len(sib)-1]
			if len(last.keys) > 0 {
				last.keys = append([][2]string(nil), last.keys...)
				last.keys[len(last.keys)-1][1] += "0"
			} else if last.name != "" && last.name != "meta" {
				last.name += "1"
			}
			sib[len(sib)-1] = last
			g.leaves = append(g.leaves, caLeaf{origin: origin, elems: sib})
		}
	}
}

// bothZeroFloats: +0 and -0 of one float kind (equal for value.Equal, different bits)
func bothZeroFloats(a, b gVal) bool {
	if a.kind != b.kind || (a.kind != "d" && a.kind != "f") {
		return false
	}
	mask := uint64(1)<<63 - 1
	if a.kind == "f" {
		mask = uint64(1)<<31 - 1
	}
	return a.bits&mask == 0 && b.bits&mask == 0
}

func (g *caGen) target() string {
	if g.r.Intn(30) == 0 {
		return []string{"zz", "", "*"}[g.r.Intn(3)]
	}
	return g.targets[g.r.Intn(len(g.targets))]
}

func (g *caGen) genUpdate(target string) (gPath, gUpd, string) {
	r := g.r
	l := g.leaves[r.Intn(len(g.leaves))]
	cut := r.Intn(len(l.elems) + 1)
	pre, ph := g.splitLeaf(target, l, cut)
	if cut == len(l.elems) && r.Intn(2) == 0 {
		// the leaf is addressed by the prefix alone and the update carries no path field at all
		// (absent on the wire, a nil *pb.Path in the handler) rather than an empty one
		ph = gPath{isNil: true}
	}
	if g.allowPO && !ph.isNil && pre.origin == "" && r.Intn(6) == 0 {
		ph.origin = "po"
	}
	return pre, gUpd{path: ph, val: genVal(r)}, leafKey(target, l)
}

func (g *caGen) genDeletePath(target string) (gPath, gPath) {
	r := g.r
	l := g.leaves[r.Intn(len(g.leaves))]
	es := append([]gElem(nil), l.elems...)
	switch r.Intn(8) {
	case 0: // parent
		es = es[:r.Intn(len(es))]
	case 1: // glob one element
		es[r.Intn(len(es))] = gElem{name: "*"}
	case 2: // trailing glob(s)
		for k := 1 + r.Intn(2); k > 0; k-- {
			es = append(es, gElem{name: "*"})
		}
	case 3: // everything
		es = nil
		if r.Intn(2) == 0 {
			es = []gElem{{name: "*"}}
		}
	}
	cut := 0
	if len(es) > 0 {
		cut = r.Intn(len(es) + 1)
	}
	return g.splitLeaf(target, caLeaf{origin: l.origin, elems: es}, cut)
}

func (g *caGen) notiOp(n gNoti) {
	g.sent = append(g.sent, n)
	if genProfile == "c15" {
		g.emit("upd %d %s %s", g.now, n.token(), g.jsonSizes(n))
		return
	}
	g.emit("upd %d %s", g.now, n.token())
}

// profile-dependent remapping of the op selector: the default mix, or more weight on the
// malformed / metadata-addressed stream (c12), on lifecycle calls over several targets (c14),
// or on timestamp collisions of single updates and deletes (c02).
func (g *caGen) selector() int {
	r := g.r
	x := r.Intn(100)
	switch genProfile {
	case "c12":
		if r.Intn(3) == 0 {
			return 75 + r.Intn(7) // malformed
		}
	case "c14":
		if r.Intn(3) == 0 {
			return 82 + r.Intn(16) // lifecycle
		}
	case "c02":
		if r.Intn(3) == 0 {
			return r.Intn(50) // single updates and deletes
		}
		if r.Intn(12) == 0 {
			return 103 // the stored leaves served to a coalescing subscriber, then an identical re-send
		}
	case "c15":
		// latency wiring and UpdateSize: more sync marks (so that updates arrive before and after
		// them), refreshes, size computations, metadata-addressed updates (meta/sync true/false
		// written by the target included) and same-value re-sends (suppressed)
		switch r.Intn(12) {
		case 0:
			return 82 // sync
		case 1:
			return 95 // updmeta
		case 2:
			return 100 // updsize
		case 3:
			return 101 // meta/sync written by the target
		case 4:
			return 102 // re-send the last value of a leaf at a later timestamp (suppressed when event-driven)
		}
	}
	return x
}

func (g *caGen) step() {
	r := g.r
	g.tick()
	t := g.target()
	switch x := g.selector(); {
	case x == 100: // (c15) UpdateSize, then look at the metadata object
		g.emit("updsize")
		g.emit("meta %s", encStr(g.targets[r.Intn(len(g.targets))]))
	case x == 101: // (c15) the target writes meta/sync itself, alone or inside a multi-update notification
		v := gVal{kind: "b", b: r.Intn(3) != 0}
		mp := gPath{elem: []gElem{{name: "meta"}, {name: "sync"}}}
		n := gNoti{ts: g.now, prefix: gPath{target: t}, upd: []gUpd{{path: mp, val: v}}}
		if r.Intn(2) == 0 {
			l := g.leaves[r.Intn(len(g.leaves))]
			u := gUpd{path: gPath{elem: l.elems}, val: genVal(r)}
			if r.Intn(2) == 0 {
				n.upd = append(n.upd, u)
			} else {
				n.upd = append([]gUpd{u}, n.upd...)
			}
		}
		g.notiOp(n)
	case x == 103: // (c02) every leaf served with a duplicate count, then a notification sent before, unchanged
		g.emit("serve %d", 1+r.Intn(5))
		if len(g.sent) > 0 {
			g.notiOp(g.sent[len(g.sent)-1-r.Intn(min(len(g.sent), 3))])
		}
	case x == 102: // (c15) same value again, later timestamp
		var cand []gNoti
		for _, n := range g.sent {
			if len(n.upd) == 1 && len(n.del) == 0 && !n.atomic {
				cand = append(cand, n)
			}
		}
		if len(cand) > 0 {
			n := cand[r.Intn(len(cand))]
			n.ts = g.now - int64(r.Intn(5))
			if n.ts < 1 {
				n.ts = 1
			}
			g.notiOp(n)
		}
	case x < 38: // single update
		pre, u, key := g.genUpdate(t)
		ts := g.pickTS(key)
		g.lastTS[key] = ts
		g.notiOp(gNoti{ts: ts, prefix: pre, upd: []gUpd{u}})
	case x < 50: // single delete
		pre, d := g.genDeletePath(t)
		ts := g.now
		switch r.Intn(4) {
		case 0:
			ts = g.pickTS("del")
		case 1:
			// exactly at / around a stored timestamp
			if len(g.lastTS) > 0 { // a stored timestamp chosen by the PRNG (not by map iteration: same seed, same sequence)
				keys := make([]string, 0, len(g.lastTS))
				for k := range g.lastTS {
					keys = append(keys, k)
				}
				sort.Strings(keys)
				ts = g.lastTS[keys[r.Intn(len(keys))]] + int64(r.Intn(3)) - 1
			}
		}
		if ts < 1 {
			ts = 1
		}
		g.notiOp(gNoti{ts: ts, prefix: pre, del: []gPath{d}})
	case x < 62: // multi
		pre, u, key := g.genUpdate(t)
		ts := g.pickTS(key)
		g.lastTS[key] = ts
		n := gNoti{ts: ts, prefix: pre, upd: []gUpd{u}}
		for k := r.Intn(3); k > 0; k-- {
			// further updates under the same prefix: re-use the prefix elements
			l2 := g.leaves[r.Intn(len(g.leaves))]
			ph := gPath{}
			if r.Intn(3) == 0 {
				ph = u.path // duplicate path inside one notification
			} else if r.Intn(2) == 0 {
				ph.elem = l2.elems
			} else {
				ph.element = elemsToElement(l2.elems)
			}
			n.upd = append(n.upd, gUpd{path: ph, val: genVal(r)})
		}
		for k := r.Intn(3); k > 0; k-- {
			_, d := g.genDeletePath(t)
			n.del = append(n.del, d)
		}
		if len(n.upd)+len(n.del) < 2 {
			n.del = append(n.del, gPath{elem: []gElem{{name: "zz"}}})
		}
		if g.atomicApart {
			// (su) Two updates of one notification that write the same leaf with the same value in two
			// different renderings: the second is stored but withheld, and whether a subscriber's sender
			// reads the leaf before or after it is a race inside a single GnmiUpdate call.  Make the two
			// renderings identical, so that the race has no observable outcome.
			for i := 1; i < len(n.upd); i++ {
				for j := 0; j < i; j++ {
					if strings.Join(n.upd[i].path.elems(), "\x00") == strings.Join(n.upd[j].path.elems(), "\x00") &&
						(n.upd[i].val.token() == n.upd[j].val.token() || bothZeroFloats(n.upd[i].val, n.upd[j].val)) {
						n.upd[i] = n.upd[j]
					}
				}
			}
		}
		g.notiOp(n)
	case x < 70: // atomic
		l := g.leaves[r.Intn(len(g.leaves))]
		if len(g.atLeaves) > 0 && r.Intn(2) == 0 {
			l = g.atLeaves[r.Intn(len(g.atLeaves))]
		}
		if g.atomicApart {
			// containers never share an index with a plain leaf (su: a plain leaf replaced by a
			// container at the same index is offered by the container's inner paths)
			l = caLeaf{origin: l.origin, elems: append(append([]gElem(nil), l.elems...), gElem{name: "at"})}
		}
		pre, _ := g.splitLeaf(t, l, len(l.elems))
		key := leafKey(t, l)
		ts := g.pickTS(key)
		g.lastTS[key] = ts
		n := gNoti{ts: ts, prefix: pre, atomic: true}
		for k := r.Intn(4); k > 0; k-- {
			n.upd = append(n.upd, gUpd{path: gPath{elem: []gElem{{name: genNames[r.Intn(4)]}}}, val: genVal(r)})
		}
		if r.Intn(12) == 0 {
			n.del = append(n.del, gPath{elem: []gElem{{name: "a"}}})
		}
		g.notiOp(n)
	case x < 73: // re-send an earlier notification object unchanged
		if len(g.sent) > 0 {
			g.notiOp(g.sent[r.Intn(len(g.sent))])
		}
	case x < 75: // empty notification
		g.notiOp(gNoti{ts: g.now, prefix: gPath{target: t}})
	case x < 82: // malformed / metadata-addressed
		g.malformed(t)
	case x < 85:
		g.emit("sync %s %d", encStr(t), g.now)
	case x < 88:
		g.emit("connect %s %d", encStr(t), g.now)
	case x < 90:
		g.emit("connerr %s %s %d", encStr(t), encStr([]string{"boom", "x y", ""}[r.Intn(3)]), g.now)
	case x < 93:
		g.emit("reset %s %d", encStr(t), g.now)
		if g.sn != "" && r.Intn(2) == 0 {
			g.emit("meta %s", encStr(t))
			g.emit("query %s /meta/serverName", encStr(t))
		}
	case x < 95 && genProfile == "c14" && r.Intn(3) == 0 && t != "*" && t != "":
		// (c14) the target is added AGAIN without a Remove (the collector does so when a target is re-configured): a
		// fresh target replaces the old one for every call alike — the next lookups, updates, Reset and queries all
		// address the new one (seeded change c14_seed11: a remembered lookup surviving the re-Add)
		g.emit("add %s", encStr(t))
		g.emit("query %s .", encStr(t))
	case x < 95:
		if t == "*" || t == "" {
			t = "zz" // a whole-target delete for the wildcard/empty name would address every target
		}
		g.emit("remove %s %d", encStr(t), g.now)
		if r.Intn(3) != 0 {
			g.emit("add %s", encStr(t))
		}
	case x < 98:
		if g.lwUnit > 0 && r.Intn(3) != 0 {
			// refreshes paced by the update period, as the collector's ticker does (the windows only
			// publish once a full window of refreshes has gone by)
			g.now += g.lwUnit * int64(1+r.Intn(3))
		}
		g.emit("updmeta %d", g.now)
		if g.lwUnit > 0 && r.Intn(2) == 0 {
			g.emit("meta %s", encStr(g.targets[r.Intn(len(g.targets))]))
		}
	default:
		g.emit("has %s", encStr(t))
	}
	if r.Intn(3) == 0 {
		g.observe()
	}
}

func (g *caGen) malformed(t string) {
	r := g.r
	mk := func(names ...string) gPath {
		var p gPath
		for _, n := range names {
			p.elem = append(p.elem, gElem{name: n})
		}
		return p
	}
	ts := g.now - int64(r.Intn(3)) // metadata-addressed updates never lie in the future
	if ts < 1 {
		ts = 1
	}
	switch r.Intn(13) {
	case 0: // nil prefix
		g.notiOp(gNoti{ts: ts, prefix: gPath{isNil: true}, upd: []gUpd{{path: mk("a"), val: genVal(r)}}})
	case 1: // empty joined path
		g.notiOp(gNoti{ts: ts, prefix: gPath{target: t}, upd: []gUpd{{path: gPath{}, val: genVal(r)}}})
	case 2: // atomic with element-less prefix
		g.notiOp(gNoti{ts: ts, prefix: gPath{target: t}, atomic: true, upd: []gUpd{{path: mk("a"), val: genVal(r)}}})
	case 3: // meta alone
		g.notiOp(gNoti{ts: ts, prefix: gPath{target: t}, upd: []gUpd{{path: mk("meta"), val: genVal(r)}}})
	case 4: // delete of meta alone / everything / empty path
		g.notiOp(gNoti{ts: g.now, prefix: gPath{target: t}, del: []gPath{[]gPath{mk("meta"), {}, mk("*")}[r.Intn(3)]}})
	case 5, 6: // metadata path written by the target, right or wrong type
		names := []string{"sync", "connected", "connectedAddress", "connectError", "targetLeaves", "latestTimestamp", "bogus"}
		if g.sn != "" {
			names = append(names, "serverName")
		}
		name := names[r.Intn(len(names))]
		g.notiOp(gNoti{ts: ts, prefix: gPath{target: t}, upd: []gUpd{{path: mk("meta", name), val: genVal(r)}}})
	case 7: // metadata value with the right type
		name := []string{"sync", "connected"}[r.Intn(2)]
		g.notiOp(gNoti{ts: ts, prefix: gPath{target: t}, upd: []gUpd{{path: mk("meta", name), val: gVal{kind: "b", b: r.Intn(2) == 0}}}})
	case 8: // meta in the prefix, deprecated encoding
		g.notiOp(gNoti{ts: ts, prefix: gPath{target: t, element: []string{"meta"}}, upd: []gUpd{{path: gPath{element: []string{"connectedAddress"}}, val: gVal{kind: "s", s: "1.2.3.4"}}}})
	case 9: // deeper than a metadata leaf
		g.notiOp(gNoti{ts: ts, prefix: gPath{target: t}, upd: []gUpd{{path: mk("meta", "sync", "x"), val: gVal{kind: "b", b: true}}}})
	case 10: // delete of a metadata leaf
		names := []string{"sync", "connected", "connectError", "targetLeaves", "bogus"}
		if g.sn != "" {
			names = append(names, "serverName")
		}
		name := names[r.Intn(len(names))]
		g.notiOp(gNoti{ts: g.now, prefix: gPath{target: t}, del: []gPath{mk("meta", name)}})
	case 11: // update without value on a data leaf
		pre, u, _ := g.genUpdate(t)
		u.val = gVal{kind: "absent"}
		g.notiOp(gNoti{ts: g.now, prefix: pre, upd: []gUpd{u}})
	default: // origin conflict: origin both in prefix and path (index ignores the latter)
		pre, u, _ := g.genUpdate(t)
		if g.allowPO && !u.path.isNil {
			u.path.origin = "po"
		}
		g.notiOp(gNoti{ts: g.now, prefix: pre, upd: []gUpd{u}})
	}
}

func (g *caGen) observe() {
	r := g.r
	t := g.targets[r.Intn(len(g.targets))]
	k := r.Intn(5)
	if g.allowPO && k < 2 {
		k = 2
	}
	switch k {
	case 0, 1:
		g.emit("query * .")
	case 2:
		g.emit("query %s .", encStr(t))
	case 3:
		g.emit("meta %s", encStr(t))
	default:
		l := g.leaves[r.Intn(len(g.leaves))]
		q := elemsToElement(l.elems)
		if l.origin != "" {
			q = append([]string{l.origin}, q...)
		}
		if len(q) > 0 && r.Intn(2) == 0 {
			q[r.Intn(len(q))] = "*"
		}
		g.emit("query %s %s", encStr(g.target()), encPath(q))
	}
}

func (c *caComp) Gen(r *rand.Rand, tier string) []string {
	g := &caGen{r: r, now: 1000 + int64(r.Intn(1000)), lastTS: map[string]int64{}}
	g.thr = []int64{0, 0, 50, 500}[r.Intn(4)]
	ed := "1"
	if r.Intn(3) == 0 {
		ed = "0"
	}
	excl := "-"
	if r.Intn(6) == 0 {
		excl = []string{"sync", "connected", "targetLeaves,latestTimestamp"}[r.Intn(3)]
	}
	g.allowPO = r.Intn(5) == 0
	if genProfile == "c14" {
		// (C14) sometimes a cache created WithServerName: the serverName string metadata is
		// registered with ResetAction Keep and must survive Reset.  The choice is on the `new`
		// line; the extra draws are made for this profile only, so the sequences of the other
		// profiles are what they were.
		switch r.Intn(5) {
		case 0, 1:
			g.sn = "srv1"
		case 2:
			g.sn = "x y"
		}
		if g.sn != "" && excl == "-" && r.Intn(8) == 0 {
			excl = "serverName"
		}
	}
	if genProfile == "c15" {
		// (C15) two sequences in three: a cache created WithLatencyWindows (1-3 windows, multiples of
		// the update period; now and then one that is not - the option then fails and is left out -, a
		// duplicate, period 0 = disabled) and sometimes WithAvgLatencyPrecision.  The extra draws are
		// made for this profile only.
		if r.Intn(3) != 0 {
			period := []int64{10, 20, 50}[r.Intn(3)]
			var ws []string
			for k := 1 + r.Intn(3); k > 0; k-- {
				ws = append(ws, strconv.FormatInt(period*int64(1+r.Intn(6)), 10))
			}
			switch r.Intn(12) {
			case 0:
				ws = append(ws, strconv.FormatInt(period+1, 10)) // not a multiple
			case 1:
				ws = append(ws, ws[0]) // the same window twice
			case 2:
				period = 0
			}
			prec := []int64{0, 0, 1, 4, 1000}[r.Intn(5)]
			g.lw = fmt.Sprintf("%d:%d:%s", period, prec, strings.Join(ws, ","))
			g.lwUnit = period
			if excl == "-" && r.Intn(8) == 0 {
				excl = "sync"
				if len(ws) > 0 {
					w, _ := strconv.ParseInt(ws[0], 10, 64)
					excl = latency.MetadataName(time.Duration(w), latency.Max)
				}
			}
		}
	}
	if g.lw != "" {
		g.emit("new %d %s %s - %s", g.thr, ed, excl, g.lw)
	} else if g.sn != "" {
		g.emit("new %d %s %s %s", g.thr, ed, excl, encStr(g.sn))
	} else {
		g.emit("new %d %s %s", g.thr, ed, excl)
	}
	nt := 1 + r.Intn(3)
	for i := 0; i < nt; i++ {
		t := []string{"t1", "t2", "dev/3"}[i]
		g.targets = append(g.targets, t)
		g.emit("add %s", encStr(t))
	}
	g.genLeafUniverse()
	n := 8 + r.Intn(40)
	for i := 0; i < n; i++ {
		g.step()
	}
	if genProfile == "c15" {
		g.emit("updsize")
	}
	g.emit("updmeta %d", g.tick())
	for _, t := range g.targets {
		g.emit("meta %s", encStr(t))
	}
	if g.allowPO {
		// path-level origins make the announced delete path differ from the index by design
		// (outside the cache's contract): observe the content without the replay monitor
		for _, t := range g.targets {
			g.emit("query %s .", encStr(t))
		}
	} else {
		g.emit("query * .")
	}
	return g.seq
}

func (c *caComp) Exhaustive(tier string) [][]string { return nil }
