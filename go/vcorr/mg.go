package main

// mg: the REAL manager.Manager driven by scripted collaborators.
//
//   * ConnectionManager  -> per-attempt *grpc.ClientConn over a bufconn link to an in-process,
//                           scripted gNMI server (genuine gRPC client, cancellation and Recv
//                           semantics; manager.subscribeClient is NOT replaced);
//   * CredentialsClient  -> scripted Lookup (first call of every attempt: the attempt gate);
//   * Config callbacks   -> append to a per-target trace.
//
// One `run` line is one whole scenario (see lean/Driver/MG.lean for the grammar, which both
// sides parse):
//
//   run  <target> [/ <target>]          target  = T<0..3> P<probe flags|-> <attempt>*
//   runc <target> [/ <target>]          the same scenario with the REAL connection.Manager (scripted Dial)
//                                       as the manager's ConnectionManager (mg_conn.go)
//             T digit: bit 0 = the target has a receive timeout, bit 1 = the target has two next hops
//             (in even attempts the first Connection call fails and the second follows the script; in odd
//             attempts the first one does)
//   attempt = M | D | O | S | R<msgs><end>   followed by an optional injection  +<act><where>[A]
//             msgs over {u,s,e,n} (update, sync, error response, nil response), end ! (error
//             status) . (EOF) ~ (silence);  act = k (Reconnect) | x (Remove);  where = m (while
//             the attempt is in the credentials lookup) | d (while it is dialling: the dial then fails
//             with the cancellation) | s (while it is dialling and the dial then SUCCEEDS: Connection
//             returns err == nil although its context is cancelled; attempts O, S, R only) | <j> (after
//             the client has processed j messages of the stream) | b (right after the attempt,
//             during backoff: inherently racy);  A = Add the target again after the Remove.
//
// A script that contains no Remove gets one when the attempt after the last scripted one starts.
// Progress is gated by the script, not by the clock: API calls are injected while the monitor
// goroutine is parked inside a collaborator (or waiting for a silent server), hence the callback
// trace is a function of the script.  Anything that cannot be made so (`b` injections, re-Add:
// the old monitor's deferred Reconnect may hit the new instance) is checked by the monitors only
// and the trace is not printed (`tr=?`).
//
// Observation per target:  tr=<trace before Remove was called>|<drain> ret=<API return classes>
// acc=<discipline automaton accepted the raw trace> quiet=<no callback after Remove returned>
// acq=<connections acquired> leak= twice= uad= (the ledger of mg_conn.go; `runc` adds ` # cm= open=`).
// Letters: C connect, U<j> update (j = position of the message in its stream), S sync, R reset,
// E connectError, M monitorError.  In the drain, trailing "E,M" pairs are dropped (after the
// target context is cancelled the select in retryMonitor may take the timer arm any number of
// times: each such attempt fails with E,M).

import (
	"context"
	"errors"
	"flag"
	"fmt"
	"math/rand"
	"net"
	"strconv"
	"strings"
	"sync"
	"time"

	"google.golang.org/grpc"
	"google.golang.org/grpc/codes"
	"google.golang.org/grpc/connectivity"
	"google.golang.org/grpc/credentials/insecure"
	"google.golang.org/grpc/metadata"
	"google.golang.org/grpc/status"
	"google.golang.org/grpc/test/bufconn"

	"github.com/openconfig/gnmi/connection"
	"github.com/openconfig/gnmi/manager"
	gpb "github.com/openconfig/gnmi/proto/gnmi"
	tpb "github.com/openconfig/gnmi/proto/target"
)

const (
	mgAtMeta    = -1
	mgAtDial    = -2
	mgAtBackoff = -3
	mgAtDialOK  = -4

	mgRecvTimeout = 60 * time.Millisecond
	mgGraceRun    = 2 * time.Millisecond  // after each scenario
	mgGraceEnd    = 50 * time.Millisecond // `end`: since the last Remove of the sequence returned
)

var mgDeadline = scaled(5 * time.Second)

type mgAttempt struct {
	kind   byte   // M D O S R
	msgs   string // R: letters u s e n
	end    byte   // R: ! . ~
	injAct byte   // 0 | k | x
	injAt  int    // mgAtMeta | mgAtDial | mgAtBackoff | j >= 0
	injCb  bool   // `c<j>`: Reconnect is called from inside the Update callback of message j
	readd  bool
}

type mgTargetSpec struct {
	rt       bool
	hops2    bool
	probes   string
	attempts []mgAttempt
}

func mgParseAttempt(tok string) (a mgAttempt, err error) {
	body, inj, hasInj := strings.Cut(tok, "+")
	if body == "" {
		return a, errors.New("empty attempt")
	}
	a.kind = body[0]
	switch a.kind {
	case 'M', 'D', 'O', 'S':
		if len(body) != 1 {
			return a, errors.New("bad attempt")
		}
	case 'R':
		if len(body) < 2 {
			return a, errors.New("bad stream")
		}
		a.msgs, a.end = body[1:len(body)-1], body[len(body)-1]
		if strings.Trim(a.msgs, "usen") != "" || !strings.ContainsRune("!.~", rune(a.end)) {
			return a, errors.New("bad stream")
		}
	default:
		return a, errors.New("bad attempt kind")
	}
	if hasInj {
		if strings.HasSuffix(inj, "A") {
			a.readd = true
			inj = inj[:len(inj)-1]
		}
		if len(inj) < 2 || (inj[0] != 'k' && inj[0] != 'x') {
			return a, errors.New("bad injection")
		}
		a.injAct = inj[0]
		switch w := inj[1:]; w {
		case "m":
			a.injAt = mgAtMeta
		case "d":
			a.injAt = mgAtDial
		case "b":
			a.injAt = mgAtBackoff
		case "s":
			if a.kind != 'O' && a.kind != 'S' && a.kind != 'R' {
				return a, errors.New("s needs a dial that succeeds")
			}
			a.injAt = mgAtDialOK
		default:
			if strings.HasPrefix(w, "c") {
				// from inside the Update callback of message j (the monitor goroutine is not in Recv)
				w = w[1:]
				a.injCb = true
				if a.injAct != 'k' {
					return a, errors.New("c needs k")
				}
			}
			j, e := strconv.Atoi(w)
			if e != nil || j < 0 {
				return a, errors.New("bad injection point")
			}
			if a.injCb && (a.kind != 'R' || j >= len(a.msgs) || a.msgs[j] != 'u') {
				return a, errors.New("c<j> needs an update at j")
			}
			a.injAt = j
		}
		if a.readd && a.injAct != 'x' {
			return a, errors.New("A without x")
		}
	}
	return a, nil
}

func mgParseTargets(args []string) ([]mgTargetSpec, error) {
	var out []mgTargetSpec
	cur := []string{}
	flush := func() error {
		if len(cur) < 2 || len(cur[0]) != 2 || cur[0][0] != 'T' || cur[1] == "" || cur[1][0] != 'P' {
			return errors.New("bad target header")
		}
		t := mgTargetSpec{rt: cur[0][1] == '1' || cur[0][1] == '3', hops2: cur[0][1] == '2' || cur[0][1] == '3',
			probes: strings.Trim(cur[1][1:], "-")}
		for _, tok := range cur[2:] {
			a, err := mgParseAttempt(tok)
			if err != nil {
				return err
			}
			t.attempts = append(t.attempts, a)
		}
		out = append(out, t)
		cur = cur[:0]
		return nil
	}
	for _, a := range args {
		if a == "/" {
			if err := flush(); err != nil {
				return nil, err
			}
			continue
		}
		cur = append(cur, a)
	}
	if err := flush(); err != nil {
		return nil, err
	}
	return out, nil
}

// ---------------------------------------------------------------- one scenario

type mgScenario struct {
	m    *manager.Manager
	srv  *grpc.Server
	lis  *bufconn.Listener
	envs map[string]*mgEnv
	gpb.UnimplementedGNMIServer

	acct   mgAcct              // every successful Connection return and the calls of its done
	real   *connection.Manager // `runc`: the manager under test is wired to the real connection.Manager
	dmu    sync.Mutex
	dialed []*grpc.ClientConn // every connection the scripted dial created
}

type mgEnv struct {
	sc   *mgScenario
	name string
	spec mgTargetSpec

	mu             sync.Mutex
	cond           *sync.Cond
	events         []string
	att            int // attempts started so far (incremented by Lookup)
	segUS          int // update/sync callbacks since the current attempt started
	segC           bool
	streamIdx      int          // attempt whose stream the scripted server is serving
	cbFired        map[int]bool // attempts whose in-callback injection was made
	removeIssued   bool
	removeCalledAt int // len(events) when Remove was called, -1 before
	removed        bool
	removedAt      time.Time
	late           int
	rets           []byte
	racy           bool
	stuck          bool
	pendingReadd   bool
	removeDone     chan struct{}
	ready          chan struct{} // closed once the API caller is past Add (and the duplicate Add)
	hopAtt         int          // two next hops: the attempt whose first Connection call was failed already
	tDial, tLastCb time.Time // receive-timeout targets: end of Connection / last C,U,S callback
	disturbed      bool      // the harness itself was too slow for the receive timeout: re-run
}

func mgCls(err error) byte {
	if err != nil {
		return 'e'
	}
	return 'o'
}

func (e *mgEnv) addRet(err error) {
	e.mu.Lock()
	e.rets = append(e.rets, mgCls(err))
	e.mu.Unlock()
}

func (e *mgEnv) record(ev string) {
	e.mu.Lock()
	slow := e.removeIssued && (ev == "E" || ev == "R")
	e.mu.Unlock()
	if slow {
		// a slow user callback while the target is being removed: Remove must wait for it
		time.Sleep(300 * time.Microsecond)
	}
	e.mu.Lock()
	if e.removed {
		e.late++
	}
	e.events = append(e.events, ev)
	switch ev[0] {
	case 'C':
		e.segC = true
		e.tLastCb = time.Now()
	case 'U', 'S':
		e.segUS++
		e.tLastCb = time.Now()
	case 'M':
		// Timeouts are deadlines, never observations: when the messages of a stream of a target
		// with a receive timeout were not all processed well within the timeout, the machine was
		// too slow for this scenario (or the code is wrong: the re-run tells).
		if a, ok := e.attempt(e.att - 1); ok && e.spec.rt && a.kind == 'R' && a.msgs != "" && a.injAct == 0 && !e.tDial.IsZero() {
			if e.tLastCb.Before(e.tDial) || e.tLastCb.Sub(e.tDial) > mgRecvTimeout/2 {
				e.disturbed = true
			}
		}
		e.tDial = time.Time{}
	}
	e.cond.Broadcast()
	e.mu.Unlock()
}

func (e *mgEnv) attempt(idx int) (mgAttempt, bool) {
	if idx < 0 || idx >= len(e.spec.attempts) {
		return mgAttempt{}, false
	}
	return e.spec.attempts[idx], true
}

// waitProcessed blocks until the client has made the callbacks of the first j messages.
func (e *mgEnv) waitProcessed(msgs string, j int) {
	want := 0
	for _, c := range msgs[:j] {
		if c == 'u' || c == 's' {
			want++
		}
	}
	t := time.AfterFunc(mgDeadline, func() { e.mu.Lock(); e.stuck = true; e.cond.Broadcast(); e.mu.Unlock() })
	defer t.Stop()
	e.mu.Lock()
	for !e.stuck && !(e.segUS >= want && (j == 0 || e.segC)) {
		e.cond.Wait()
	}
	e.mu.Unlock()
}

func (e *mgEnv) callRemove(readd bool) {
	e.mu.Lock()
	if e.removeIssued {
		e.mu.Unlock()
		return
	}
	e.removeIssued = true
	e.removeCalledAt = len(e.events)
	e.pendingReadd = readd
	done := e.removeDone
	e.mu.Unlock()
	err := e.sc.m.Remove(e.name)
	e.mu.Lock()
	e.removed = true
	e.removedAt = time.Now()
	e.rets = append(e.rets, mgCls(err))
	e.mu.Unlock()
	close(done)
}

// inject performs the scripted API call from a goroutine of its own (Remove issued from the
// monitor goroutine itself would wait for itself) while the caller is parked.
func (e *mgEnv) inject(ctx context.Context, a mgAttempt) {
	done := make(chan struct{})
	go func() {
		defer close(done)
		switch a.injAct {
		case 'k':
			e.addRet(e.sc.m.Reconnect(e.name))
		case 'x':
			e.callRemove(a.readd)
		}
	}()
	// (Manager.Remove holds the manager's lock while it waits for the monitor goroutine: a collaborator
	// that waited unconditionally for an API call needing that lock would close a cycle of the harness's
	// own making when a Remove of an earlier racy injection is still in flight)
	select {
	case <-done:
	case <-ctx.Done():
		// Reconnect cancels this very context before it returns: give the call a moment to finish
		// (and record its result) before the attempt goes on
		if a.injAct == 'k' {
			select {
			case <-done:
			case <-time.After(50 * time.Millisecond):
			}
		}
	}
}

// Lookup implements manager.CredentialsClient: the first call of every attempt.
func (sc *mgScenario) Lookup(ctx context.Context, key string) (string, error) {
	e := sc.envs[key]
	e.mu.Lock()
	ready := e.ready
	e.mu.Unlock()
	select {
	case <-ready:
	case <-ctx.Done():
	}
	e.mu.Lock()
	idx := e.att
	e.att++
	e.segUS, e.segC = 0, false
	e.mu.Unlock()
	a, ok := e.attempt(idx)
	if !ok {
		// the script is over: Remove (unless one is under way)
		e.inject(ctx, mgAttempt{injAct: 'x'})
		<-ctx.Done()
		return "", ctx.Err()
	}
	if a.injAct != 0 && a.injAt == mgAtMeta {
		e.inject(ctx, a)
	}
	if a.kind == 'M' {
		return "", errors.New("scripted credentials failure")
	}
	return "pw", nil
}

func (sc *mgScenario) dial(idx int, opts ...grpc.DialOption) (*grpc.ClientConn, error) {
	opts = append(opts,
		grpc.WithContextDialer(func(ctx context.Context, _ string) (net.Conn, error) { return sc.lis.DialContext(ctx) }),
		grpc.WithTransportCredentials(insecure.NewCredentials()),
		grpc.WithStreamInterceptor(func(ctx context.Context, desc *grpc.StreamDesc, cc *grpc.ClientConn, method string,
			streamer grpc.Streamer, o ...grpc.CallOption) (grpc.ClientStream, error) {
			sc.acct.streamOpened(mgTargetOf(ctx), cc)
			return streamer(metadata.AppendToOutgoingContext(ctx, "mg-attempt", strconv.Itoa(idx)), desc, cc, method, o...)
		}))
	conn, err := grpc.NewClient("passthrough:///bufnet", opts...)
	if err == nil {
		sc.dmu.Lock()
		sc.dialed = append(sc.dialed, conn)
		sc.dmu.Unlock()
	}
	return conn, err
}

// Connection implements manager.ConnectionManager: the ledger (mg_conn.go) in front of either the
// harness's own scripted connections (done closes the connection) or the real connection.Manager,
// whose Dial function is the same script.
func (sc *mgScenario) Connection(ctx context.Context, addr, dialer string) (*grpc.ClientConn, func(), error) {
	var conn *grpc.ClientConn
	var done func()
	var err error
	if sc.real != nil {
		conn, done, err = sc.real.Connection(ctx, addr, dialer)
	} else if conn, err = sc.scriptDial(ctx, addr); err == nil {
		c := conn
		done = func() { c.Close() }
	}
	if err != nil {
		if done == nil {
			done = func() {}
		}
		return nil, done, err
	}
	return conn, sc.acct.acquire(mgTargetOf(ctx), conn, done), nil
}

// scriptDial is the scripted dial of the current attempt of the target named in ctx; it is also the
// connection.Dial of `runc` scenarios (there it runs on connection.Manager's dial goroutine while
// Connection waits for it).
func (sc *mgScenario) scriptDial(ctx context.Context, _ string, _ ...grpc.DialOption) (*grpc.ClientConn, error) {
	e := sc.envs[mgTargetOf(ctx)]
	if e == nil {
		return nil, errors.New("harness: no target metadata")
	}
	e.mu.Lock()
	idx := e.att - 1
	// two next hops: in even attempts the first one tried is unreachable and createConn goes on to the other;
	// in odd attempts the first one tried answers (createConn must stop there: one acquisition per attempt)
	firstHop := e.spec.hops2 && e.hopAtt != idx && idx%2 == 0
	if firstHop {
		e.hopAtt = idx
	}
	e.mu.Unlock()
	a, ok := e.attempt(idx)
	if !ok {
		return nil, errors.New("harness: attempt beyond the script")
	}
	if firstHop {
		// the first next hop of the attempt is unreachable: createConn goes on to the second one
		return nil, errors.New("scripted next hop failure")
	}
	if a.injAct != 0 && a.injAt == mgAtDial {
		e.inject(ctx, a)
	}
	if err := ctx.Err(); err != nil {
		return nil, err
	}
	var conn *grpc.ClientConn
	var err error
	switch a.kind {
	case 'D':
		return nil, errors.New("scripted dial failure")
	case 'O':
		if conn, err = sc.dial(idx); err == nil {
			conn.Close() // opening a stream on it fails
		}
	case 'S':
		// the subscription request does not fit: Send fails
		conn, err = sc.dial(idx, grpc.WithDefaultCallOptions(grpc.MaxCallSendMsgSize(1)))
	default:
		if conn, err = sc.dial(idx); err == nil {
			e.mu.Lock()
			e.tDial = time.Now()
			e.mu.Unlock()
		}
	}
	if err != nil {
		return nil, err
	}
	if a.injAct != 0 && a.injAt == mgAtDialOK {
		// Reconnect / Remove while the dial is in flight, and the dial succeeds all the same: the
		// caller gets err == nil on a context that is cancelled by now (connection.Manager.Connection
		// does not look at its context once it waits for the dial; a non-blocking grpc dial does not fail)
		e.inject(ctx, a)
	}
	return conn, nil
}

func mgResponse(kind byte, j int) *gpb.SubscribeResponse {
	switch kind {
	case 'u':
		return &gpb.SubscribeResponse{Response: &gpb.SubscribeResponse_Update{Update: &gpb.Notification{
			Timestamp: int64(j),
			Update: []*gpb.Update{{Path: &gpb.Path{Elem: []*gpb.PathElem{{Name: "a"}}},
				Val: &gpb.TypedValue{Value: &gpb.TypedValue_IntVal{IntVal: int64(j)}}}}}}}
	case 's':
		return &gpb.SubscribeResponse{Response: &gpb.SubscribeResponse_SyncResponse{SyncResponse: true}}
	case 'e':
		return &gpb.SubscribeResponse{Response: &gpb.SubscribeResponse_Error{Error: &gpb.Error{Code: 3, Message: "scripted"}}}
	}
	return &gpb.SubscribeResponse{} // Response == nil
}

// Subscribe is the scripted gNMI server.
func (sc *mgScenario) Subscribe(stream gpb.GNMI_SubscribeServer) error {
	ctx := stream.Context()
	req, err := stream.Recv()
	if err != nil {
		return err
	}
	e := sc.envs[req.GetSubscribe().GetPrefix().GetTarget()]
	md, _ := metadata.FromIncomingContext(ctx)
	if e == nil || len(md.Get("mg-attempt")) != 1 {
		return status.Error(codes.InvalidArgument, "harness: unknown target")
	}
	idx, _ := strconv.Atoi(md.Get("mg-attempt")[0])
	a, ok := e.attempt(idx)
	if !ok || a.kind != 'R' {
		<-ctx.Done()
		return ctx.Err()
	}
	e.mu.Lock()
	e.streamIdx = idx
	e.mu.Unlock()
	for j := 0; j <= len(a.msgs); j++ {
		if a.injCb {
			if j == a.injAt+1 {
				// the callback of message j-1 calls Reconnect: the stream ends by cancellation
				<-ctx.Done()
				return ctx.Err()
			}
		} else if a.injAct != 0 && a.injAt == j {
			e.waitProcessed(a.msgs, j)
			e.inject(ctx, a)
			<-ctx.Done()
			return ctx.Err()
		}
		if j < len(a.msgs) {
			resp := mgResponse(a.msgs[j], j)
			if u := resp.GetUpdate(); u != nil && j%2 == 1 {
				// A device need not echo the name it is managed under: every other update names ANOTHER
				// target in its prefix (a managed one when there is one).  Callbacks are attributed to the
				// stream's own target whatever the message says (seeded change c13_seed9 took the name for
				// the Update callback from the prefix: a callback outside that target's session, and after
				// its Remove).
				other := "ghost"
				for name := range sc.envs {
					if name != e.name && (other == "ghost" || name < other) {
						other = name
					}
				}
				u.Prefix = &gpb.Path{Target: other}
			}
			if err := stream.Send(resp); err != nil {
				return err
			}
		}
	}
	switch a.end {
	case '!':
		return status.Error(codes.Unavailable, "scripted stream error")
	case '.':
		return nil
	}
	<-ctx.Done()
	return ctx.Err()
}

func (e *mgEnv) target() *tpb.Target {
	addrs := []string{e.name + "-hop0:1"}
	if e.spec.hops2 {
		addrs = append(addrs, e.name+"-hop1:1")
	}
	t := &tpb.Target{
		Addresses:   addrs,
		Credentials: &tpb.Credentials{Username: "u", PasswordId: e.name},
	}
	if e.spec.rt {
		t.Meta = map[string]string{"receive_timeout": mgRecvTimeout.String()}
	}
	return t
}

func mgRequest() *gpb.SubscribeRequest {
	return &gpb.SubscribeRequest{Request: &gpb.SubscribeRequest_Subscribe{Subscribe: &gpb.SubscriptionList{
		Subscription: []*gpb.Subscription{{Path: &gpb.Path{Elem: []*gpb.PathElem{{Name: "a"}}}}}}}}
}

func (e *mgEnv) probe(f byte) {
	m := e.sc.m
	switch f {
	case 'c', 'C':
		e.addRet(m.Reconnect(e.name))
	case 'r', 'R':
		e.addRet(m.Remove(e.name))
	case 'a':
		e.addRet(m.Add(e.name, e.target(), mgRequest()))
	case 'e':
		e.addRet(m.Add("", e.target(), mgRequest()))
	case 'n':
		e.addRet(m.Add(e.name, e.target(), nil))
	case 'z':
		t := e.target()
		t.Addresses = nil
		e.addRet(m.Add(e.name, t, mgRequest()))
	}
}

// flow is the API caller of one target: probes, Add, wait for the scripted Remove, probes.
func (e *mgEnv) flow(deadline <-chan struct{}) {
	for _, f := range e.spec.probes {
		if strings.ContainsRune("crenz", f) {
			e.probe(byte(f))
		}
	}
	for {
		e.mu.Lock()
		done := e.removeDone
		ready := make(chan struct{})
		e.ready = ready
		e.mu.Unlock()
		e.addRet(e.sc.m.Add(e.name, e.target(), mgRequest()))
		if strings.ContainsRune(e.spec.probes, 'a') {
			e.probe('a')
		}
		close(ready) // the first attempt may proceed
		select {
		case <-done:
		case <-deadline:
			e.mu.Lock()
			e.stuck = true
			e.mu.Unlock()
			return
		}
		e.mu.Lock()
		again := e.pendingReadd
		if again {
			e.pendingReadd, e.removed, e.removeIssued = false, false, false
			e.removeDone = make(chan struct{})
		}
		e.mu.Unlock()
		if !again {
			break
		}
	}
	for _, f := range e.spec.probes {
		if strings.ContainsRune("RC", f) {
			e.probe(byte(f))
		}
	}
}

// mgAccepts is the discipline automaton of Spec/Session.lean (plus: update positions increase
// within a session).
func mgAccepts(evs []string) bool {
	live := false
	last := -1
	for _, ev := range evs {
		switch ev[0] {
		case 'C':
			if live {
				return false
			}
			live, last = true, -1
		case 'U':
			j, _ := strconv.Atoi(ev[1:])
			if !live || j <= last {
				return false
			}
			last = j
		case 'S':
			if !live {
				return false
			}
		case 'R':
			live = false
		case 'E', 'M':
			if live {
				return false
			}
		default:
			return false
		}
	}
	return true
}

func mgStripEM(evs []string) []string {
	for len(evs) >= 2 && evs[len(evs)-2] == "E" && evs[len(evs)-1] == "M" {
		evs = evs[:len(evs)-2]
	}
	return evs
}

func (e *mgEnv) observation() string {
	e.mu.Lock()
	defer e.mu.Unlock()
	if e.stuck {
		return "stuck"
	}
	tr, rets := "?", "?"
	if !e.racy {
		rets = string(e.rets)
	}
	if !e.racy && e.removeCalledAt >= 0 && e.removeCalledAt <= len(e.events) {
		tr = strings.Join(e.events[:e.removeCalledAt], ",") + "|" + strings.Join(mgStripEM(e.events[e.removeCalledAt:]), ",")
	}
	acq, leak, twice, uad := e.sc.acct.counts(e.name)
	acqs := "?"
	if !e.racy {
		acqs = strconv.Itoa(acq)
	}
	return fmt.Sprintf("tr=%s ret=%s acc=%s quiet=%s acq=%s leak=%d twice=%d uad=%d", tr, rets, b01(mgAccepts(e.events)),
		b01(e.late == 0), acqs, leak, twice, uad)
}

func mgNewScenario(specs []mgTargetSpec, real bool) (*mgScenario, error) {
	sc := &mgScenario{envs: map[string]*mgEnv{}, lis: bufconn.Listen(1 << 20)}
	if real {
		cm, err := connection.NewManagerCustom(map[string]connection.Dial{connection.DEFAULT: sc.scriptDial})
		if err != nil {
			return nil, err
		}
		sc.real = cm
	}
	cb := func(ev string) func(string) {
		return func(name string) {
			if e := sc.envs[name]; e != nil {
				e.record(ev)
			}
		}
	}
	cbe := func(ev string) func(string, error) {
		return func(name string, _ error) {
			if e := sc.envs[name]; e != nil {
				e.record(ev)
			}
		}
	}
	m, err := manager.NewManager(manager.Config{
		Connect:      cb("C"),
		Reset:        cb("R"),
		Sync:         cb("S"),
		ConnectError: cbe("E"),
		MonitorError: func(name string, _ error) {
			if e := sc.envs[name]; e != nil {
				e.record("M")
				sc.backoffHook(name)
			}
		},
		Credentials:       sc,
		ConnectionManager: sc,
		Update: func(name string, n *gpb.Notification) {
			if e := sc.envs[name]; e != nil {
				e.record("U" + strconv.FormatInt(n.GetTimestamp(), 10))
				e.mu.Lock()
				a, ok := e.attempt(e.streamIdx)
				fire := ok && a.injCb && !e.cbFired[e.streamIdx] && int64(a.injAt) == n.GetTimestamp()
				if fire {
					if e.cbFired == nil {
						e.cbFired = map[int]bool{}
					}
					e.cbFired[e.streamIdx] = true
				}
				e.mu.Unlock()
				if fire {
					e.addRet(sc.m.Reconnect(name))
				}
			}
		},
	})
	if err != nil {
		return nil, err
	}
	sc.m = m
	for i, s := range specs {
		e := &mgEnv{sc: sc, name: "t" + strconv.Itoa(i), spec: s, removeCalledAt: -1, removeDone: make(chan struct{}), hopAtt: -1}
		e.cond = sync.NewCond(&e.mu)
		for _, a := range s.attempts {
			if (a.injAt == mgAtBackoff && a.injAct == 'k') || a.readd {
				e.racy = true
			}
		}
		sc.envs[e.name] = e
	}
	sc.srv = grpc.NewServer()
	gpb.RegisterGNMIServer(sc.srv, sc)
	go sc.srv.Serve(sc.lis)
	return sc, nil
}

// backoff injections are made from the MonitorError callback of the attempt (on the monitor
// goroutine, hence from a goroutine of their own).
func (sc *mgScenario) backoffHook(name string) {
	e := sc.envs[name]
	if e == nil {
		return
	}
	e.mu.Lock()
	idx := e.att - 1
	e.mu.Unlock()
	if a, ok := e.attempt(idx); ok && a.injAct != 0 && a.injAt == mgAtBackoff {
		go func() {
			switch a.injAct {
			case 'k':
				e.addRet(sc.m.Reconnect(name))
			case 'x':
				e.callRemove(a.readd)
			}
		}()
	}
}

func (sc *mgScenario) run() string {
	deadline := make(chan struct{})
	t := time.AfterFunc(mgDeadline, func() { close(deadline) })
	defer t.Stop()
	var wg sync.WaitGroup
	names := make([]string, 0, len(sc.envs))
	for i := 0; i < len(sc.envs); i++ {
		names = append(names, "t"+strconv.Itoa(i))
	}
	for _, n := range names {
		e := sc.envs[n]
		wg.Add(1)
		go func() { defer wg.Done(); e.flow(deadline) }()
	}
	wg.Wait()
	time.Sleep(mgGraceRun)
	obs := make([]string, 0, len(names))
	for _, n := range names {
		obs = append(obs, sc.envs[n].observation())
	}
	res := strings.Join(obs, " / ")
	if sc.real != nil && !strings.Contains(res, "stuck") {
		// every target is removed: the real connection manager holds nothing and every connection is closed
		open := 0
		sc.dmu.Lock()
		for _, c := range sc.dialed {
			if c.GetState() != connectivity.Shutdown {
				open++
			}
		}
		sc.dmu.Unlock()
		res += fmt.Sprintf(" # cm=%d open=%d", len(connection.VerifSnapshot(sc.real)), open)
	}
	return res
}

// ---------------------------------------------------------------- component

type mgComp struct {
	once      sync.Once
	scenarios []*mgScenario
	stuck     int // scenarios that hit the deadline in this process
}

func init() {
	components["mg"] = &mgComp{}
	// glog: no log files; the manager's log lines go to stderr (captured by ./check)
	flag.Set("logtostderr", "true")
}

func (c *mgComp) closeAll() {
	for _, sc := range c.scenarios {
		sc.srv.Stop()
	}
	c.scenarios = nil
}

func (c *mgComp) Run(args []string) string {
	if len(args) == 0 {
		return "bad-op"
	}
	switch args[0] {
	case "new":
		c.once.Do(func() {
			manager.RetryBaseDelay = time.Millisecond
			manager.RetryMaxDelay = 2 * time.Millisecond
		})
		c.closeAll()
		return "ok"
	case "readd":
		k, held := 1, byte('U')
		if len(args) > 1 {
			k, _ = strconv.Atoi(args[1])
		}
		if len(args) > 2 && args[2] == "S" {
			held = 'S'
		}
		return mgReaddRace(k, held)
	case "rtover":
		return mgRTOver()
	case "pace":
		if len(args) != 2 {
			return "bad-op"
		}
		return mgPace(args[1])
	case "shared":
		// several targets sharing one address of the real connection.Manager (mg_shared.go)
		if c.stuck >= 3 {
			return "stuck" // (as for run: a build that hangs has been reported already)
		}
		obs := mgShared(args[1:])
		if strings.Contains(obs, "done=0") {
			c.stuck++
		}
		return obs
	case "run", "runc":
		specs, err := mgParseTargets(args[1:])
		if err != nil {
			return "bad-op"
		}
		c.once.Do(func() {
			manager.RetryBaseDelay = time.Millisecond
			manager.RetryMaxDelay = 2 * time.Millisecond
		})
		sc, err := mgNewScenario(specs, args[0] == "runc")
		if err != nil {
			return "bad-op"
		}
		if c.stuck >= 3 {
			// a build that hangs has been reported three times already: do not spend the budget
			return "stuck"
		}
		obs := ""
		for try := 0; ; try++ {
			c.scenarios = append(c.scenarios, sc)
			obs = sc.run()
			disturbed := false
			for _, e := range sc.envs {
				e.mu.Lock()
				disturbed = disturbed || e.disturbed
				e.mu.Unlock()
			}
			if !disturbed || try == 2 {
				break
			}
			// re-run on a fresh manager; the discarded run no longer counts
			sc.srv.Stop()
			c.scenarios = c.scenarios[:len(c.scenarios)-1]
			if sc, err = mgNewScenario(specs, args[0] == "runc"); err != nil {
				return "bad-op"
			}
		}
		if strings.Contains(obs, "stuck") {
			c.stuck++
		}
		return obs
	case "end":
		// every Remove of the sequence has returned at least mgGraceEnd ago: still silent?
		var last time.Time
		for _, sc := range c.scenarios {
			for _, e := range sc.envs {
				e.mu.Lock()
				if e.removedAt.After(last) {
					last = e.removedAt
				}
				e.mu.Unlock()
			}
		}
		if d := mgGraceEnd - time.Since(last); d > 0 && !last.IsZero() {
			time.Sleep(d)
		}
		late, acc, leak := 0, true, 0
		for _, sc := range c.scenarios {
			_, l, _, _ := sc.acct.counts("")
			leak += l
			for _, e := range sc.envs {
				e.mu.Lock()
				late += e.late
				acc = acc && mgAccepts(e.events)
				e.mu.Unlock()
			}
		}
		c.closeAll()
		return fmt.Sprintf("late=%d acc=%s leak=%d", late, b01(acc), leak)
	}
	return "bad-op"
}

// ---------------------------------------------------------------- generators

func mgAttemptString(a mgAttempt) string {
	s := string(a.kind)
	if a.kind == 'R' {
		s += a.msgs + string(a.end)
	}
	if a.injAct != 0 {
		s += "+" + string(a.injAct)
		switch a.injAt {
		case mgAtMeta:
			s += "m"
		case mgAtDial:
			s += "d"
		case mgAtBackoff:
			s += "b"
		case mgAtDialOK:
			s += "s"
		default:
			if a.injCb {
				s += "c"
			}
			s += strconv.Itoa(a.injAt)
		}
		if a.readd {
			s += "A"
		}
	}
	return s
}

// mgStreamPoints: positions after which the client's progress is observable through callbacks.
func mgStreamPoints(msgs string) []int {
	pts := []int{0}
	for j := 1; j <= len(msgs); j++ {
		if j == 1 || msgs[j-1] == 'u' || msgs[j-1] == 's' {
			pts = append(pts, j)
		}
	}
	return pts
}

func mgGenTarget(r *rand.Rand) string {
	conn := genProfile == "conn" // emphasis on the connection side (C16): dial injections, short streams
	rt := r.Intn(100) < 12
	if conn {
		rt = r.Intn(100) < 30
	}
	hdr := 0
	if rt {
		hdr |= 1
	}
	if r.Intn(100) < 20 || (conn && r.Intn(100) < 25) {
		hdr |= 2 // two next hops
	}
	toks := []string{"T" + strconv.Itoa(hdr)}
	probes := ""
	for _, f := range "creznaRC" {
		if r.Intn(3) == 0 {
			probes += string(f)
		}
	}
	if probes == "" {
		probes = "-"
	}
	toks = append(toks, "P"+probes)
	n := r.Intn(6)
	for i := 0; i < n; i++ {
		var a mgAttempt
		switch x := r.Intn(11); {
		case x < 1:
			a.kind = 'M'
		case x < 3:
			a.kind = 'D'
		case x < 4:
			a.kind = 'O'
		case x < 5:
			a.kind = 'S'
		default:
			a.kind = 'R'
			k := r.Intn(5)
			for j := 0; j < k; j++ {
				a.msgs += string("uuuussen"[r.Intn(8)])
			}
			a.end = "!!!!...~~~"[r.Intn(10)]
		}
		// a silent stream of a target without receive timeout ends only through an API call
		mustInject := a.kind == 'R' && a.end == '~' && !rt
		if mustInject || r.Intn(100) < 30 {
			a.injAct = 'k'
			if r.Intn(100) < 30 {
				a.injAct = 'x'
			}
			places := []int{mgAtMeta}
			if a.kind != 'M' {
				places = append(places, mgAtDial)
			}
			if a.kind == 'O' || a.kind == 'S' || a.kind == 'R' {
				// cancelled while dialling, and the dial succeeds (also with a receive timeout configured)
				places = append(places, mgAtDialOK, mgAtDialOK)
				if conn {
					places = append(places, mgAtDialOK, mgAtDialOK, mgAtDial)
				}
			}
			if a.kind == 'R' && !rt {
				pts := mgStreamPoints(a.msgs)
				places = append(places, pts...)
				places = append(places, pts...)
				places = append(places, pts[len(pts)-1], pts[len(pts)-1])
			}
			a.injAt = places[r.Intn(len(places))]
			if !mustInject && r.Intn(100) < 12 {
				a.injAt = mgAtBackoff
			}
			if a.kind == 'R' && strings.Contains(a.msgs, "u") && r.Intn(100) < 25 {
				// Reconnect from inside an Update callback (also with a receive timeout configured)
				var us []int
				for j, c := range a.msgs {
					if c == 'u' {
						us = append(us, j)
					}
				}
				a.injAct, a.injCb, a.injAt, a.readd = 'k', true, us[r.Intn(len(us))], false
			}
			if a.injAct == 'x' && r.Intn(100) < 20 && i < n-1 {
				a.readd = true
			}
		}
		toks = append(toks, mgAttemptString(a))
		if a.injAct == 'x' && !a.readd {
			break
		}
	}
	return strings.Join(toks, " ")
}

func (c *mgComp) Gen(r *rand.Rand, tier string) []string {
	seq := []string{"new"}
	k := 2 + r.Intn(4)
	for i := 0; i < k; i++ {
		op := "run "
		if r.Intn(3) == 0 || (genProfile == "conn" && r.Intn(2) == 0) {
			op = "runc " // the same grammar, the real connection.Manager underneath
		}
		line := op + mgGenTarget(r)
		if r.Intn(4) == 0 {
			line += " / " + mgGenTarget(r)
		}
		seq = append(seq, line)
	}
	if r.Intn(5) == 0 {
		// Remove in flight while the same name is added again from another goroutine (mg_race.go)
		seq = append(seq, fmt.Sprintf("readd %d %s", 1+r.Intn(3), []string{"U", "U", "S"}[r.Intn(3)]))
	}
	if r.Intn(4) == 0 || (genProfile == "conn" && r.Intn(3) == 0) {
		// targets sharing one address: a refused shared dial is forgotten, every sharer is retried for real (mg_shared.go)
		seq = append(seq, fmt.Sprintf("shared %d %d %s", 2+r.Intn(2), r.Intn(3), []string{"r", "r", "k", "rj", "kj"}[r.Intn(5)]))
	}
	if r.Intn(12) == 0 {
		// pacing of the retries once sessions keep failing (mg_pace.go)
		seq = append(seq, "pace "+[]string{"plain", "reconnect", "rt"}[r.Intn(3)])
	}
	return append(seq, "end")
}

// Exhaustive: every script of one or two attempts over a small alphabet, every injection point.
func (c *mgComp) Exhaustive(tier string) [][]string {
	bodies := []string{"M", "D", "O", "S", "R!", "R.", "R~", "Ru!", "Rs.", "Re!", "Rn.", "Rus~", "Rnu!", "Reus."}
	if tier != "quick" {
		bodies = append(bodies, "Ruu.", "Rsu!", "Rune~", "Ruuuu!", "Rss~")
	}
	var alpha []string // attempts that do not remove
	var final []string // attempts that remove (script ends)
	for _, b := range bodies {
		a, _ := mgParseAttempt(b)
		var places []int
		places = append(places, mgAtMeta)
		if a.kind != 'M' {
			places = append(places, mgAtDial)
		}
		if a.kind == 'O' || a.kind == 'S' || a.kind == 'R' {
			places = append(places, mgAtDialOK)
		}
		if a.kind == 'R' {
			places = append(places, mgStreamPoints(a.msgs)...)
		}
		if !(a.kind == 'R' && a.end == '~') {
			alpha = append(alpha, b) // (a bare silent stream would never end)
		}
		for _, p := range places {
			x := a
			x.injAt = p
			x.injAct = 'k'
			alpha = append(alpha, mgAttemptString(x))
			x.injAct = 'x'
			final = append(final, mgAttemptString(x))
		}
	}
	var seqs [][]string
	cur := []string{"new"}
	emit := func(script string) {
		cur = append(cur, "run T0 P- "+script)
		if len(cur) == 25 {
			seqs = append(seqs, append(cur, "end"))
			cur = []string{"new"}
		}
	}
	for _, a := range alpha {
		emit(a)
	}
	for _, f := range final {
		emit(f)
	}
	// the connection side: every single attempt once more with the real connection.Manager underneath, with a
	// receive timeout, and with two next hops; and a cancelled-while-dialling attempt followed by a session
	nAs := 0
	emitAs := func(op, hdr, script string) {
		nAs++
		if genProfile != "conn" && tier == "quick" && nAs%3 != 0 {
			return // C13's quick tier samples this part (C16 runs all of it)
		}
		cur = append(cur, op+" "+hdr+" P- "+script)
		if len(cur) == 25 {
			seqs = append(seqs, append(cur, "end"))
			cur = []string{"new"}
		}
	}
	for _, x := range append(append([]string{}, alpha...), final...) {
		emitAs("runc", "T0", x)
		emitAs("runc", "T2", x)
		emitAs("run", "T2", x)
		if strings.Contains(x, "+ks") || strings.Contains(x, "+xs") || strings.Contains(x, "+kd") || strings.Contains(x, "+xd") {
			emitAs("run", "T1", x)
			emitAs("runc", "T3", x)
		}
		if strings.Contains(x, "+ks") || strings.Contains(x, "+kd") {
			emitAs("run", "T0", x+" Ru!")
			emitAs("runc", "T0", x+" Rus.+xs")
		}
	}
	// targets sharing one address of the real connection.Manager: the joint first dial is refused / cancelled
	for _, mode := range []string{"r", "k", "rj", "kj"} {
		for k := 2; k <= 3; k++ {
			for fails := 0; fails <= 2; fails++ {
				if tier == "quick" && genProfile != "conn" && fails == 2 && k == 3 {
					continue
				}
				cur = append(cur, fmt.Sprintf("shared %d %d %s", k, fails, mode))
				if len(cur) == 25 {
					seqs = append(seqs, append(cur, "end"))
					cur = []string{"new"}
				}
			}
		}
	}
	for _, b := range []string{"R~", "Rus~", "R~+ks", "Ru~+xs"} {
		// silence beyond the receive timeout (the timeout goroutine's Reconnect releases the connection)
		emitAs("runc", "T1", b)
		emitAs("run", "T3", b)
	}
	if genProfile == "conn" {
		// C16 runs only this part of the scope (the session discipline part is C13's)
		if len(cur) > 1 {
			seqs = append(seqs, append(cur, "end"))
		}
		return seqs
	}
	second := alpha
	if tier == "quick" {
		second = nil
		for i, a := range alpha {
			if i%3 == 0 {
				second = append(second, a)
			}
		}
	}
	for _, a := range alpha {
		for _, b := range second {
			emit(a + " " + b)
		}
		for i, f := range final {
			if tier != "quick" || i%4 == 0 {
				emit(a + " " + f)
			}
		}
	}
	if len(cur) > 1 {
		seqs = append(seqs, append(cur, "end"))
	}
	return seqs
}
