package main

// su churn <targets> <rounds>: ONCE subscriptions for every target (`*`) while targets are being
// registered and removed.  A cache of its own (so the sequence's subscribers are not disturbed) holds
// <targets> targets with two leaves each; <rounds> ONCE `*` subscriptions run one after the other while
// another goroutine adds and removes empty scratch targets (Cache.Add / Cache.Remove take the cache's
// write lock).  Each subscription must return every leaf of the permanent targets, then exactly one
// sync_response, and end with a nil status within the deadline: a walk that re-enters a read lock it
// already holds dead-locks behind the waiting writer.  Observation: "ok", or what went wrong first.

import (
	"context"
	"fmt"
	"io"
	"net"
	"sync"
	"time"

	"google.golang.org/grpc/metadata"
	"google.golang.org/grpc/peer"

	"github.com/openconfig/gnmi/cache"
	"github.com/openconfig/gnmi/ctree"
	pb "github.com/openconfig/gnmi/proto/gnmi"
	"github.com/openconfig/gnmi/subscribe"
)

type churnStream struct {
	ctx   context.Context
	req   chan *pb.SubscribeRequest
	mu    sync.Mutex
	upd   int
	syncs int
	late  bool // an update after the sync marker
}

func (s *churnStream) Context() context.Context     { return s.ctx }
func (s *churnStream) SetHeader(metadata.MD) error  { return nil }
func (s *churnStream) SendHeader(metadata.MD) error { return nil }
func (s *churnStream) SetTrailer(metadata.MD)       {}
func (s *churnStream) SendMsg(interface{}) error    { return nil }
func (s *churnStream) RecvMsg(interface{}) error    { return nil }
func (s *churnStream) Recv() (*pb.SubscribeRequest, error) {
	select {
	case r, ok := <-s.req:
		if !ok {
			return nil, io.EOF
		}
		return r, nil
	case <-s.ctx.Done():
		return nil, s.ctx.Err()
	}
}
func (s *churnStream) Send(r *pb.SubscribeResponse) error {
	s.mu.Lock()
	defer s.mu.Unlock()
	switch r.Response.(type) {
	case *pb.SubscribeResponse_SyncResponse:
		s.syncs++
	case *pb.SubscribeResponse_Update:
		if s.syncs > 0 {
			s.late = true
		}
		s.upd++
	}
	return nil
}

func suChurn(targets, rounds int) string {
	var names []string
	for i := 0; i < targets; i++ {
		names = append(names, fmt.Sprintf("dev%d", i))
	}
	c := cache.New(names)
	srv, err := subscribe.NewServer(c)
	if err != nil {
		return "err-new"
	}
	c.SetClient(func(l *ctree.Leaf) { srv.Update(l) })
	for _, n := range names {
		for j, leaf := range []string{"a", "b"} {
			c.GnmiUpdate(&pb.Notification{Timestamp: int64(10 + j), Prefix: &pb.Path{Target: n},
				Update: []*pb.Update{{Path: &pb.Path{Elem: []*pb.PathElem{{Name: leaf}}},
					Val: &pb.TypedValue{Value: &pb.TypedValue_IntVal{IntVal: int64(j)}}}}})
		}
	}
	stop := make(chan struct{})
	var wg sync.WaitGroup
	wg.Add(1)
	go func() { // target churn: the writers of the cache-level lock
		defer wg.Done()
		for i := 0; ; i++ {
			select {
			case <-stop:
				return
			default:
			}
			n := fmt.Sprintf("scratch%d", i%3)
			c.Add(n)
			c.Remove(n)
		}
	}()
	res := "ok"
	for r := 0; r < rounds && res == "ok"; r++ {
		ctx, cancel := context.WithCancel(peer.NewContext(context.Background(),
			&peer.Peer{Addr: &net.TCPAddr{IP: net.IPv4(127, 0, 0, 1), Port: 2}}))
		st := &churnStream{ctx: ctx, req: make(chan *pb.SubscribeRequest, 1)}
		st.req <- &pb.SubscribeRequest{Request: &pb.SubscribeRequest_Subscribe{Subscribe: &pb.SubscriptionList{
			Prefix: &pb.Path{Target: "*"}, Mode: pb.SubscriptionList_ONCE,
			Subscription: []*pb.Subscription{{Path: &pb.Path{Elem: []*pb.PathElem{{Name: "*"}}}}}}}}
		done := make(chan error, 1)
		go func() { done <- srv.Subscribe(st) }()
		select {
		case err := <-done:
			st.mu.Lock()
			switch {
			case err != nil:
				res = "ended-with-error"
			case st.upd < 2*targets:
				res = fmt.Sprintf("missing-leaves:%d<%d", st.upd, 2*targets)
			case st.syncs != 1 || st.late:
				res = "sync-discipline"
			}
			st.mu.Unlock()
		case <-time.After(scaled(3 * time.Second)):
			res = "deadlock"
		}
		cancel()
	}
	close(stop)
	if res != "deadlock" {
		wg.Wait()
	}
	return res
}
