package main

// e2ew: the collector pipeline end to end (component e2e) with the target's notifications given on
// the op line in the WIRE-SHAPED token of the rx / wi components (lean/Driver/RX.lean) instead of the
// pre-indexed token of e2e: optional prefix, `elem` with its key map in a WRITTEN order vs
// deprecated `element`, origin / target fields, TypedValue arms.
//
//   e2ew new <client> <run> <queries> <decl|item>*      items as for e2e, except
//       <i>W<ts>^<gpath>^<A|N>^<updates>^<deletes>       (an update notification of target i)
//
// Nothing of the index form is computed on the Go side: the Lean model translates the message
// itself (Wire.toNoti: path.ToStrings on prefix and path, the value as value.Equal reads it; the
// collector's stamping on the protobuf prefix: Wire.stampWire) and computes the expected client
// tree from the wire-level view (PW.wfinalView).  `Run` builds the protobuf messages from the
// token and runs the very scenario of component e2e (real manager / cache / subscribe server /
// client library, in-process gRPC for the client side; `agent` runs marshal the messages over
// loopback TCP, where the encoder picks its own order for every key map).
//
// The generator is e2e's (same leaves, prefixes, encodings, value arms, deletes, restarts, STREAM
// clients joining anywhere), re-rendered on the wire with, per notification:
//   * every key map written in a random order (2-key entries: both orders);
//   * a key-less path switched between `elem` and deprecated `element` (also done by e2e);
//   * sometimes BOTH encodings set (path.ToStrings reads `elem` and ignores `element`).
// Not generated here (outside the exact fragment of the index-form client model: C01W.wire_fragment_iff,
// C01W.json_outside_fragment, and the nil-path finding C01W.client_accepts_stored_full_false whose
// witness is corpus/C01/wire_nil_path_update.ops): JSON / any values, deprecated Update.Value,
// updates without a `path` field.

import (
	"math/rand"
	"strconv"
	"strings"
)

type e2ewComp struct{}

func init() { components["e2ew"] = &e2ewComp{} }

// e2ewPath renders a path as the wire token; r (optional) shuffles every key map and sometimes
// adds the ignored deprecated encoding.
func e2ewPath(p gPath, r *rand.Rand) string {
	if p.isNil {
		return "N"
	}
	var sb strings.Builder
	sb.WriteString("P;" + encStr(p.target) + ";" + encStr(p.origin) + ";")
	if len(p.elem) == 0 {
		sb.WriteString(".")
	}
	for _, e := range p.elem {
		sb.WriteString("/" + encStr(e.name))
		order := make([]int, len(e.keys))
		for i := range order {
			order[i] = i
		}
		if r != nil {
			r.Shuffle(len(order), func(i, j int) { order[i], order[j] = order[j], order[i] })
		}
		for _, i := range order {
			sb.WriteString("," + encStr(e.keys[i][0]) + "=" + encStr(e.keys[i][1]))
		}
	}
	sb.WriteString(";" + encPath(p.element))
	return sb.String()
}

func e2ewNoti(n gNoti, r *rand.Rand) string {
	at := "N"
	if n.atomic {
		at = "A"
	}
	us := "-"
	if len(n.upd) > 0 {
		var xs []string
		for _, u := range n.upd {
			xs = append(xs, e2ewPath(u.path, r)+"|"+pvRenderTV(u.val.proto())+"|-|"+strconv.Itoa(int(u.dup)))
		}
		us = strings.Join(xs, "+")
	}
	ds := "-"
	if len(n.del) > 0 {
		var xs []string
		for _, d := range n.del {
			xs = append(xs, e2ewPath(d, r))
		}
		ds = strings.Join(xs, "+")
	}
	return strings.Join([]string{strconv.FormatInt(n.ts, 10), e2ewPath(n.prefix, r), at, us, ds}, "^")
}

// e2ewBoth sets the ignored deprecated encoding next to a non-empty `elem` (ToStrings reads elem).
func e2ewBoth(p gPath, r *rand.Rand) gPath {
	if !p.isNil && len(p.elem) > 0 && len(p.element) == 0 && r.Intn(8) == 0 {
		p.element = []string{"ignored", "x"}
	}
	return p
}

// e2ewFromE2E turns a scenario line of component e2e into the wire form.
func e2ewFromE2E(line string, r *rand.Rand) string {
	toks := strings.Split(line, " ")
	for i, tok := range toks {
		if i < 4 || strings.HasPrefix(tok, "T=") || len(tok) < 2 || tok[1] != 'U' {
			continue
		}
		n := parseNotiToken(tok[2:])
		if r != nil {
			n.prefix = e2ewBoth(n.prefix, r)
			for j := range n.upd {
				n.upd[j].path = e2ewBoth(n.upd[j].path, r)
			}
			for j := range n.del {
				n.del[j] = e2ewBoth(n.del[j], r)
			}
		}
		toks[i] = tok[:1] + "W" + e2ewNoti(n, r)
	}
	return strings.Join(toks, " ")
}

// e2ewToE2E rebuilds the e2e scenario (protobuf objects → the harness' abstract notification).
func e2ewToE2E(args []string) []string {
	out := append([]string(nil), args...)
	for i, tok := range out {
		if i < 4 || strings.HasPrefix(tok, "T=") || len(tok) < 2 || tok[1] != 'W' {
			continue
		}
		out[i] = tok[:1] + "U" + fromNoti(rxParseNoti(tok[2:])).token()
	}
	return out
}

func (c *e2ewComp) Run(args []string) string {
	if len(args) == 0 || args[0] != "new" {
		return "bad-op"
	}
	return (&e2eComp{}).Run(e2ewToE2E(args))
}

func (c *e2ewComp) Gen(r *rand.Rand, tier string) []string {
	for {
		run := "direct"
		if r.Intn(6) == 0 {
			run = "agent"
		}
		line := e2eGenScenario(r, run)
		hasValues := false
		for _, tok := range strings.Split(line, " ")[4:] {
			if !strings.HasPrefix(tok, "T=") && len(tok) >= 2 && tok[1] == 'V' {
				hasValues = true
			}
		}
		if hasValues { // generator-mode fake agents have no wire-shaped items
			continue
		}
		return []string{e2ewFromE2E(line, r)}
	}
}

// Exhaustive: one hand-shaped two-target scenario (the run of Gnmi.C01W.exSteps: a two-key list
// entry written in both key orders, the entry in the prefix, the deprecated encoding, int / uint /
// string / bool / decimal / leaf-list values, a delete, a wildcard delete), for a ONCE client and
// for a STREAM client joining at every point.
func (c *e2ewComp) Exhaustive(tier string) [][]string {
	el := e2eEl
	iv := func(i int64) gVal { return gVal{kind: "i", i: i} }
	ifNU := el("if", "name", "eth0", "unit", "1")
	ifUN := el("if", "unit", "1", "name", "eth0")
	oc2 := gPath{origin: "oc2"}
	nilP := gPath{isNil: true}
	up := func(t int, ts int64, prefix gPath, upd ...gUpd) e2eItem {
		return e2eItem{t: t, kind: 'U', noti: gNoti{ts: ts, prefix: prefix, upd: upd}}
	}
	del := func(t int, ts int64, prefix gPath, d ...gPath) e2eItem {
		return e2eItem{t: t, kind: 'U', noti: gNoti{ts: ts, prefix: prefix, del: d}}
	}
	items := []e2eItem{
		up(0, 10, oc2, gUpd{path: gPath{elem: []gElem{ifNU, el("mtu")}}, val: iv(1500)}),
		up(1, 10, nilP, gUpd{path: gPath{elem: []gElem{ifUN, el("mtu")}}, val: gVal{kind: "u", u: 9000}}),
		up(0, 11, nilP, gUpd{path: gPath{element: []string{"sys", "name"}}, val: gVal{kind: "s", s: "r1"}}),
		up(0, 12, gPath{origin: "oc2", elem: []gElem{ifUN}},
			gUpd{path: gPath{elem: []gElem{el("up")}}, val: gVal{kind: "b", b: true}},
			gUpd{path: gPath{element: []string{"dec"}}, val: gVal{kind: "m", i: 314, prec: 2}}),
		up(1, 12, nilP, gUpd{path: gPath{element: []string{"sys", "name"}}, val: gVal{kind: "s", s: "r2"}}),
		up(0, 13, nilP, gUpd{path: gPath{elem: []gElem{el("tags")}}, val: gVal{kind: "l", list: []gVal{{kind: "s", s: "a"}, iv(2)}}}),
		{t: 0, kind: 'S'},
		{t: 0, kind: 'E'},
		del(0, 14, nilP, gPath{element: []string{"sys", "name"}}),
		del(1, 13, nilP, gPath{elem: []gElem{el("sys"), el("*")}}),
		up(0, 15, oc2, gUpd{path: gPath{elem: []gElem{ifUN, el("mtu")}}, val: iv(9100)}),
		e2eMarkerItem(0, "dev1", "openconfig", nil, 20),
		e2eMarkerItem(1, "dev2", "openconfig", nil, 20),
	}
	line := func(client string) string {
		toks := []string{"new", client, "direct", e2eRenderQueries([][]string{nil}),
			"T=" + encStr("dev1") + ":" + encStr("r1") + ":raw", "T=" + encStr("dev2") + ":" + encStr("r1") + ":raw"}
		for _, it := range items {
			s := strconv.Itoa(it.t) + string(it.kind)
			if it.kind == 'U' {
				s = strconv.Itoa(it.t) + "W" + e2ewNoti(it.noti, nil) // keys in the order written above
			}
			toks = append(toks, s)
		}
		return strings.Join(toks, " ")
	}
	out := [][]string{{line("once")}}
	for k := 0; k <= len(items); k++ {
		out = append(out, []string{line("stream:" + strconv.Itoa(k))})
	}
	return out
}
