package main

// wi conc <seed> <rounds>: several Subscribe RPCs of different peers at once on ONE subscribe.Server built with the
// statistics option (WithStats: per-type, per-target and per-client maps shared by every RPC of the process), while
// the cache is written to.  Per round: G peers, each running a few RPCs one after the other (ONCE; STREAM that the
// client leaves after the sync response; POLL with one trigger, then half-close), so that RPCs end — their
// per-client statistics entry is removed — while the sender goroutines of other RPCs look theirs up for every
// response.  C12: whatever the peers send and whenever their RPCs end, the process serves or refuses each of them;
// an unsynchronised access to state shared between RPCs is a crash of the whole process (the Go runtime aborts on
// a concurrent map read and write) that no single message explains.  The monitor's verdict is the observation
// (every RPC returned in time, every ONCE/POLL RPC delivered its sync response); the -race build of the harness
// (check step `conc_race`) reports the unsynchronised access itself.  Found necessary by seeded change c12_seed11
// (removeClientStats deleting from the clients map under the read lock).

import (
	"context"
	"fmt"
	"math/rand"
	"net"
	"sync"
	"sync/atomic"
	"time"

	"github.com/openconfig/gnmi/subscribe"
	"google.golang.org/grpc/peer"

	gpb "github.com/openconfig/gnmi/proto/gnmi"
)

func wiConc(seed int64, rounds int) string {
	r := rand.New(rand.NewSource(seed))
	firsts := []*gpb.SubscribeRequest{
		rxParseReq(wiFirstReqs[4]), // ONCE dev/a
		rxParseReq(wiFirstReqs[5]), // STREAM dev/a
		rxParseReq(wiFirstReqs[0]), // POLL dev/a
		rxParseReq(wiFirstReqs[3]), // POLL every target
	}
	for round := 0; round < rounds; round++ {
		c := rxBuildCache(rxCaches[len(rxCaches)-1])
		srv, err := subscribe.NewServer(c, subscribe.WithTimeout(2*time.Second), subscribe.WithStats())
		if err != nil {
			return "mon=setup-failed"
		}
		c.SetClient(srv.Update)
		G := 3 + r.Intn(6)
		plans := make([][]int, G)
		for g := range plans {
			for k := 2 + r.Intn(4); k > 0; k-- {
				plans[g] = append(plans[g], r.Intn(len(firsts)))
			}
		}
		var bad atomic.Value
		var wg sync.WaitGroup
		stop := make(chan struct{})
		var wwg sync.WaitGroup
		wwg.Add(1)
		go func() { // a target streaming into the cache meanwhile
			defer wwg.Done()
			for ts := int64(100); ; ts++ {
				select {
				case <-stop:
					return
				default:
				}
				c.GnmiUpdate(&gpb.Notification{Timestamp: ts, Prefix: &gpb.Path{Target: "dev"},
					Update: []*gpb.Update{{Path: &gpb.Path{Elem: []*gpb.PathElem{{Name: "a"}, {Name: "b"}}},
						Val: &gpb.TypedValue{Value: &gpb.TypedValue_IntVal{IntVal: ts}}}}})
			}
		}()
		for g := 0; g < G; g++ {
			wg.Add(1)
			go func(g int) {
				defer wg.Done()
				for k, what := range plans[g] {
					first := firsts[what]
					var later []*gpb.SubscribeRequest
					if first.GetSubscribe().GetMode() == gpb.SubscriptionList_POLL {
						later = []*gpb.SubscribeRequest{{Request: &gpb.SubscribeRequest_Poll{Poll: &gpb.Poll{}}}}
					}
					ctx := peer.NewContext(context.Background(), &peer.Peer{Addr: &net.TCPAddr{IP: net.IPv4(127, 0, 0, 1), Port: 1000 + g}})
					st := &wiSubStream{first: first, later: later, syncC: make(chan struct{}, len(later)+4)}
					st.ctx, st.cancel = context.WithCancel(ctx)
					st.stream = first.GetSubscribe().GetMode() == gpb.SubscriptionList_STREAM
					done := make(chan error, 1)
					go func() { done <- srv.Subscribe(st) }()
					select {
					case <-done:
					case <-time.After(scaled(20 * time.Second)):
						st.cancel()
						bad.Store(fmt.Sprintf("rpc-did-not-return round=%d peer=%d rpc=%d", round, g, k))
						return
					}
					st.cancel()
					st.mu.Lock()
					synced := st.synced
					st.mu.Unlock()
					if !synced {
						bad.Store(fmt.Sprintf("rpc-ended-without-sync round=%d peer=%d rpc=%d mode=%v", round, g, k, first.GetSubscribe().GetMode()))
						return
					}
				}
			}(g)
		}
		wg.Wait()
		close(stop)
		wwg.Wait()
		if v := bad.Load(); v != nil {
			return "mon=FAIL:" + v.(string)
		}
	}
	return "mon=ok"
}
