package main

// cc: ctree.Tree under concurrent use (property C10).
//
// Operations (line protocol, component prefix `cc`):
//
//	new                         fresh tree
//	add <p> <v> | del <q> | get <p> | walks      sequential set-up / inspection
//	win  <pA> <vA> <pB> <vB>    forced upgrade window: the goroutine running Add(pA) is parked at
//	                            the schedule point `ctree.add.upgrade` (between RUnlock and Lock of
//	                            intermediateAdd), a second real Add(pB) (beneath the same node) runs
//	                            to completion inside the window, then Add(pA) resumes.  Observation:
//	                            "<resA>,<resB> <sorted walk>".  When Add(pA) needs no new node, or
//	                            pB does not lie beneath the window node: A, then B, sequentially.
//	win2 <pA> <vA> <pB> <vB>    both adds are parked in the window at the same node, then released
//	                            A first (when their windows differ: sequentially A, B).
//	windh <pA> <vA> <q>         Add(pA) is parked in the window at the ROOT (it then holds no lock at
//	                            all), Delete(q) runs completely, Add(pA) resumes and re-checks a tree
//	                            that may have been emptied.  When the add's window is not at the root
//	                            (the delete would have to wait) the add runs first, then the delete.
//	                            "<resA>,<removed> <sorted walk>".
//
// The schedule point is the `verif`-tagged hook of /repo/ctree (verif_on.go); the harness
// does not build without it.
//	stress <seed> <G> <rounds> <mode>   free-running goroutines, recorded histories, monitors
//	                            evaluated here; observation "ok" or the first failing monitor.
//	                            Besides Add/GetLeafValue/Query/Delete/Leaf.Update/Leaf.Value the
//	                            goroutines call Walk and WalkSorted (recorded as the query nil;
//	                            WalkSorted must report in path order) and IsBranch/Value/Children
//	                            on the root and on nodes handed out by Get (doNode), concurrently
//	                            with the writers: the read-side operations of
//	                            Model/CTreeConcX.lean (theorems Props/C10Safe.lean: never_panics,
//	                            no_deadlock_wp, every_op_completes, walk_reports_sound).
//
// The Lean driver (lean/Driver/CC.lean) runs the same schedules on the LTS of
// Model/CTreeConc.lean and must print the same observations; for `stress` it prints "ok"
// (what the theorems of Props/C10.lean promise for every schedule).

import (
	"errors"
	"fmt"
	"math/rand"
	"os"
	"runtime"
	"sort"
	"strconv"
	"strings"
	"sync"
	"sync/atomic"
	"time"

	"github.com/openconfig/gnmi/ctree"
)

type ccComp struct {
	t *ctree.Tree
}

func init() { components["cc"] = &ccComp{} }

var ccDeadline = scaled(20 * time.Second)

// ccBroken is set once a deadline has fired: goroutines of the operation under test may be
// leaked (blocked or spinning), so every later concurrent operation answers at once.
var ccBroken int32

func ccTimedOut(obs string) string {
	atomic.StoreInt32(&ccBroken, 1)
	return obs
}

// ---------------------------------------------------------------- generators

var ccElems = []string{"a", "b", "c"}

func ccLit(r *rand.Rand, maxLen int) []string {
	n := 1 + r.Intn(maxLen)
	p := make([]string, n)
	for i := range p {
		p[i] = ccElems[r.Intn(len(ccElems))]
	}
	return p
}

func (c *ccComp) Gen(r *rand.Rand, tier string) []string {
	seq := []string{"new"}
	var added [][]string
	v := 0
	nv := func() int { v++; return v }
	for i, n := 0, r.Intn(4); i < n; i++ {
		p := ccLit(r, 3)
		added = append(added, p)
		seq = append(seq, fmt.Sprintf("add %s %d", encPath(p), nv()))
	}
	steps := 2 + r.Intn(6)
	for i := 0; i < steps; i++ {
		switch x := r.Intn(100); {
		case x < 55:
			// an add that needs new nodes, and a competitor beneath the same missing branch
			var base []string
			if len(added) > 0 && r.Intn(3) != 0 {
				b := added[r.Intn(len(added))]
				base = cloneStrs(b[:r.Intn(len(b)+1)])
			}
			fresh := fmt.Sprintf("n%d", r.Intn(3))
			pA := append(cloneStrs(base), fresh)
			tail := ccLit(r, 2)
			pA = append(pA, tail[:r.Intn(len(tail)+1)]...)
			var pB []string
			switch r.Intn(6) {
			case 0: // unrelated
				pB = ccLit(r, 3)
			case 1: // same path
				pB = cloneStrs(pA)
			case 2: // B is a prefix of A's new part
				pB = append(cloneStrs(base), fresh)
			default: // same fresh branch, other tail
				pB = append(cloneStrs(base), fresh)
				pB = append(pB, ccLit(r, 2)...)
			}
			op := "win"
			if r.Intn(3) == 0 {
				op = "win2"
			}
			seq = append(seq, fmt.Sprintf("%s %s %d %s %d", op, encPath(pA), nv(), encPath(pB), nv()))
			added = append(added, pA, pB)
		case x < 60:
			seq = append(seq, fmt.Sprintf("win %s %d %s %d", encPath(ccLit(r, 3)), nv(), encPath(ccLit(r, 3)), nv()))
		case x < 65:
			pA := append([]string{fmt.Sprintf("n%d", r.Intn(3))}, ccLit(r, 2)[:r.Intn(2)]...)
			q := ccLit(r, 2)
			switch r.Intn(4) {
			case 0:
				q = nil
			case 1:
				q = []string{"*"}
			case 2:
				q = cloneStrs(pA[:1])
			}
			seq = append(seq, fmt.Sprintf("windh %s %d %s", encPath(pA), nv(), encPath(q)))
			added = append(added, pA)
		case x < 70 && len(added) > 0:
			// an add beneath (or above) something already added — usually rejected — and then a write to
			// the path that was there first: an operation that fails must leave nothing behind
			base := added[r.Intn(len(added))]
			p := append(cloneStrs(base), ccLit(r, 2)...)
			if r.Intn(4) == 0 && len(base) > 1 {
				p = cloneStrs(base[:len(base)-1])
			}
			seq = append(seq, fmt.Sprintf("add %s %d", encPath(p), nv()))
			seq = append(seq, fmt.Sprintf("add %s %d", encPath(base), nv()))
			added = append(added, p)
		case x < 78:
			p := ccLit(r, 3)
			added = append(added, p)
			seq = append(seq, fmt.Sprintf("add %s %d", encPath(p), nv()))
		case x < 88:
			q := ccLit(r, 2)
			if r.Intn(3) == 0 {
				q[r.Intn(len(q))] = "*"
			}
			seq = append(seq, "del "+encPath(q))
		case x < 94:
			seq = append(seq, "get "+encPath(ccLit(r, 3)))
		case x < 97:
			// a query abandoned by its visitor, over a literal prefix, a glob, or the whole tree
			q := ccLit(r, 2)
			switch r.Intn(3) {
			case 0:
				q = append(q, "*")
			case 1:
				q = q[:r.Intn(len(q)+1)]
			}
			seq = append(seq, "qerr "+encPath(q))
			if r.Intn(2) == 0 {
				seq = append(seq, "pwd "+encPath(q)) // ... and a conditional delete abandoned by a panicking condition
			}
		default:
			seq = append(seq, "walks")
		}
	}
	if r.Intn(12) == 0 {
		seq = append(seq, fmt.Sprintf("stress %d %d %d nohd", 1+r.Intn(1<<20), 2+r.Intn(7), 6+r.Intn(10)))
	}
	if r.Intn(10) == 0 {
		// a literal-path Query vs a Delete of that leaf / an Add over an existing leaf vs a conditional delete (cc_qvd.go)
		seq = append(seq, fmt.Sprintf("%s %d %d", []string{"qvd", "avd"}[r.Intn(2)], 1+r.Intn(1<<20), 200+r.Intn(400)))
	}
	seq = append(seq, "walks")
	return seq
}

func (c *ccComp) Exhaustive(tier string) [][]string {
	// every pair of adds over a small universe, on three initial trees, in both window shapes
	var paths [][]string
	al := []string{"a", "b"}
	for _, x := range al {
		paths = append(paths, []string{x})
		for _, y := range al {
			paths = append(paths, []string{x, y})
			if tier == "thorough" {
				for _, z := range al {
					paths = append(paths, []string{x, y, z})
				}
			} else {
				paths = append(paths, []string{x, y, "a"})
			}
		}
	}
	setups := [][]string{{}, {"add /a/z 9"}, {"add /a/a/z 9", "add /b 8"}}
	var out [][]string
	for _, su := range setups {
		for _, op := range []string{"win", "win2"} {
			for _, a := range paths {
				for _, b := range paths {
					seq := append([]string{"new"}, su...)
					seq = append(seq, fmt.Sprintf("%s %s 1 %s 2", op, encPath(a), encPath(b)), "walks")
					out = append(out, seq)
				}
			}
		}
		// a delete inside the root window of every add
		for _, a := range paths {
			for _, q := range [][]string{nil, {"*"}, {"a"}, {"b"}, {"a", "z"}, {"a", "*"}} {
				seq := append([]string{"new"}, su...)
				seq = append(seq, fmt.Sprintf("windh %s 1 %s", encPath(a), encPath(q)), "walks")
				out = append(out, seq)
			}
		}
	}
	return out
}

// ---------------------------------------------------------------- run

func ccStatus(err error) string {
	if err != nil {
		return "err"
	}
	return "ok"
}

func (c *ccComp) walks() string {
	var out []string
	c.t.WalkSorted(func(p []string, _ *ctree.Leaf, v interface{}) error {
		out = append(out, fmt.Sprintf("%s=%v", encPath(p), v))
		return nil
	})
	return bracket(out)
}

func (c *ccComp) Run(args []string) string {
	if len(args) == 0 {
		return "bad-op"
	}
	if args[0] == "new" {
		ccInstallHook(ccHook)
		c.t = &ctree.Tree{}
		return "ok"
	}
	switch args[0] {
	case "add", "del", "get", "walks", "qerr", "pwd":
		// sequential operations on a small tree take microseconds: one that has not returned after the
		// deadline is blocked for good (a lock left behind by an earlier operation) — the property
		// promises the tree never deadlocks
		res := make(chan string, 1)
		go func() { res <- c.runSeq(args) }()
		select {
		case r := <-res:
			return r
		case <-time.After(scaled(3 * time.Second)):
			c.t = &ctree.Tree{} // the old tree is lost to the blocked goroutine
			return "deadlock"
		}
	}
	return c.runSeq(args)
}

func (c *ccComp) runSeq(args []string) string {
	switch args[0] {
	case "add":
		v, _ := strconv.Atoi(args[2])
		return ccStatus(c.t.Add(decPath(args[1]), v))
	case "del":
		var out []string
		for _, p := range c.t.Delete(decPath(args[1])) {
			out = append(out, encPath(p))
		}
		return sortedBracket(out)
	case "get":
		v := c.t.GetLeafValue(decPath(args[1]))
		if v == nil {
			return "nil"
		}
		if _, ok := v.(int); !ok {
			return "nil" // a branch node: Value() of a branch is nil; GetLeafValue exposes the map
		}
		return fmt.Sprint(v)
	case "walks":
		return c.walks()
	case "qerr":
		// a query (or the cache walk of a subscription) abandoned because its visitor returned an error —
		// the subscriber's queue was closed under the walk: every lock taken on the way down is released
		// (seeded change c05_seed10 left the read locks of the fully specified path elements behind: the
		// next writer there blocks for ever, and with it every later walk).  Nothing to observe here; the
		// operations that follow show whether a lock stayed behind.
		c.t.Query(decPath(args[1]), func([]string, *ctree.Leaf, interface{}) error { return errors.New("visitor gave up") })
		return "ok"
	case "pwd":
		// a conditional delete whose caller-supplied condition panics on the first value it is shown (an unchecked type
		// assertion on an unexpected value) and whose caller recovers: nothing was deleted, and no lock stays behind — the
		// operations that follow show whether one did (seeded change c10_seed12: WalkDeleted without its deferred Unlock).
		func() {
			defer func() { recover() }()
			c.t.WalkDeleted(decPath(args[1]), func(interface{}) bool { panic("unexpected value") }, func(interface{}) {})
		}()
		return "ok"
	case "_stats": // manual use only (never generated): how many window schedules were really forced
		return fmt.Sprintf("forced=%d search-gave-up=%d", atomic.LoadInt64(&ccForced), atomic.LoadInt64(&ccGaveUp))
	case "win", "win2":
		vA, _ := strconv.Atoi(args[2])
		vB, _ := strconv.Atoi(args[4])
		return c.window(args[0] == "win2", decPath(args[1]), vA, decPath(args[3]), vB)
	case "windh":
		vA, _ := strconv.Atoi(args[2])
		return c.windowDelete(decPath(args[1]), vA, decPath(args[3]))
	case "cdel":
		return ccCondDelete()
	case "qvd", "avd":
		if len(args) != 3 {
			return "bad-op"
		}
		seed, _ := strconv.ParseInt(args[1], 10, 64)
		rounds, _ := strconv.Atoi(args[2])
		if args[0] == "qvd" {
			return ccQueryVsDelete(seed, rounds) // cc_qvd.go
		}
		return ccAddVsCondDelete(seed, rounds)
	case "stress":
		seed, _ := strconv.ParseInt(args[1], 10, 64)
		g, _ := strconv.Atoi(args[2])
		rounds, _ := strconv.Atoi(args[3])
		mode := "nohd"
		if len(args) > 4 {
			mode = args[4]
		}
		return c.stress(seed, g, rounds, mode)
	}
	return "bad-op"
}

// ---------------------------------------------------------------- forced upgrade window

// windowNode returns the node at which Add(p) will exchange its read lock for the write
// lock (the deepest existing node on p whose next child is missing), or ok=false when the
// add needs no new node (or fails before).  Called while the tree is quiescent.
func (c *ccComp) windowNode(p []string) (x *ctree.Tree, depth int, ok bool) {
	node := c.t
	for i := 0; i < len(p); i++ {
		if !node.IsBranch() {
			if node.Value() != nil {
				return nil, 0, false // a leaf on the way: the add fails under the read lock
			}
			return node, i, true // nil root: slowAdd turns it into a branch
		}
		child := node.Get([]string{p[i]})
		if child == nil {
			return node, i, true
		}
		node = child
	}
	return nil, 0, false
}

func ccHasPrefix(p, pre []string) bool {
	if len(p) < len(pre) {
		return false
	}
	for i := range pre {
		if p[i] != pre[i] {
			return false
		}
	}
	return true
}

var ccForced, ccGaveUp int64 // statistics (`_stats`)

func (c *ccComp) window(both bool, pA []string, vA int, pB []string, vB int) string {
	res := func(a, b error) string { return ccStatus(a) + "," + ccStatus(b) + " " + c.walks() }
	if atomic.LoadInt32(&ccBroken) != 0 {
		return "skipped-after-timeout"
	}
	x, depth, ok := c.windowNode(pA)
	if !both {
		// schedule: A into the window at x; B (beneath x) completely; A resumes.  Order B, A.
		valid := ok && len(pB) > depth && ccHasPrefix(pB, pA[:depth])
		if !valid {
			a := c.t.Add(pA, vA)
			b := c.t.Add(pB, vB)
			return res(a, b)
		}
		ga := ccNewGate()
		doneA := make(chan error, 1)
		go func() { ga.bind(); defer ga.unbind(); doneA <- c.t.Add(pA, vA) }()
		if w := ga.waitParked(doneA); w != "" {
			return w
		}
		b := c.t.Add(pB, vB) // a real competing Add, entirely inside A's window
		ga.release()
		a, tout := ccWaitErr(doneA)
		if tout {
			return ccTimedOut("deadlock")
		}
		atomic.AddInt64(&ccForced, 1)
		return res(a, b)
	}
	// win2: A and B both inside the window at the same node; release A, then B.  Order A, B.
	y, depthB, okB := c.windowNode(pB)
	valid := ok && okB && x == y && depth == depthB
	if !valid {
		a := c.t.Add(pA, vA)
		b := c.t.Add(pB, vB)
		return res(a, b)
	}
	ga, gb := ccNewGate(), ccNewGate()
	doneA, doneB := make(chan error, 1), make(chan error, 1)
	go func() { ga.bind(); defer ga.unbind(); doneA <- c.t.Add(pA, vA) }()
	if w := ga.waitParked(doneA); w != "" {
		return w
	}
	go func() { gb.bind(); defer gb.unbind(); doneB <- c.t.Add(pB, vB) }()
	if w := gb.waitParked(doneB); w != "" {
		return w
	}
	ga.release()
	a, tout := ccWaitErr(doneA)
	if tout {
		return ccTimedOut("deadlock")
	}
	gb.release()
	b, tout := ccWaitErr(doneB)
	if tout {
		return ccTimedOut("deadlock")
	}
	atomic.AddInt64(&ccForced, 1)
	return res(a, b)
}

func (c *ccComp) windowDelete(pA []string, vA int, q []string) string {
	del := func() string {
		var out []string
		for _, p := range c.t.Delete(q) {
			out = append(out, encPath(p))
		}
		return sortedBracket(out)
	}
	if atomic.LoadInt32(&ccBroken) != 0 {
		return "skipped-after-timeout"
	}
	_, depth, ok := c.windowNode(pA)
	if !(ok && depth == 0) {
		a := c.t.Add(pA, vA)
		d := del()
		return ccStatus(a) + "," + d + " " + c.walks()
	}
	ga := ccNewGate()
	doneA := make(chan error, 1)
	go func() { ga.bind(); defer ga.unbind(); doneA <- c.t.Add(pA, vA) }()
	if w := ga.waitParked(doneA); w != "" {
		return w
	}
	d := del() // the add holds no lock: the delete is not delayed
	ga.release()
	a, tout := ccWaitErr(doneA)
	if tout {
		return ccTimedOut("deadlock")
	}
	atomic.AddInt64(&ccForced, 1)
	return ccStatus(a) + "," + d + " " + c.walks()
}

func ccWaitErr(ch chan error) (error, bool) {
	select {
	case e := <-ch:
		return e, false
	case <-time.After(ccDeadline):
		return nil, true
	}
}

// gate parks one goroutine at its first ctree.add.upgrade schedule point.
type ccGate struct {
	parked, go_ chan struct{}
	gid         int64
	used        int32
}

var ccGates sync.Map // goroutine id -> *ccGate

func ccNewGate() *ccGate { return &ccGate{parked: make(chan struct{}), go_: make(chan struct{})} }

func ccGoid() int64 {
	var buf [64]byte
	n := runtime.Stack(buf[:], false)
	f := strings.Fields(string(buf[:n]))
	if len(f) < 2 {
		return -1
	}
	id, _ := strconv.ParseInt(f[1], 10, 64)
	return id
}

func (g *ccGate) bind() {
	g.gid = ccGoid()
	ccGates.Store(g.gid, g)
}
func (g *ccGate) unbind() { ccGates.Delete(g.gid) }
// waitParked returns "" once the goroutine is parked at the schedule point; otherwise the
// observation to report (the add returned without reaching the point, or nothing happened).
func (g *ccGate) waitParked(done chan error) string {
	select {
	case <-g.parked:
		return ""
	case <-done:
		return "window-not-entered"
	case <-time.After(ccDeadline):
		return ccTimedOut("stuck-before-window")
	}
}
func (g *ccGate) release() { close(g.go_) }

func ccHook(name string) {
	if name != "ctree.add.upgrade" {
		return
	}
	v, ok := ccGates.Load(ccGoid())
	if !ok {
		return
	}
	g := v.(*ccGate)
	if !atomic.CompareAndSwapInt32(&g.used, 0, 1) {
		return
	}
	close(g.parked)
	<-g.go_
}

// ---------------------------------------------------------------- free-running stress

type ccOp struct {
	g         int
	kind      string // add get del query hupd hval walk
	path      []string
	val       int
	inv, resp int64
	ok        bool           // add status
	got       int            // get/hval result (0 = nil)
	removed   []string       // del result (joined keys, sorted)
	seen      map[string]int // query/walk result
	dupKey    bool           // query reported a key twice
}

const ccSep = "\x00"

func ccKey(p []string) string { return strings.Join(p, ccSep) }

func ccUnkey(k string) []string {
	if k == "" {
		return nil
	}
	return strings.Split(k, ccSep)
}

// the sequential specification (mirror of lean/Gnmi/Spec/PMap.lean)
func ccSpecConflict(m map[string]int, p []string) bool {
	for k := range m {
		kp := ccUnkey(k)
		if len(kp) == len(p) {
			continue
		}
		if ccHasPrefix(p, kp) || ccHasPrefix(kp, p) {
			return true
		}
	}
	return false
}

func ccQmatches(q, k []string) bool {
	for i := 0; ; i++ {
		if i == len(q) {
			return true
		}
		if i == len(k) {
			return len(q) == i+1 && q[i] == "*"
		}
		if q[i] != "*" && q[i] != k[i] {
			return false
		}
	}
}

func ccSnapshot(t *ctree.Tree) map[string]int {
	m := map[string]int{}
	t.WalkSorted(func(p []string, _ *ctree.Leaf, v interface{}) error {
		m[ccKey(p)] = v.(int)
		return nil
	})
	return m
}

func ccSameMap(a, b map[string]int) bool {
	if len(a) != len(b) {
		return false
	}
	for k, v := range a {
		if w, ok := b[k]; !ok || w != v {
			return false
		}
	}
	return true
}

func ccStateKey(m map[string]int) string {
	ks := make([]string, 0, len(m))
	for k, v := range m {
		ks = append(ks, k+"="+strconv.Itoa(v))
	}
	sort.Strings(ks)
	return strings.Join(ks, "\x01")
}

// apply one operation of the history to the sequential state; false = its recorded result
// is not the sequential one here.
func ccSpecApply(m map[string]int, o *ccOp) (map[string]int, bool) {
	switch o.kind {
	case "add":
		if ccSpecConflict(m, o.path) {
			return m, !o.ok
		}
		if !o.ok {
			return m, false
		}
		n := make(map[string]int, len(m)+1)
		for k, v := range m {
			n[k] = v
		}
		n[ccKey(o.path)] = o.val
		return n, true
	case "get", "hval":
		return m, m[ccKey(o.path)] == o.got
	case "hupd": // handle of a leaf that is attached throughout the round
		k := ccKey(o.path)
		if _, ok := m[k]; !ok {
			return m, false
		}
		n := make(map[string]int, len(m))
		for kk, v := range m {
			n[kk] = v
		}
		n[k] = o.val
		return n, true
	case "del":
		var rem []string
		n := make(map[string]int, len(m))
		for k, v := range m {
			if ccQmatches(o.path, ccUnkey(k)) {
				rem = append(rem, k)
			} else {
				n[k] = v
			}
		}
		sort.Strings(rem)
		if len(rem) != len(o.removed) {
			return m, false
		}
		for i := range rem {
			if rem[i] != o.removed[i] {
				return m, false
			}
		}
		return n, true
	case "walk":
		return m, ccSameMap(m, o.seen)
	}
	return m, true
}

// linearizable: Wing–Gong search with memoisation.  ops are the point operations of one
// round (at most 63), init the content at the preceding quiescent point.
func ccLinearizable(init map[string]int, ops []*ccOp) bool {
	n := len(ops)
	if n > 63 {
		return true // not checked (never generated)
	}
	failed := map[string]bool{}
	budget := 400000 // search nodes; an exhausted budget counts as "no violation found"
	var rec func(done uint64, st map[string]int) bool
	rec = func(done uint64, st map[string]int) bool {
		if done == (uint64(1)<<uint(n))-1 {
			return true
		}
		if budget--; budget < 0 {
			atomic.AddInt64(&ccGaveUp, 1)
			return true
		}
		mk := strconv.FormatUint(done, 16) + "|" + ccStateKey(st)
		if failed[mk] {
			return false
		}
		// the earliest response among the not yet linearised operations bounds the candidates
		minResp := int64(1<<62 - 1)
		for i := 0; i < n; i++ {
			if done&(1<<uint(i)) == 0 && ops[i].resp < minResp {
				minResp = ops[i].resp
			}
		}
		for i := 0; i < n; i++ {
			if done&(1<<uint(i)) != 0 || ops[i].inv > minResp {
				continue
			}
			if st2, ok := ccSpecApply(st, ops[i]); ok {
				if rec(done|1<<uint(i), st2) {
					return true
				}
			}
		}
		failed[mk] = true
		return false
	}
	return rec(0, init)
}

// queryStable checks one finished Query against the round's history: it must have
// reported every matching key that was certainly present for its whole duration, nothing
// that was certainly absent for its whole duration, no value nobody wrote, no key twice.
func ccQueryStable(init map[string]int, ops []*ccOp, q *ccOp) string {
	if q.dupKey {
		return "query-duplicate"
	}
	type src struct {
		inv, resp int64
		val       int
	}
	srcs := map[string][]src{}
	for k, v := range init {
		srcs[k] = append(srcs[k], src{0, 0, v})
	}
	var dels []*ccOp
	for _, o := range ops {
		switch o.kind {
		case "add":
			if o.ok {
				srcs[ccKey(o.path)] = append(srcs[ccKey(o.path)], src{o.inv, o.resp, o.val})
			}
		case "hupd":
			srcs[ccKey(o.path)] = append(srcs[ccKey(o.path)], src{o.inv, o.resp, o.val})
		case "del":
			dels = append(dels, o)
		}
	}
	for k, ss := range srcs {
		kp := ccUnkey(k)
		if !ccQmatches(q.path, kp) {
			continue
		}
		// certainly present throughout: written before the query started and no matching
		// delete overlapping or following that write before the query ended
		must := false
		for _, s := range ss {
			if s.resp >= q.inv && !(s.inv == 0 && s.resp == 0) {
				continue
			}
			clean := true
			for _, d := range dels {
				if ccQmatches(d.path, kp) && d.resp > s.inv && d.inv < q.resp {
					clean = false
					break
				}
			}
			if clean {
				must = true
				break
			}
		}
		if _, rep := q.seen[k]; must && !rep {
			return "query-missed-stable-leaf"
		}
	}
	for k, v := range q.seen {
		kp := ccUnkey(k)
		if !ccQmatches(q.path, kp) {
			return "query-reported-nonmatching"
		}
		okVal := false
		for _, s := range srcs[k] {
			if s.val == v && s.inv < q.resp {
				okVal = true
			}
		}
		if !okVal {
			return "query-reported-never-present"
		}
		// certainly absent throughout: a matching delete finished before the query started
		// and every write of the key is before that delete or after the query
		for _, d := range dels {
			if !ccQmatches(d.path, kp) || d.resp >= q.inv {
				continue
			}
			all := true
			for _, s := range srcs[k] {
				if !(s.resp < d.inv || s.inv > q.resp) {
					all = false
					break
				}
			}
			if all {
				return "query-reported-never-present"
			}
		}
	}
	return ""
}

type ccHandle struct {
	path []string
	l    *ctree.Leaf
}

func (c *ccComp) stress(seed int64, G, rounds int, mode string) (verdict string) {
	if atomic.LoadInt32(&ccBroken) != 0 {
		return "skipped-after-timeout"
	}
	if G < 1 {
		G = 1
	}
	if G > 16 {
		G = 16
	}
	t := &ctree.Tree{}
	master := rand.New(rand.NewSource(seed))
	var clk, valCtr int64
	tick := func() int64 { return atomic.AddInt64(&clk, 1) }
	newVal := func() int { return int(atomic.AddInt64(&valCtr, 1)) }
	var handles []ccHandle
	univ := func(r *rand.Rand) []string { return ccLit(r, 3) }

	for round := 0; round < rounds; round++ {
		init := ccSnapshot(t)
		// handles that are still attached (checked while quiescent)
		live := handles[:0]
		for _, h := range handles {
			if t.GetLeaf(h.path) == h.l {
				live = append(live, h)
			}
		}
		handles = live
		kind := master.Intn(100)
		rtype := "mixed"
		switch {
		case kind < 35:
			rtype = "fresh"
		case kind < 70:
			rtype = "mixed"
		case kind < 90:
			rtype = "handles"
		default:
			rtype = "wipe"
		}
		if mode == "hd" && kind%2 == 0 {
			rtype = "hd"
		}
		if mode == "d15" {
			rtype = "d15"
		}
		seeds := make([]int64, G)
		for i := range seeds {
			seeds[i] = master.Int63()
		}
		depth := 1 + master.Intn(3)
		// keep a round's history small enough for the linearizability search
		per := 24 / G
		if per > 4 {
			per = 4
		}
		if per < 1 {
			per = 1
		}
		hist := make([][]*ccOp, G)
		newH := make([][]ccHandle, G)
		var panicked, unsorted, nodeBad int32
		start := make(chan struct{})
		var wg sync.WaitGroup
		hsnap := append([]ccHandle(nil), handles...)
		for g := 0; g < G; g++ {
			wg.Add(1)
			go func(g int) {
				defer wg.Done()
				defer func() {
					if r := recover(); r != nil {
						atomic.StoreInt32(&panicked, 1)
						if os.Getenv("VERIF_PANIC_TEXT") != "" {
							fmt.Fprintln(os.Stderr, "cc stress panic:", r)
						}
					}
				}()
				r := rand.New(rand.NewSource(seeds[g]))
				rec := func(o *ccOp) { hist[g] = append(hist[g], o) }
				doAdd := func(p []string) {
					o := &ccOp{g: g, kind: "add", path: p, val: newVal()}
					o.inv = tick()
					o.ok = t.Add(p, o.val) == nil
					o.resp = tick()
					rec(o)
				}
				doGet := func(p []string) {
					o := &ccOp{g: g, kind: "get", path: p}
					o.inv = tick()
					if v, ok := t.GetLeafValue(p).(int); ok {
						o.got = v
					}
					o.resp = tick()
					rec(o)
				}
				doQuery := func(q []string, keep bool) {
					o := &ccOp{g: g, kind: "query", path: q, seen: map[string]int{}}
					o.inv = tick()
					t.Query(q, func(p []string, l *ctree.Leaf, v interface{}) error {
						k := ccKey(p)
						if _, dup := o.seen[k]; dup {
							o.dupKey = true
						}
						o.seen[k] = v.(int)
						if keep && len(p) > 0 {
							newH[g] = append(newH[g], ccHandle{cloneStrs(p), l})
						}
						return nil
					})
					o.resp = tick()
					rec(o)
				}
				doDel := func(q []string) {
					o := &ccOp{g: g, kind: "del", path: q}
					o.inv = tick()
					for _, p := range t.Delete(q) {
						o.removed = append(o.removed, ccKey(p))
					}
					o.resp = tick()
					sort.Strings(o.removed)
					rec(o)
				}
				doHupd := func(h ccHandle) {
					o := &ccOp{g: g, kind: "hupd", path: h.path, val: newVal()}
					o.inv = tick()
					h.l.Update(o.val)
					o.resp = tick()
					rec(o)
				}
				doHval := func(h ccHandle) {
					o := &ccOp{g: g, kind: "hval", path: h.path}
					o.inv = tick()
					if v, ok := h.l.Value().(int); ok {
						o.got = v
					}
					o.resp = tick()
					rec(o)
				}
				// Walk / WalkSorted: recorded as the query `nil` (same monitor: query stability);
				// WalkSorted additionally has to report in lexicographic path order
				doWalk := func(sorted bool) {
					o := &ccOp{g: g, kind: "query", path: nil, seen: map[string]int{}}
					var prev []string
					first := true
					f := func(p []string, l *ctree.Leaf, v interface{}) error {
						k := ccKey(p)
						if _, dup := o.seen[k]; dup {
							o.dupKey = true
						}
						o.seen[k] = v.(int)
						if sorted {
							if !first && !ccPathLess(prev, p) {
								atomic.StoreInt32(&unsorted, 1)
							}
							prev, first = cloneStrs(p), false
						}
						return nil
					}
					o.inv = tick()
					if sorted {
						t.WalkSorted(f)
					} else {
						t.Walk(f)
					}
					o.resp = tick()
					rec(o)
				}
				// IsBranch / Value / Children on the root or on the node Get(p) hands out (the read-side
				// node operations of Model/CTreeConcX.lean).  Children on a retained non-root BRANCH
				// node used to be called only when no delete ran in the round (branchOK): that
				// combination was the finding C10Safe.children_on_branch_races (a map iteration against
				// internalDelete's map write), repaired in /repo by 8e5fd17 — it now runs in every round.
				// Monitors: no panic, no deadlock, no race report, and the answers of one node are
				// consistent with its kind.
				doNode := func(p []string, branchOK bool) {
					n := t
					if len(p) > 0 {
						n = t.Get(p)
					}
					br := n.IsBranch()
					v := n.Value()
					if n != t && br && v != nil {
						atomic.StoreInt32(&nodeBad, 1) // a non-root node never changes its kind
					}
					_ = branchOK
					{
						ch := n.Children()
						if n != t && !br && ch != nil {
							atomic.StoreInt32(&nodeBad, 1)
						}
						for _, c := range ch {
							if c == nil {
								atomic.StoreInt32(&nodeBad, 1)
							}
						}
					}
				}
				<-start
				switch rtype {
				case "fresh":
					// many concurrent adds beneath a branch that does not exist yet
					base := []string{fmt.Sprintf("f%d", round)}
					for d := 1; d < depth; d++ {
						base = append(base, "m")
					}
					doAdd(append(cloneStrs(base), fmt.Sprintf("g%d", g)))
					if per > 1 || g%2 == 0 {
						doAdd(append(cloneStrs(base), "s", fmt.Sprintf("g%d", g), "z"))
					}
					if per > 2 && r.Intn(2) == 0 {
						doGet(append(cloneStrs(base), fmt.Sprintf("g%d", (g+1)%G)))
					}
					if g%3 == 0 {
						doNode(base[:r.Intn(len(base)+1)], true)
					}
				case "mixed":
					for i := 0; i < per; i++ {
						switch x := r.Intn(100); {
						case x < 40:
							doAdd(univ(r))
						case x < 55:
							if x%3 == 0 {
								p := univ(r)
								doNode(p[:r.Intn(len(p)+1)], false)
							} else {
								doGet(univ(r))
							}
						case x < 75:
							if x%4 == 0 {
								doWalk(x%8 == 0)
								break
							}
							q := ccLit(r, 2)
							if r.Intn(2) == 0 {
								q[r.Intn(len(q))] = "*"
							}
							if r.Intn(4) == 0 {
								q = nil
							}
							doQuery(q, false)
						default:
							q := ccLit(r, 2)
							if r.Intn(3) == 0 {
								q[r.Intn(len(q))] = "*"
							}
							doDel(q)
						}
					}
				case "handles":
					// no delete in this round: every handle taken at a quiescent point stays attached
					for i := 0; i < per; i++ {
						switch x := r.Intn(100); {
						case x < 30:
							doAdd(univ(r))
						case x < 45:
							if x%2 == 0 {
								p := univ(r)
								doNode(p[:r.Intn(len(p)+1)], true)
							} else {
								doGet(univ(r))
							}
						case x < 60:
							if x%5 == 0 {
								doWalk(x%2 == 0)
							} else {
								doQuery(ccLit(r, 1), true)
							}
						case x < 85:
							if len(hsnap) > 0 {
								doHupd(hsnap[r.Intn(len(hsnap))])
							} else {
								doAdd(univ(r))
							}
						default:
							if len(hsnap) > 0 {
								doHval(hsnap[r.Intn(len(hsnap))])
							} else {
								doGet(univ(r))
							}
						}
					}
				case "wipe":
					if g == 0 {
						doDel(nil)
					} else {
						doAdd(univ(r))
						switch g % 4 {
						case 1:
							doWalk(false)
						case 2:
							doWalk(true)
						case 3:
							doNode(nil, false)
							doQuery(nil, false)
						default:
							doQuery(nil, false)
						}
					}
				case "hd":
					// handle updates concurrent with deletes (must be race free: regression for D15)
					for i := 0; i < 6; i++ {
						switch x := r.Intn(100); {
						case x < 30:
							doAdd(univ(r))
						case x < 50:
							q := ccLit(r, 2)
							if r.Intn(3) == 0 {
								q[0] = "*" // reaches every node through the enumerate arm entered at the root
							}
							if r.Intn(8) == 0 {
								q = nil
							}
							doDel(q)
						case x < 80:
							if len(hsnap) > 0 {
								doHupd(hsnap[r.Intn(len(hsnap))])
							} else {
								doAdd(univ(r))
							}
						case x < 90:
							doQuery(ccLit(r, 1), true)
						default:
							if len(hsnap) > 0 {
								h := hsnap[r.Intn(len(hsnap))]
								doHval(h)
								doNode(h.path, false) // Tree.Value / IsBranch / Children on the (leaf) node
							}
						}
					}
				case "d15":
					// directed: Leaf.Update through retained handles while an ancestor is deleted
					if g == 0 {
						// by an exact first element, and through the enumerate-all-children arm entered at
						// the root (whole tree, leading wildcards): every node below the root is read under
						// its own lock whichever arm reaches it
						doDel([][]string{{"a"}, {}, {"*"}, {"*", "*"}, {"a", "*"}}[round%5])
					} else {
						for i := 0; i < 200 && len(hsnap) > 0; i++ {
							doHupd(hsnap[(g+i)%len(hsnap)])
						}
					}
				}
			}(g)
		}
		close(start)
		done := make(chan struct{})
		go func() { wg.Wait(); close(done) }()
		select {
		case <-done:
		case <-time.After(ccDeadline):
			return ccTimedOut("deadlock")
		}
		if atomic.LoadInt32(&panicked) != 0 {
			return "panic"
		}
		if atomic.LoadInt32(&unsorted) != 0 {
			return "walksorted-unsorted"
		}
		if atomic.LoadInt32(&nodeBad) != 0 {
			return "node-op-inconsistent"
		}
		final := ccSnapshot(t)
		var all []*ccOp
		for g := range hist {
			all = append(all, hist[g]...)
			handles = append(handles, newH[g]...)
		}
		if mode == "d15" {
			// re-create the deleted leaves and take fresh handles for the next round
			for _, p := range [][]string{{"a", "b"}, {"a", "c", "d"}} {
				t.Add(p, newVal())
				handles = append(handles, ccHandle{p, t.GetLeaf(p)})
			}
			continue
		}
		if len(handles) > 64 {
			handles = handles[len(handles)-64:]
		}
		if rtype == "hd" {
			continue // a handle may get detached mid-round: these histories are only run for -race
		}
		// monitor: concurrent adds beneath a new branch all survive
		if rtype == "fresh" {
			for _, o := range all {
				if o.kind != "add" {
					continue
				}
				if !o.ok {
					return "fresh-add-failed"
				}
				if v, ok := final[ccKey(o.path)]; !ok || v != o.val {
					return "lost-leaf"
				}
			}
		}
		// monitor: point operations linearizable, final content = that sequential ordering
		var pts []*ccOp
		maxT := int64(0)
		for _, o := range all {
			if o.resp > maxT {
				maxT = o.resp
			}
			if o.kind != "query" {
				pts = append(pts, o)
			}
		}
		pts = append(pts, &ccOp{kind: "walk", inv: maxT + 1, resp: maxT + 2, seen: final})
		sort.Slice(pts, func(i, j int) bool { return pts[i].inv < pts[j].inv })
		if !ccLinearizable(init, pts) {
			if os.Getenv("VERIF_CC_DEBUG") != "" {
				ccDumpHistory(init, pts)
			}
			return "not-linearizable"
		}
		// monitor: query stability
		for _, o := range all {
			if o.kind == "query" {
				if m := ccQueryStable(init, all, o); m != "" {
					if os.Getenv("VERIF_CC_DEBUG") != "" {
						ccDumpHistory(init, append(pts, o))
					}
					return m
				}
			}
		}
	}
	return "ok"
}

// ccPathLess: strict lexicographic order on paths (the order of WalkSorted)
func ccPathLess(a, b []string) bool {
	for i := 0; i < len(a) && i < len(b); i++ {
		if a[i] != b[i] {
			return a[i] < b[i]
		}
	}
	return len(a) < len(b)
}

func ccDumpHistory(init map[string]int, ops []*ccOp) {
	fmt.Fprintf(os.Stderr, "init %q\n", ccStateKey(init))
	for _, o := range ops {
		fmt.Fprintf(os.Stderr, "g%d %s %s v=%d [%d,%d] ok=%v got=%d removed=%q seen=%v\n",
			o.g, o.kind, encPath(o.path), o.val, o.inv, o.resp, o.ok, o.got, o.removed, o.seen)
	}
}


// cc cdel: a conditional delete and an update through a retained leaf handle on the same path.  The delete
// evaluates its condition on the value it read and reports — and removes — exactly that state of the leaf:
// the update is made from INSIDE the condition callback (on the deleting goroutine, which holds the root's
// write lock only; the handle takes the leaf's own lock), i.e. after the value was inspected and before it is
// reported.  Every value handed to the delete's callback must satisfy the condition, for WalkDeleted and for
// DeleteConditional, on leaves at several depths.  Found necessary by seeded change c10_seed9 (the leaf value
// re-read after the condition was evaluated).  Observation: the monitor's verdict only.
func ccCondDelete() string {
	for depth := 1; depth <= 4; depth++ {
		for variant := 0; variant < 2; variant++ {
			t := &ctree.Tree{}
			p := []string{"a", "b", "c", "d"}[:depth]
			if err := t.Add(p, 10); err != nil {
				return "mon=setup-failed"
			}
			t.Add([]string{"k"}, 12)
			h := t.GetLeaf(p)
			if h == nil {
				return "mon=setup-failed"
			}
			updated := false
			cond := func(v interface{}) bool {
				n, _ := v.(int)
				ok := n%2 == 0 // even values are deleted
				if ok && n == 10 && !updated {
					updated = true
					h.Update(31) // lands after the value was inspected, before it is reported
				}
				return ok
			}
			var reported []interface{}
			q := p[:1]
			if variant == 0 {
				t.WalkDeleted(q, cond, func(v interface{}) { reported = append(reported, v) })
			} else {
				// DeleteConditional reports paths only; the state it acted on shows in what is left
				t.DeleteConditional(q, cond)
			}
			for _, v := range reported {
				if n, _ := v.(int); n%2 != 0 {
					return "mon=FAIL:delete-reported-a-value-its-condition-rejects depth=" + strconv.Itoa(depth)
				}
			}
			if variant == 0 && len(reported) != 1 {
				return "mon=FAIL:delete-reported-" + strconv.Itoa(len(reported)) + "-values depth=" + strconv.Itoa(depth)
			}
			if t.GetLeafValue(p) != nil {
				return "mon=FAIL:leaf-survived-a-delete-whose-condition-it-met depth=" + strconv.Itoa(depth)
			}
			if v := t.GetLeafValue([]string{"k"}); v != 12 {
				return "mon=FAIL:other-leaf-changed"
			}
		}
	}
	return "mon=ok"
}
