package main

import (
	"fmt"
	"math"
	"math/rand"
	"sort"
	"strconv"
	"strings"
	"time"

	"github.com/openconfig/gnmi/latency"
	"github.com/openconfig/gnmi/metadata"
)

// md: the metadata package driven through its whole exported API from one goroutine: the three
// package-level registries (Register*/Unregister*) and one Metadata object.
type mdComp struct {
	m     *metadata.Metadata
	snapB map[string]bool
	snapI map[string]*metadata.IntValue
	snapS map[string]*metadata.StrValue
}

func init() {
	c := &mdComp{snapB: map[string]bool{}, snapI: map[string]*metadata.IntValue{}, snapS: map[string]*metadata.StrValue{}}
	// the package's own initial registries, as the package initialised them (the model's
	// Registry.std is compared with them by the `dump` that follows every `new`)
	for k, v := range metadata.TargetBoolValues {
		c.snapB[k] = v
	}
	for k, v := range metadata.TargetIntValues {
		c.snapI[k] = mdCloneInt(v)
	}
	for k, v := range metadata.TargetStrValues {
		c.snapS[k] = mdCloneStr(v)
	}
	components["md"] = c
}

func mdCloneInt(v *metadata.IntValue) *metadata.IntValue {
	if v == nil {
		return nil
	}
	return &metadata.IntValue{Path: append([]string(nil), v.Path...), InitZero: v.InitZero}
}

func mdCloneStr(v *metadata.StrValue) *metadata.StrValue {
	if v == nil {
		return nil
	}
	return &metadata.StrValue{ResetAction: v.ResetAction}
}

// restore puts the package-level registries back to their initial contents (whatever earlier
// sequences, or other components of this process, registered).
func (c *mdComp) restore() {
	for k := range metadata.TargetBoolValues {
		delete(metadata.TargetBoolValues, k)
	}
	for k, v := range c.snapB {
		metadata.TargetBoolValues[k] = v
	}
	for k := range metadata.TargetIntValues {
		delete(metadata.TargetIntValues, k)
	}
	for k, v := range c.snapI {
		metadata.TargetIntValues[k] = mdCloneInt(v)
	}
	for k := range metadata.TargetStrValues {
		delete(metadata.TargetStrValues, k)
	}
	for k, v := range c.snapS {
		metadata.TargetStrValues[k] = mdCloneStr(v)
	}
}

func mdErr(err error) string {
	switch {
	case err == nil:
		return "ok"
	case err == metadata.ErrInvalidValue:
		return "err:invalid"
	case err == metadata.ErrUnsetValue:
		return "err:unset"
	}
	return "err:unsupported"
}

func mdMap(tag string, items []string) string {
	sort.Strings(items)
	return tag + bracket(items)
}

func (c *mdComp) dump() string {
	var b, i, s, vb, vi, vs []string
	for k, v := range metadata.TargetBoolValues {
		b = append(b, encStr(k)+"="+strconv.FormatBool(v))
	}
	for k, v := range metadata.TargetIntValues {
		if v == nil {
			i = append(i, encStr(k)+"=nil")
			continue
		}
		z := "0"
		if v.InitZero {
			z = "1"
		}
		i = append(i, encStr(k)+"="+encPath(v.Path)+":"+z)
	}
	for k, v := range metadata.TargetStrValues {
		if v == nil {
			s = append(s, encStr(k)+"=nil")
			continue
		}
		s = append(s, encStr(k)+"="+strconv.Itoa(int(v.ResetAction)))
	}
	mi, mb, ms := c.m.VerifDump()
	for k, v := range mb {
		vb = append(vb, encStr(k)+"="+strconv.FormatBool(v))
	}
	for k, v := range mi {
		vi = append(vi, encStr(k)+"="+strconv.FormatInt(v, 10))
	}
	for k, v := range ms {
		vs = append(vs, encStr(k)+"="+encStr(v))
	}
	return strings.Join([]string{mdMap("B", b), mdMap("I", i), mdMap("S", s), mdMap("vb", vb), mdMap("vi", vi), mdMap("vs", vs)}, " ")
}

func (c *mdComp) Run(args []string) string {
	if len(args) == 0 {
		return "bad-op"
	}
	atoi := func(s string) int64 { v, _ := strconv.ParseInt(s, 10, 64); return v }
	need := func(n int) bool { return len(args) == n }
	switch args[0] {
	case "new":
		if !need(1) {
			return "bad-op"
		}
		c.restore()
		c.m = metadata.New()
		return "ok"
	case "dump":
		return c.dump()
	case "newmd":
		c.m = metadata.New()
		return "ok"
	case "addint":
		if !need(3) {
			return "bad-op"
		}
		return mdErr(c.m.AddInt(decStr(args[1]), atoi(args[2])))
	case "setint":
		if !need(3) {
			return "bad-op"
		}
		return mdErr(c.m.SetInt(decStr(args[1]), atoi(args[2])))
	case "getint":
		if !need(2) {
			return "bad-op"
		}
		v, err := c.m.GetInt(decStr(args[1]))
		if err != nil {
			return mdErr(err)
		}
		return "i:" + strconv.FormatInt(v, 10)
	case "setbool":
		if !need(3) {
			return "bad-op"
		}
		return mdErr(c.m.SetBool(decStr(args[1]), args[2] == "true"))
	case "getbool":
		if !need(2) {
			return "bad-op"
		}
		v, err := c.m.GetBool(decStr(args[1]))
		if err != nil {
			return mdErr(err)
		}
		return "b:" + strconv.FormatBool(v)
	case "setstr":
		if !need(3) {
			return "bad-op"
		}
		return mdErr(c.m.SetStr(decStr(args[1]), decStr(args[2])))
	case "getstr":
		if !need(2) {
			return "bad-op"
		}
		v, err := c.m.GetStr(decStr(args[1]))
		if err != nil {
			return mdErr(err)
		}
		return "s:" + encStr(v)
	case "reset":
		if !need(2) {
			return "bad-op"
		}
		return mdErr(c.m.ResetEntry(decStr(args[1])))
	case "clear":
		c.m.Clear()
		return "ok"
	case "path":
		if !need(2) {
			return "bad-op"
		}
		return encPath(metadata.Path(decStr(args[1])))
	case "regint":
		switch {
		case len(args) == 3 && args[2] == "nil":
			metadata.RegisterIntValue(decStr(args[1]), nil)
		case len(args) == 4:
			metadata.RegisterIntValue(decStr(args[1]), &metadata.IntValue{Path: decPath(args[2]), InitZero: args[3] == "1"})
		default:
			return "bad-op"
		}
		return "ok"
	case "unregint":
		if !need(2) {
			return "bad-op"
		}
		metadata.UnregisterIntValue(decStr(args[1]))
		return "ok"
	case "regstr":
		if !need(3) {
			return "bad-op"
		}
		if args[2] == "nil" {
			metadata.RegisterStrValue(decStr(args[1]), nil)
		} else {
			metadata.RegisterStrValue(decStr(args[1]), &metadata.StrValue{ResetAction: metadata.ResetAction(atoi(args[2]))})
		}
		return "ok"
	case "unregstr":
		if !need(2) {
			return "bad-op"
		}
		metadata.UnregisterStrValue(decStr(args[1]))
		return "ok"
	case "reglat":
		if !need(2) {
			return "bad-op"
		}
		var ws []time.Duration
		if args[1] != "-" {
			for _, w := range strings.Split(args[1], ",") {
				p := strings.SplitN(w, ":", 2)
				if len(p) != 2 {
					return "bad-op"
				}
				d := time.Duration(atoi(p[0]))
				// the label on the line is what the model uses: it must be the package's own
				if latency.CompactDurationString(d) != decStr(p[1]) {
					return "bad-window-label"
				}
				ws = append(ws, d)
			}
		}
		metadata.RegisterLatencyMetadata(ws)
		return "ok"
	case "regsn":
		metadata.RegisterServerNameMetadata()
		return "ok"
	case "unregsn":
		metadata.UnregisterServerNameMetadata()
		return "ok"
	}
	return "bad-op"
}

// ---------------------------------------------------------------- generating

var (
	mdBools   = []string{metadata.Sync, metadata.Connected}
	mdInts    = []string{metadata.LeafCount, metadata.AddCount, metadata.LatestTimestamp, metadata.Size, metadata.UpdateCount}
	mdStrs    = []string{metadata.ConnectedAddr, metadata.ConnectError, metadata.ServerName}
	mdCustom  = []string{"xi", "xs", "dual", "x/y"}
	mdUnknown = []string{"bogus", "", "Sync"}
	mdStrVals = []string{"", "a", "srv1", "x y", "é", "boom"}
	mdIntVals = []int64{0, 1, -1, 2, 5, 1000, 1 << 62, math.MaxInt64, math.MinInt64, -(1 << 62)}
	mdWindows = []time.Duration{2 * time.Second, time.Minute, 90 * time.Second, 2 * time.Hour, 1500 * time.Millisecond}
)

type mdGen struct {
	r    *rand.Rand
	seq  []string
	lat  []string // latency names registered so far
	regd []string // names this sequence registered (any kind)
}

func (g *mdGen) emit(format string, a ...interface{}) { g.seq = append(g.seq, fmt.Sprintf(format, a...)) }

func mdPick(r *rand.Rand, l []string) string { return l[r.Intn(len(l))] }

// name: mostly a name of the wanted kind, sometimes one registered under another kind, one this
// sequence registered, or an unknown one
func (g *mdGen) name(kind string) string {
	r := g.r
	pools := map[string][]string{"b": mdBools, "i": mdInts, "s": mdStrs}
	switch x := r.Intn(20); {
	case x < 11:
		p := pools[kind]
		if kind == "i" && len(g.lat) > 0 && r.Intn(3) == 0 {
			p = g.lat
		}
		if kind == "s" && r.Intn(3) == 0 {
			return metadata.ServerName
		}
		return mdPick(r, p)
	case x < 14:
		if len(g.regd) > 0 {
			return mdPick(r, g.regd)
		}
		return mdPick(r, mdCustom)
	case x < 16:
		return mdPick(r, mdCustom)
	case x < 18: // a name of another kind
		other := []string{"b", "i", "s"}[r.Intn(3)]
		return mdPick(r, pools[other])
	default:
		return mdPick(r, mdUnknown)
	}
}

func (g *mdGen) anyName() string { return g.name([]string{"b", "i", "s"}[g.r.Intn(3)]) }

func mdWindowsArg(ws []time.Duration) string {
	if len(ws) == 0 {
		return "-"
	}
	var out []string
	for _, w := range ws {
		out = append(out, fmt.Sprintf("%d:%s", int64(w), encStr(latency.CompactDurationString(w))))
	}
	return strings.Join(out, ",")
}

func (g *mdGen) registryOp() {
	r := g.r
	switch r.Intn(9) {
	case 0, 1:
		g.emit("regsn")
		g.regd = append(g.regd, metadata.ServerName)
	case 2:
		g.emit("unregsn")
	case 3:
		n := r.Intn(3)
		var ws []time.Duration
		for i := 0; i < n; i++ {
			w := mdWindows[r.Intn(len(mdWindows))]
			ws = append(ws, w)
			for _, typ := range []latency.StatType{latency.Avg, latency.Max, latency.Min} {
				g.lat = append(g.lat, latency.MetadataName(w, typ))
			}
		}
		g.emit("reglat %s", mdWindowsArg(ws))
	case 4, 5:
		// an int under a fresh name, a name of another kind (shadowing), or again under a standard one
		n := mdPick(r, [][]string{mdCustom, mdCustom, mdStrs, mdBools, mdInts}[r.Intn(5)])
		g.regd = append(g.regd, n)
		if r.Intn(8) == 0 {
			g.emit("regint %s nil", encStr(n))
		} else {
			p := [][]string{{"meta", n}, {"meta", "x", n}, nil, {n}}[r.Intn(4)]
			g.emit("regint %s %s %d", encStr(n), encPath(p), r.Intn(2))
		}
	case 6, 7:
		n := mdPick(r, [][]string{mdCustom, mdCustom, mdInts, mdBools, mdStrs}[r.Intn(5)])
		g.regd = append(g.regd, n)
		if r.Intn(8) == 0 {
			g.emit("regstr %s nil", encStr(n))
		} else {
			g.emit("regstr %s %d", encStr(n), []int{0, 1, 2, 2, 3, 7}[r.Intn(6)])
		}
	default:
		n := g.anyName()
		if r.Intn(2) == 0 {
			g.emit("unregint %s", encStr(n))
		} else {
			g.emit("unregstr %s", encStr(n))
		}
	}
}

func (g *mdGen) step() {
	r := g.r
	switch x := r.Intn(100); {
	case x < 12:
		g.emit("addint %s %d", encStr(g.name("i")), mdIntVals[r.Intn(len(mdIntVals))])
	case x < 18:
		// a run of increments on one counter (sums, wrap-around)
		n := g.name("i")
		for k := 1 + r.Intn(4); k > 0; k-- {
			g.emit("addint %s %d", encStr(n), mdIntVals[r.Intn(len(mdIntVals))])
		}
		g.emit("getint %s", encStr(n))
	case x < 24:
		g.emit("setint %s %d", encStr(g.name("i")), mdIntVals[r.Intn(len(mdIntVals))])
	case x < 32:
		g.emit("getint %s", encStr(g.name("i")))
	case x < 38:
		g.emit("setbool %s %v", encStr(g.name("b")), r.Intn(2) == 0)
	case x < 44:
		g.emit("getbool %s", encStr(g.name("b")))
	case x < 54:
		g.emit("setstr %s %s", encStr(g.name("s")), encStr(mdPick(r, mdStrVals)))
	case x < 62:
		g.emit("getstr %s", encStr(g.name("s")))
	case x < 72:
		g.emit("reset %s", encStr(g.anyName()))
	case x < 79:
		g.emit("clear")
		if r.Intn(2) == 0 {
			g.emit("dump")
		} else {
			g.emit("getstr %s", encStr(g.name("s")))
		}
	case x < 82:
		g.emit("newmd")
	case x < 86:
		g.emit("path %s", encStr(g.anyName()))
	case x < 97:
		g.registryOp()
	default:
		g.emit("dump")
	}
}

func (c *mdComp) Gen(r *rand.Rand, tier string) []string {
	g := &mdGen{r: r}
	g.emit("new")
	if r.Intn(4) == 0 {
		g.emit("dump")
	}
	// the cache's own prelude, most of the time: register, New, set the server name
	if r.Intn(3) != 0 {
		if r.Intn(3) == 0 {
			ws := []time.Duration{mdWindows[r.Intn(len(mdWindows))]}
			for _, typ := range []latency.StatType{latency.Avg, latency.Max, latency.Min} {
				g.lat = append(g.lat, latency.MetadataName(ws[0], typ))
			}
			g.emit("reglat %s", mdWindowsArg(ws))
		}
		g.emit("regsn")
		g.regd = append(g.regd, metadata.ServerName)
		g.emit("newmd")
		g.emit("setstr %s %s", encStr(metadata.ServerName), encStr(mdPick(r, mdStrVals)))
	}
	n := 6 + r.Intn(30)
	for i := 0; i < n; i++ {
		g.step()
	}
	g.emit("dump")
	g.emit("clear")
	g.emit("dump")
	for _, n := range []string{metadata.ServerName, metadata.ConnectError, metadata.ConnectedAddr} {
		g.emit("getstr %s", encStr(n))
	}
	return g.seq
}

func (c *mdComp) Exhaustive(tier string) [][]string {
	sn := encStr(metadata.ServerName)
	lc := encStr(metadata.LeafCount)
	ops := []string{
		"regsn", "unregsn", "newmd", "clear",
		"setstr " + sn + " srv1",
		"setstr " + encStr(metadata.ConnectError) + " boom",
		"setstr " + encStr(metadata.ConnectedAddr) + " addr",
		"setbool " + encStr(metadata.Sync) + " true",
		"addint " + lc + " 2",
		"setint " + lc + " 5",
		"regint xi /meta/xi 0",
		"addint xi 3",
		"regstr " + lc + " 0", // the counter's name registered as a string too
		"setstr " + lc + " d",
		"reset " + sn,
		"reset " + encStr(metadata.ConnectError),
		"reset " + lc,
		"reset xi",
	}
	depth := 3
	if tier == "thorough" {
		depth = 4
	}
	tail := []string{"getstr " + sn, "getint " + lc, "getint xi", "getstr " + lc, "dump"}
	var out [][]string
	var rec func(prefix []string, d int)
	rec = func(prefix []string, d int) {
		if d == 0 {
			seq := append([]string{"new"}, prefix...)
			out = append(out, append(seq, tail...))
			return
		}
		for _, o := range ops {
			rec(append(cloneStrs(prefix), o), d-1)
		}
	}
	for d := 1; d <= depth; d++ {
		rec(nil, d)
	}
	return out
}
