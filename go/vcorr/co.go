package main

import (
	"context"
	"fmt"
	"math/rand"
	"os"
	"os/exec"
	"runtime"
	"sort"
	"strconv"
	"strings"
	"sync"
	"sync/atomic"
	"time"

	"github.com/openconfig/gnmi/coalesce"
)

// co: coalesce.Queue.
//
//   - sequential API calls from one goroutine (ins/next/len/close/isclosed, plus the
//     read-only probes tok/dump);
//   - the consumer's Next in two phases (nbegin … nresume): the consumer goroutine is parked
//     inside ctx.Done(), which Go evaluates on entering the select of Next, i.e. exactly
//     between the failed q.next() and the blocking select (the window the LTS model calls
//     C1→C2); no change of /repo is needed for this schedule point;
//   - Insert in phases (pcheck = the closed check, pinsert = the real locked section q.insert,
//     ppost = the token post, pins = pcheck+pinsert; check and post are re-enacted through
//     in-package access): the windows of the LTS in which Close lands between the check and
//     the insert (P1→P2) and in which an item is visible while its wake-up token is not yet
//     posted (P2→P3), deterministically;
//   - conc: free-running producers / consumer / closer with the property monitors evaluated
//     on the recorded trace.
//
// Deadlines (coDeadline) are generous and only ever produce the observation `hang`, which
// the model never predicts.
type coComp struct {
	q    *coalesce.Queue
	cons *coConsumer
	gs   *coGenState // the generator's protocol state, replayed while running (see Run)
}

func init() { components["co"] = &coComp{} }

var coDeadline = scaled(20 * time.Second)

// once an operation hung, every later operation of the process answers `hang` at once
// (otherwise a broken tree would cost one deadline per operation).
var coDead atomic.Bool

// the item alphabet: different dynamic types behind interface{}, as map keys
type coLeaf struct{ name string }
type coKey struct {
	a int
	b string
}

var coItems = []interface{}{&coLeaf{"a"}, "b", 2, coKey{3, "x"}}

func coItemIndex(i interface{}) string {
	for k, it := range coItems {
		if it == i {
			return strconv.Itoa(k)
		}
	}
	return "?"
}

func coErr(err error) string {
	switch {
	case err == nil:
		return "nil"
	case coalesce.IsClosedQueue(err):
		return "closed"
	case err == context.Canceled:
		return "canceled"
	}
	return "err"
}

type coNextRes struct {
	i   interface{}
	d   uint32
	err error
}

func (r coNextRes) String() string {
	if r.err != nil {
		return coErr(r.err)
	}
	return fmt.Sprintf("item:%s:%d", coItemIndex(r.i), r.d)
}

// ---- waiting without timing: a deadlock is recognised from a goroutine snapshot ----

// coAllBlocked takes a (stop-the-world, hence consistent) snapshot of all goroutines and
// reports whether every goroutine other than the caller is blocked on a channel, a select
// or a mutex.  Nothing in this process but the caller can then ever wake them (the code
// under test uses no timers), so the caller may stop waiting: the observation `hang` is a
// fact about the state, not about elapsed time.
func coAllBlocked() bool {
	buf := make([]byte, 1<<20)
	buf = buf[:runtime.Stack(buf, true)]
	blocks := strings.Split(string(buf), "\n\n")
	for _, b := range blocks[1:] { // blocks[0] is the calling goroutine
		lb, rb := strings.IndexByte(b, '['), strings.IndexByte(b, ']')
		if lb < 0 || rb < lb {
			continue
		}
		state := b[lb+1 : rb]
		if c := strings.IndexByte(state, ','); c >= 0 {
			state = state[:c]
		}
		blocked := false
		for _, p := range []string{"chan receive", "chan send", "select", "semacquire", "sync.Mutex.Lock",
			"sync.RWMutex", "sync.Cond.Wait", "sync.WaitGroup.Wait"} {
			if strings.HasPrefix(state, p) {
				blocked = true
			}
		}
		if !blocked {
			return false
		}
	}
	return true
}

// coWait waits for ch; ok=false when every other goroutine is blocked for good (or, as a
// last resort against a livelock, after coDeadline).
func coWait[T any](ch <-chan T) (v T, ok bool) {
	start := time.Now()
	stuck := 0
	for {
		select {
		case v = <-ch:
			return v, true
		case <-time.After(2 * time.Millisecond):
			if coAllBlocked() {
				stuck++
			} else {
				stuck = 0
			}
			if stuck >= 2 || time.Since(start) > coDeadline {
				coDead.Store(true)
				return v, false
			}
		}
	}
}

// ---- the schedule point: a context whose Done() parks the caller ----

type coHookCtx struct {
	context.Context
	free    atomic.Bool   // no more parking
	atDone  chan struct{} // consumer -> harness: "I am at the select"
	release chan struct{} // harness -> consumer: "execute the select"
}

func (h *coHookCtx) Done() <-chan struct{} {
	if !h.free.Load() {
		h.atDone <- struct{}{}
		<-h.release
	}
	return h.Context.Done()
}

type coConsumer struct {
	ctx      *coHookCtx
	cancel   context.CancelFunc
	res      chan coNextRes
	parked   bool // consumer sits in Done() and has not been released
	finished bool
}

func (c *coComp) startConsumer() *coConsumer {
	base, cancel := context.WithCancel(context.Background())
	h := &coHookCtx{Context: base, atDone: make(chan struct{}), release: make(chan struct{})}
	cs := &coConsumer{ctx: h, cancel: cancel, res: make(chan coNextRes, 1)}
	q := c.q
	go func() {
		i, d, err := q.Next(h)
		cs.res <- coNextRes{i, d, err}
	}()
	return cs
}

// wait until the consumer returns from Next or arrives at the select
func (cs *coConsumer) await() string {
	ev := make(chan string, 1)
	stop := make(chan struct{})
	defer close(stop)
	go func() {
		select {
		case r := <-cs.res:
			cs.finished = true
			cs.parked = false
			ev <- r.String()
		case <-cs.ctx.atDone:
			cs.parked = true
			ev <- "parked"
		case <-stop:
		}
	}()
	out, ok := coWait(ev)
	if !ok {
		return "hang"
	}
	return out
}

func (cs *coConsumer) unpark() {
	if cs.parked {
		cs.parked = false
		cs.ctx.release <- struct{}{}
	}
}

// abandon a consumer that is still inside Next (end of a sequence): cancel its context,
// stop parking, and let it run out on its own (its queue is not used again)
func (cs *coConsumer) abandon() {
	if cs == nil || cs.finished {
		return
	}
	cs.finished = true
	cs.ctx.free.Store(true)
	cs.cancel()
	parked := cs.parked
	cs.parked = false
	go func() {
		if parked {
			cs.ctx.release <- struct{}{}
			return
		}
		select { // it may have been on its way into Done()
		case <-cs.ctx.atDone:
			cs.ctx.release <- struct{}{}
		case <-time.After(time.Second):
		}
	}()
}

// run f on its own goroutine so that a blocked call is observed, not suffered
func coGuard(f func() string) string {
	ch := make(chan string, 1)
	go func() {
		defer func() {
			if r := recover(); r != nil {
				ch <- "panic"
			}
		}()
		ch <- f()
	}()
	out, ok := coWait(ch)
	if !ok {
		return "hang"
	}
	return out
}

func (c *coComp) Run(args []string) string {
	if len(args) == 0 {
		return "bad-op"
	}
	if args[0] == "new" {
		c.cons.abandon()
		c.cons = nil
		c.q = coalesce.NewQueue()
		c.gs = &coGenState{}
		return "ok"
	}
	if c.q == nil {
		c.q = coalesce.NewQueue()
		c.gs = &coGenState{}
	}
	// Protocol guard: an operation the generator would not emit in this state (it would
	// block, or its observation would depend on which ready select case the runtime picks)
	// is not executed and answers `skip`; the Lean driver applies the same guard.  Generated
	// sequences never contain such an operation; shrunk ones may, and must not diverge there.
	if !c.gs.apply(strings.Join(args, " ")) {
		return "skip"
	}
	if coDead.Load() {
		return "hang"
	}
	q := c.q
	switch args[0] {
	case "ins":
		k, _ := strconv.Atoi(args[1])
		it := coItems[k%len(coItems)]
		return coGuard(func() string {
			ok, err := q.Insert(it)
			switch {
			case err != nil && !ok:
				return "refused" + map[bool]string{true: "", false: "-" + coErr(err)}[coalesce.IsClosedQueue(err)]
			case err != nil:
				return "bad-insert-result"
			case ok:
				return "fresh"
			}
			return "dup"
		})
	case "pins":
		k, _ := strconv.Atoi(args[1])
		it := coItems[k%len(coItems)]
		return coGuard(func() string {
			if q.IsClosed() { // P1
				return "refused"
			}
			if coalesce.VerifInsertLocked(q, it) { // P2, the real q.insert under the real lock
				return "fresh"
			}
			return "dup"
		})
	case "pcheck": // P1 alone: the closed check of Insert (the same select IsClosed performs)
		if q.IsClosed() {
			return "refused"
		}
		return "passed"
	case "pinsert": // P2 alone, for an insert that passed its check earlier (maybe before Close)
		k, _ := strconv.Atoi(args[1])
		it := coItems[k%len(coItems)]
		return coGuard(func() string {
			if coalesce.VerifInsertLocked(q, it) {
				return "fresh"
			}
			return "dup"
		})
	case "ppost":
		coalesce.VerifPostToken(q) // P3
		return "ok"
	case "next":
		cancelled := args[1] == "1"
		ctx, cancel := context.WithCancel(context.Background())
		if cancelled {
			cancel()
		}
		wasClosed := q.IsClosed()
		resc := make(chan coNextRes, 1)
		go func() {
			i, d, err := q.Next(ctx)
			resc <- coNextRes{i, d, err}
		}()
		var out string
		if r, ok := coWait(resc); ok {
			out = r.String()
			// Go's select picks either error when the context is cancelled and the queue closed
			if cancelled && wasClosed && r.err != nil && (out == "closed" || out == "canceled") {
				out = "canceled|closed"
			}
			if r.err != nil && (r.i != nil || r.d != 0) {
				out = "bad-next-result"
			}
		} else {
			out = "hang"
		}
		cancel()
		return out
	case "len":
		return coGuard(func() string { return strconv.Itoa(q.Len()) })
	case "close":
		return coGuard(func() string { q.Close(); return "ok" })
	case "isclosed":
		return strconv.FormatBool(q.IsClosed())
	case "tok":
		_, _, tok, _ := coalesce.VerifDump(q)
		if tok {
			return "1"
		}
		return "0"
	case "dump":
		return coGuard(func() string { return coDump(q) })
	case "nbegin":
		if c.cons != nil && !c.cons.finished {
			return "bad-state"
		}
		c.cons = c.startConsumer()
		return c.cons.await()
	case "cancel":
		if c.cons == nil {
			return "bad-state"
		}
		c.cons.cancel()
		return "ok"
	case "nrelease":
		if c.cons == nil || !c.cons.parked {
			return "bad-state"
		}
		c.cons.unpark()
		return "ok"
	case "nresume":
		if c.cons == nil || c.cons.finished {
			return "bad-state"
		}
		c.cons.unpark()
		return c.cons.await()
	case "nresumec":
		// execute the select with the token case made not ready: of the ready cases the
		// closed / ctx one is taken (one of the runtime's legitimate choices, made
		// deterministic); the token, if any, stays behind as after that choice
		if c.cons == nil || !c.cons.parked {
			return "bad-state"
		}
		had := coalesce.VerifTakeToken(q)
		c.cons.unpark()
		out := c.cons.await()
		if had {
			coalesce.VerifPostToken(q)
		}
		return out
	case "conc":
		if len(args) < 5 {
			return "bad-op"
		}
		seed, _ := strconv.ParseInt(args[1], 10, 64)
		k, _ := strconv.Atoi(args[2])
		n, _ := strconv.Atoi(args[3])
		if k < 1 || k > 8 || n < 1 || n > 100000 {
			return "bad-op"
		}
		if os.Getenv("VERIF_CO_CHILD") != "" {
			return coConc(seed, k, n, args[4])
		}
		return coConcChild(args)
	}
	return "bad-op"
}

// canonical rendering of the internal state: pending items in order, the map sorted
func coDump(q *coalesce.Queue) string {
	queue, m, _, closed := coalesce.VerifDump(q)
	var qs, ms []string
	for _, it := range queue {
		qs = append(qs, coItemIndex(it))
	}
	for k, v := range m {
		ms = append(ms, fmt.Sprintf("%s:%d", coItemIndex(k), v))
	}
	sort.Strings(ms)
	return fmt.Sprintf("q=%s;m=%s;closed=%v", bracket(qs), bracket(ms), closed)
}

// ---- generator ----

// abstract state tracked while generating (a three-valued token: the select of Next picks
// at random among ready cases, after which the token may or may not have been consumed)
type coGenState struct {
	queue     []int
	closed    bool
	tok       int // 0 absent, 1 present, 2 unknown
	parked    bool
	blocked   bool  // released into the real select with no case ready
	mustRes   bool  // an arm became ready while really blocked: the next op must be nresume
	cancelled bool  // context of the two-phase Next
	p3        int   // two-phase inserts that appended an item and have not posted the token
	p2        []int // items of the two-phase inserts that passed the closed check
}

func (s *coGenState) clone() *coGenState {
	c := *s
	c.queue = append([]int(nil), s.queue...)
	c.p2 = append([]int(nil), s.p2...)
	return &c
}

func (s *coGenState) has(i int) bool {
	for _, x := range s.queue {
		if x == i {
			return true
		}
	}
	return false
}

func (s *coGenState) toks() []bool {
	switch s.tok {
	case 0:
		return []bool{false}
	case 1:
		return []bool{true}
	}
	return []bool{false, true}
}

func coJoinTok(vals map[int]bool) int {
	if len(vals) == 1 {
		for v := range vals {
			return v
		}
	}
	return 2
}

// apply applies op to the abstract state; ok=false when the op is not allowed here (it
// would block, or its observation would depend on a runtime choice).
func (s *coGenState) apply(op string) bool {
	f := strings.Fields(op)
	inNext := s.parked || s.blocked
	if len(f) == 0 || (s.mustRes && f[0] != "nresume") {
		return false
	}
	if (f[0] == "ins" || f[0] == "next" || f[0] == "pins" || f[0] == "pcheck" || f[0] == "pinsert") && len(f) != 2 {
		return false
	}
	switch f[0] {
	case "ins":
		i, _ := strconv.Atoi(f[1])
		i %= len(coItems)
		if s.closed {
			return true
		}
		if !s.has(i) {
			s.queue = append(s.queue, i)
			s.tok = 1
			if s.blocked {
				s.mustRes = true // the blocked consumer is woken by the token
			}
		}
		return true
	case "pins":
		i, _ := strconv.Atoi(f[1])
		i %= len(coItems)
		if !s.closed && !s.has(i) {
			s.queue = append(s.queue, i)
			s.p3++
		}
		return true
	case "pcheck":
		i, _ := strconv.Atoi(f[1])
		if !s.closed {
			s.p2 = append(s.p2, i%len(coItems))
		}
		return true
	case "pinsert":
		i, _ := strconv.Atoi(f[1])
		i %= len(coItems)
		at := -1
		for k, x := range s.p2 {
			if x == i {
				at = k
				break
			}
		}
		if at < 0 {
			return false
		}
		s.p2 = append(s.p2[:at:at], s.p2[at+1:]...)
		if !s.has(i) { // also on a closed queue: this insert passed its check before Close
			s.queue = append(s.queue, i)
			s.p3++
		}
		return true
	case "ppost":
		if s.p3 == 0 {
			return false
		}
		s.p3--
		s.tok = 1
		if s.blocked {
			s.mustRes = true
		}
		return true
	case "next":
		if inNext {
			return false
		}
		cancelled := f[1] == "1"
		if len(s.queue) > 0 {
			s.queue = s.queue[1:]
			return true
		}
		if !cancelled && !s.closed {
			return false // would block
		}
		if s.tok == 1 {
			s.tok = 2
		}
		return true
	case "len", "isclosed", "dump", "conc":
		return true
	case "tok":
		return s.tok != 2
	case "close":
		if s.blocked && !s.closed {
			s.mustRes = true
		}
		s.closed = true
		return true
	case "nbegin":
		if inNext {
			return false
		}
		s.cancelled = false
		if len(s.queue) > 0 {
			s.queue = s.queue[1:]
			return true
		}
		s.parked = true
		return true
	case "cancel":
		if !inNext {
			return false
		}
		if s.blocked && !s.cancelled {
			s.mustRes = true
		}
		s.cancelled = true
		return true
	case "nrelease":
		if !s.parked || s.tok != 0 || s.closed || s.cancelled {
			return false
		}
		s.parked, s.blocked = false, true
		return true
	case "nresumec":
		if !s.parked || s.closed == s.cancelled {
			return false // needs exactly one of the closed / ctx cases ready
		}
		s.parked = false
		if !s.cancelled && len(s.queue) > 0 {
			s.queue = s.queue[1:]
		}
		return true
	case "nresume":
		if !inNext {
			return false
		}
		type outcome struct {
			obs    string
			parked bool
		}
		outs := map[outcome]bool{}
		toks := map[int]bool{}
		var pop bool
		for _, tv := range s.toks() {
			n := 0
			if s.cancelled {
				n++
				outs[outcome{"canceled", false}] = true
				toks[coB2i(tv)] = true
			}
			if tv {
				n++
				toks[0] = true
				if len(s.queue) > 0 {
					outs[outcome{"item", false}] = true
				} else {
					outs[outcome{"parked", true}] = true
				}
			}
			if s.closed {
				n++
				toks[coB2i(tv)] = true
				if len(s.queue) > 0 {
					outs[outcome{"item", false}] = true
				} else {
					outs[outcome{"closed", false}] = true
				}
			}
			if n == 0 {
				return false // would block
			}
		}
		if len(outs) != 1 {
			return false
		}
		for o := range outs {
			pop = o.obs == "item"
			s.parked = o.parked
		}
		s.blocked, s.mustRes = false, false
		if pop {
			s.queue = s.queue[1:]
		}
		s.tok = coJoinTok(toks)
		return true
	}
	return false
}

func coB2i(b bool) int {
	if b {
		return 1
	}
	return 0
}

func (c *coComp) Gen(r *rand.Rand, tier string) []string {
	if r.Intn(15) == 0 {
		modes := []string{"drain", "close", "cancel", "both"}
		return []string{"new", fmt.Sprintf("conc %d %d %d %s", r.Int63n(1<<31), 1+r.Intn(4), 20+r.Intn(300), modes[r.Intn(len(modes))])}
	}
	n := 4 + r.Intn(30)
	seq := []string{"new"}
	s := &coGenState{}
	nitems := 2 + r.Intn(3)
	type w struct {
		op string
		w  int
	}
	idle := []w{{"ins", 36}, {"pins", 6}, {"ppost", 6}, {"pcheck", 5}, {"pinsert", 6}, {"next", 20}, {"nbegin", 15}, {"close", 2}, {"len", 5}, {"isclosed", 3}, {"tok", 8}, {"dump", 7}}
	parked := []w{{"ins", 20}, {"pins", 14}, {"ppost", 10}, {"pcheck", 6}, {"pinsert", 8}, {"nresume", 30}, {"nresumec", 14}, {"nrelease", 12}, {"cancel", 8}, {"close", 8}, {"len", 4}, {"tok", 5}, {"dump", 5}}
	blocked := []w{{"ins", 25}, {"pins", 10}, {"ppost", 25}, {"pcheck", 5}, {"pinsert", 8}, {"close", 12}, {"cancel", 12}, {"len", 6}, {"tok", 6}, {"dump", 6}}
	for tries := 0; len(seq) < n && tries < 400; tries++ {
		tab := idle
		switch {
		case s.parked:
			tab = parked
		case s.blocked:
			tab = blocked
		}
		tot := 0
		for _, e := range tab {
			tot += e.w
		}
		x := r.Intn(tot)
		op := ""
		for _, e := range tab {
			if x < e.w {
				op = e.op
				break
			}
			x -= e.w
		}
		switch op {
		case "pins", "pcheck":
			op = fmt.Sprintf("%s %d", op, r.Intn(nitems))
		case "pinsert":
			if len(s.p2) == 0 {
				continue
			}
			op = fmt.Sprintf("pinsert %d", s.p2[r.Intn(len(s.p2))])
		case "ins":
			op = fmt.Sprintf("ins %d", r.Intn(nitems))
		case "next":
			op = fmt.Sprintf("next %d", r.Intn(2))
		}
		if s.mustRes {
			op = "nresume"
		}
		if s.apply(op) {
			seq = append(seq, op)
			if s.closed && !s.parked && !s.blocked && len(s.queue) == 0 && r.Intn(3) == 0 {
				break // little left to see on a closed, drained queue
			}
		}
	}
	if s.mustRes {
		s.apply("nresume")
		seq = append(seq, "nresume")
	}
	seq = append(seq, "dump")
	if s.apply("tok") {
		seq = append(seq, "tok")
	}
	return seq
}

func (c *coComp) Exhaustive(tier string) [][]string {
	depth := 6
	if tier == "thorough" {
		depth = 7
	}
	alpha := []string{"ins 0", "ins 1", "pcheck 0", "pinsert 0", "ppost", "next 0", "next 1", "close", "nbegin", "nresume", "nresumec", "nrelease", "cancel"}
	var out [][]string
	var rec func(prefix []string, s *coGenState, d int)
	rec = func(prefix []string, s *coGenState, d int) {
		if d == 0 {
			seq := append([]string{"new"}, prefix...)
			t := s.clone()
			if t.mustRes {
				t.apply("nresume")
				seq = append(seq, "nresume")
			}
			seq = append(seq, "len", "isclosed", "dump")
			if t.apply("tok") {
				seq = append(seq, "tok")
			}
			out = append(out, seq)
			return
		}
		any := false
		for _, op := range alpha {
			t := s.clone()
			if !t.apply(op) {
				continue
			}
			any = true
			rec(append(append([]string(nil), prefix...), op), t, d-1)
		}
		if !any {
			rec(prefix, s, 0)
		}
	}
	rec(nil, &coGenState{}, depth)
	return out
}

// ---- free-running concurrent validation ----

// coConcChild runs one concurrent validation in a child process (this executable, `run`
// mode), so that a fatal runtime error of the code under test ("concurrent map writes",
// "all goroutines are asleep") is attributed to this operation instead of killing the
// runner in the middle of a batch.
func coConcChild(args []string) string {
	exe, err := os.Executable()
	if err != nil {
		return "harness-error"
	}
	cmd := exec.Command(exe, "run")
	cmd.Env = append(os.Environ(), "VERIF_CO_CHILD=1")
	cmd.Stdin = strings.NewReader("co new\nco " + strings.Join(args, " ") + "\n")
	out, err := cmd.Output()
	lines := strings.Split(string(out), "\n")
	if err != nil || len(lines) < 2 || lines[1] == "" {
		return "viol:crash"
	}
	if lines[1] == "hang" || strings.HasPrefix(lines[1], "viol:producer-stuck") {
		coDead.Store(false) // the child was stuck, not this process
	}
	return lines[1]
}

// coYieldCtx perturbs the schedule exactly in the window between the consumer's failed
// q.next() and its select (Done() is evaluated on entering the select): it yields or
// sleeps there according to a scripted plan.
type coYieldCtx struct {
	context.Context
	plan []int
	n    atomic.Int64
}

func (y *coYieldCtx) Done() <-chan struct{} {
	switch y.plan[int(y.n.Add(1))%len(y.plan)] {
	case 0:
		runtime.Gosched()
	case 1:
		time.Sleep(time.Microsecond)
	case 2:
		time.Sleep(20 * time.Microsecond)
	}
	return y.Context.Done()
}

type coInsRec struct {
	item       int
	start, end int64
	fresh      bool
	refused    bool
}

type coDelRec struct {
	item  int
	dups  uint32
	stamp int64
}

// coConc runs k producers (n scripted inserts each), one consumer and a closer / canceller
// on a real Queue and evaluates the property monitors on the recorded trace.  The answer is
// "ok" or the name of the first violated monitor; it does not depend on timing on a correct
// implementation (waits end when a goroutine snapshot shows a deadlock, see coWait).
//
// items: 0,1 are shared by all producers; 10*(p+1)+j (j<3) are inserted by producer p only.
func coConc(seed int64, k, n int, mode string) string {
	r := rand.New(rand.NewSource(seed))
	q := coalesce.NewQueue()
	var clock atomic.Int64
	tick := func() int64 { return clock.Add(1) }

	type script struct {
		items  []int
		yields []int
	}
	scripts := make([]script, k)
	for p := range scripts {
		for j := 0; j < n; j++ {
			it := r.Intn(2)
			if r.Intn(2) == 0 {
				it = 10*(p+1) + r.Intn(3)
			}
			scripts[p].items = append(scripts[p].items, it)
			scripts[p].yields = append(scripts[p].yields, r.Intn(8))
		}
	}
	trigger := -1 // index of producer 0's insert after which the closer / canceller acts
	if mode != "drain" {
		trigger = r.Intn(n)
	}
	consYield := make([]int, 64)
	for i := range consYield {
		consYield[i] = r.Intn(6)
	}
	lockerRounds := r.Intn(3) * 50

	base, cancel := context.WithCancel(context.Background())
	defer cancel()
	yctx := &coYieldCtx{Context: base}
	for i := 0; i < 32; i++ {
		yctx.plan = append(yctx.plan, r.Intn(6))
	}
	var ctx context.Context = yctx
	recs := make([][]coInsRec, k)
	var wg sync.WaitGroup
	fire := make(chan struct{})
	var closeStart, closeEnd, cancelStamp atomic.Int64
	actorDone := make(chan struct{})
	go func() {
		defer close(actorDone)
		if trigger < 0 {
			return
		}
		<-fire
		if mode == "cancel" || mode == "both" {
			cancelStamp.Store(tick())
			cancel()
		}
		if mode == "close" || mode == "both" {
			closeStart.Store(tick())
			q.Close()
			closeEnd.Store(tick())
		}
	}()
	for p := 0; p < k; p++ {
		wg.Add(1)
		go func(p int) {
			defer wg.Done()
			for j, it := range scripts[p].items {
				rec := coInsRec{item: it, start: tick()}
				ok, err := q.Insert(it)
				rec.end = tick()
				rec.fresh = ok
				rec.refused = err != nil
				recs[p] = append(recs[p], rec)
				if p == 0 && j == trigger {
					close(fire)
				}
				switch scripts[p].yields[j] {
				case 0:
					runtime.Gosched()
				case 1:
					time.Sleep(time.Microsecond)
				}
			}
		}(p)
	}
	// a goroutine that holds the queue's (exported, embedded) mutex now and then, so that
	// producers pile up between the closed check and the locked insert
	lockerDone := make(chan struct{})
	go func() {
		defer close(lockerDone)
		for i := 0; i < lockerRounds; i++ {
			q.Lock()
			runtime.Gosched()
			q.Unlock()
			runtime.Gosched()
		}
	}()
	var dels []coDelRec
	var consErr error
	var consRet int64
	consDone := make(chan struct{})
	go func() {
		defer close(consDone)
		for c := 0; ; c++ {
			i, d, err := q.Next(ctx)
			if err != nil {
				consErr = err
				consRet = tick()
				if i != nil || d != 0 {
					consErr = fmt.Errorf("bad result")
				}
				return
			}
			it, _ := i.(int)
			dels = append(dels, coDelRec{it, d, tick()})
			switch consYield[c%len(consYield)] {
			case 0:
				runtime.Gosched()
			case 1:
				time.Sleep(2 * time.Microsecond)
			}
		}
	}()
	done := make(chan struct{})
	go func() { wg.Wait(); <-lockerDone; <-actorDone; close(done) }()
	if _, ok := coWait(done); !ok {
		return "viol:producer-stuck"
	}
	okIns := int64(0)
	for p := range recs {
		for _, rc := range recs[p] {
			if !rc.refused {
				okIns++
			}
		}
	}
	if mode == "drain" {
		// no close, no cancel: the consumer must receive everything by itself (no lost
		// wake-up); Len()==0 means the consumer popped the last item, consDone is not
		// signalled in this mode before we close.
		start, stuck := time.Now(), 0
		for spin := 1; q.Len() != 0; spin++ {
			time.Sleep(50 * time.Microsecond)
			if spin%40 == 0 {
				if coAllBlocked() {
					stuck++
				} else {
					stuck = 0
				}
				if stuck >= 2 || time.Since(start) > coDeadline {
					coDead.Store(true)
					return "viol:lost-wakeup"
				}
			}
		}
		closeStart.Store(tick())
		q.Close()
		closeEnd.Store(tick())
	}
	if _, ok := coWait(consDone); !ok {
		return "viol:consumer-stuck"
	}
	nCons := len(dels)
	// post-mortem drain (only non-empty after a cancel, or for inserts that raced with Close)
	cctx, ccancel := context.WithCancel(context.Background())
	ccancel()
	for {
		i, d, err := q.Next(cctx)
		if err != nil {
			break
		}
		it, _ := i.(int)
		dels = append(dels, coDelRec{it, d, tick()})
		if len(dels) > k*n+1 {
			return "viol:more-deliveries-than-inserts"
		}
	}

	// M1 conservation
	var sum int64
	var consSum int64
	for j, d := range dels {
		sum += 1 + int64(d.dups)
		if j < nCons {
			consSum += 1 + int64(d.dups)
		}
	}
	if sum != okIns {
		return "viol:conservation"
	}
	// M2 per item: deliveries = fresh inserts, weight = successful inserts
	fresh, okPer, delN, delW := map[int]int64{}, map[int]int64{}, map[int]int64{}, map[int]int64{}
	for p := range recs {
		for _, rc := range recs[p] {
			if rc.refused {
				if rc.fresh {
					return "viol:refused-but-true"
				}
				continue
			}
			okPer[rc.item]++
			if rc.fresh {
				fresh[rc.item]++
			}
		}
	}
	for _, d := range dels {
		delN[d.item]++
		delW[d.item] += 1 + int64(d.dups)
	}
	for it, w := range okPer {
		if delW[it] != w || delN[it] != fresh[it] {
			return "viol:item-conservation"
		}
	}
	for it := range delN {
		if okPer[it] == 0 {
			return "viol:phantom-item"
		}
	}
	// M3 per producer, owned items: deliveries = episodes, in program order, exact dups
	cs, ce, cn := closeStart.Load(), closeEnd.Load(), cancelStamp.Load()
	closedRet := consErr != nil && coalesce.IsClosedQueue(consErr)
	for p := range recs {
		type episode struct {
			item     int
			dups     uint32
			preClose bool // contains an insert that returned before Close was called
		}
		var eps []episode
		open := map[int]int{}
		for _, rc := range recs[p] {
			if rc.refused || rc.item < 10 {
				continue
			}
			if rc.fresh {
				open[rc.item] = len(eps)
				eps = append(eps, episode{item: rc.item})
			} else {
				e, ok := open[rc.item]
				if !ok {
					return "viol:dup-without-pending"
				}
				eps[e].dups++
			}
			if cs != 0 && rc.end < cs {
				eps[open[rc.item]].preClose = true
			}
		}
		j := 0
		for di, d := range dels {
			if d.item/10 != p+1 {
				continue
			}
			if j >= len(eps) {
				return "viol:owned-extra-delivery"
			}
			if eps[j].item != d.item {
				return "viol:fifo"
			}
			if eps[j].dups != d.dups {
				return "viol:dup-count"
			}
			// M4 drain before closed, per episode
			if closedRet && eps[j].preClose && di >= nCons {
				return "viol:closed-before-drained"
			}
			j++
		}
		if j != len(eps) {
			return "viol:owned-missing-delivery"
		}
	}
	// M4 drain before closed, by weight
	if closedRet {
		var pre int64
		for p := range recs {
			for _, rc := range recs[p] {
				if !rc.refused && rc.end < cs {
					pre++
				}
			}
		}
		if consSum < pre {
			return "viol:closed-before-drained"
		}
	}
	// M5 refusals
	for p := range recs {
		for _, rc := range recs[p] {
			if rc.refused && (cs == 0 || rc.end < cs) {
				return "viol:refused-before-close"
			}
			if !rc.refused && ce != 0 && rc.start > ce {
				return "viol:accepted-after-close"
			}
		}
	}
	// M7 return classes
	switch {
	case consErr == nil:
		return "viol:consumer-no-error"
	case closedRet:
		if cs == 0 || consRet < cs {
			return "viol:closed-without-close"
		}
	case consErr == context.Canceled:
		if cn == 0 || consRet < cn {
			return "viol:canceled-without-cancel"
		}
	default:
		return "viol:consumer-error-class"
	}
	// M8 nothing is delivered before it was inserted
	for _, d := range dels[:nCons] {
		seen := false
		for p := range recs {
			for _, rc := range recs[p] {
				if rc.item == d.item && !rc.refused && rc.start < d.stamp {
					seen = true
				}
			}
		}
		if !seen {
			return "viol:delivered-before-insert"
		}
	}
	if !q.IsClosed() && mode != "cancel" {
		return "viol:not-closed"
	}
	return "ok"
}
