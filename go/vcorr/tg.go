package main

import (
	"crypto/sha1"
	"fmt"
	"math"
	"math/rand"
	"sort"
	"strconv"
	"strings"
	"sync"
	"time"

	"google.golang.org/protobuf/proto"

	gpb "github.com/openconfig/gnmi/proto/gnmi"
	pb "github.com/openconfig/gnmi/proto/target"
	"github.com/openconfig/gnmi/target"
)

// tg: target.Config (NewConfig / NewConfigWithBase / Load / Current / Validate) driven with
// recording handlers.  Tokens are documented in lean/Driver/TG.lean.
//
// Observation of a load: `<class> [sorted handler calls with payload digests] mon=<r>`.
// `mon` is a model-independent monitor evaluated on the Go side only: all handler calls since
// `new` are replayed onto a map (initially the effective view of the base configuration) and
// compared with the effective view read back from Current(); plus the gate (an error means no
// call and an unchanged Current(); success means Current() is the loaded configuration), call
// discipline (Add only for unknown names, Update/Delete only for known ones, one call per
// name and load) and "Load does not modify its argument".
type tgComp struct {
	c        *target.Config
	allH     bool
	replayed map[string]string // name -> effective digest, by replaying handler calls
	calls    []string
	touched  map[string]int
	monErr   string
	hmu      sync.Mutex // handlers of two overlapping loads may run on two goroutines
	barrier  func()

	// registries: deterministic wire form -> token (payload digests are looked up, so a
	// digest vouches for the whole message content)
	regReq   map[string]string
	regOther map[string]string
	// most recently built objects per token, for pointer sharing between configurations
	lastReq map[string]*gpb.SubscribeRequest
	lastTgt map[string]*pb.Target
}

func init() { components["tg"] = &tgComp{} }

// ---------------------------------------------------------------- tokens -> messages

var detMarshal = proto.MarshalOptions{Deterministic: true}

func wire(m proto.Message) string {
	b, err := detMarshal.Marshal(m)
	if err != nil {
		return "marshal-error:" + err.Error()
	}
	return string(b)
}

// buildReq turns a request digest into a SubscribeRequest built from the repository's types.
// Grammar (anything else still yields a distinct message): "" = empty message; "poll" = Poll;
// otherwise `elem/elem…` with optional suffixes `^` (updates_only), `@` (sample mode + interval),
// `#` (second subscription).  `sparse` chooses nil instead of empty slices (same message).
func buildReq(d string, sparse bool) *gpb.SubscribeRequest {
	switch d {
	case "":
		return &gpb.SubscribeRequest{}
	case "poll":
		return &gpb.SubscribeRequest{Request: &gpb.SubscribeRequest_Poll{Poll: &gpb.Poll{}}}
	}
	body := d
	sl := &gpb.SubscriptionList{Prefix: &gpb.Path{Origin: "openconfig"}, Mode: gpb.SubscriptionList_STREAM}
	sub := &gpb.Subscription{Path: &gpb.Path{}}
	for {
		switch {
		case strings.HasSuffix(body, "^"):
			sl.UpdatesOnly = true
			body = body[:len(body)-1]
			continue
		case strings.HasSuffix(body, "@"):
			sub.Mode = gpb.SubscriptionMode_SAMPLE
			sub.SampleInterval += 1000000000
			body = body[:len(body)-1]
			continue
		case strings.HasSuffix(body, "#"):
			sl.Subscription = append(sl.Subscription, &gpb.Subscription{Path: &gpb.Path{Elem: []*gpb.PathElem{{Name: "extra"}}}})
			body = body[:len(body)-1]
			continue
		}
		break
	}
	for _, e := range strings.Split(body, "/") {
		pe := &gpb.PathElem{Name: e}
		if i := strings.IndexByte(e, '['); i >= 0 {
			pe = &gpb.PathElem{Name: e[:i], Key: map[string]string{"k": e[i:]}}
		} else if !sparse {
			pe.Key = map[string]string{}
		}
		sub.Path.Elem = append(sub.Path.Elem, pe)
	}
	sl.Subscription = append([]*gpb.Subscription{sub}, sl.Subscription...)
	if !sparse {
		sl.UseModels = []*gpb.ModelData{}
		sl.Prefix.Elem = []*gpb.PathElem{}
	}
	return &gpb.SubscribeRequest{Request: &gpb.SubscribeRequest_Subscribe{Subscribe: sl}}
}

// applyOther decodes the `other` digest of a target: comma separated `d=<dialer>`,
// `u=<user>`, `p=<password>`, `i=<password id>`, `c` (credentials present but empty),
// `m.<key>=<value>` (meta); anything else becomes a meta key.
func applyOther(t *pb.Target, o string, sparse bool) {
	if !sparse {
		t.Meta = map[string]string{}
	}
	if o == "" {
		return
	}
	cred := func() *pb.Credentials {
		if t.Credentials == nil {
			t.Credentials = &pb.Credentials{}
		}
		return t.Credentials
	}
	for _, part := range strings.Split(o, ",") {
		switch {
		case part == "c":
			cred()
		case strings.HasPrefix(part, "d="):
			t.Dialer = part[2:]
		case strings.HasPrefix(part, "u="):
			cred().Username = part[2:]
		case strings.HasPrefix(part, "p="):
			cred().Password = part[2:]
		case strings.HasPrefix(part, "i="):
			cred().PasswordId = part[2:]
		default:
			if t.Meta == nil {
				t.Meta = map[string]string{}
			}
			k, v := part, ""
			if strings.HasPrefix(part, "m.") {
				k = part[2:]
				if i := strings.IndexByte(k, '='); i >= 0 {
					k, v = k[:i], k[i+1:]
				}
			}
			t.Meta[k] = v
		}
	}
}

func (c *tgComp) resetRegs() {
	c.regReq, c.regOther = map[string]string{}, map[string]string{}
	c.lastReq, c.lastTgt = map[string]*gpb.SubscribeRequest{}, map[string]*pb.Target{}
}

// mkReq returns a message for digest d: a shared earlier object or a fresh one.
func (c *tgComp) mkReq(d string, r *rand.Rand) (*gpb.SubscribeRequest, bool) {
	if m, ok := c.lastReq[d]; ok && r.Intn(2) == 0 {
		return m, true
	}
	m := buildReq(d, r.Intn(2) == 0)
	w := wire(m)
	if prev, ok := c.regReq[w]; ok && prev != d {
		return nil, false // digest encoding not injective: harness bug, surfaces as bad-token
	}
	c.regReq[w] = d
	c.lastReq[d] = m
	return m, true
}

func (c *tgComp) mkTgt(tok string, r *rand.Rand) (*pb.Target, bool) {
	if tok == "!" {
		return nil, true
	}
	f := strings.Split(tok, ":")
	if len(f) != 3 {
		return nil, false
	}
	if m, ok := c.lastTgt[tok]; ok && r.Intn(3) == 0 {
		return m, true
	}
	t := &pb.Target{Request: decStr(f[1])}
	if f[0] != "-" {
		for _, a := range strings.Split(f[0], "+") {
			t.Addresses = append(t.Addresses, decStr(a))
		}
	} else if r.Intn(2) == 0 {
		t.Addresses = []string{}
	}
	o := decStr(f[2])
	applyOther(t, o, r.Intn(2) == 0)
	w := c.otherWire(t)
	if prev, ok := c.regOther[w]; ok && prev != o {
		return nil, false
	}
	c.regOther[w] = o
	c.lastTgt[tok] = t
	return t, true
}

// otherWire is the wire form of everything in a target except addresses and request.
func (c *tgComp) otherWire(t *pb.Target) string {
	x := proto.Clone(t).(*pb.Target)
	x.Addresses, x.Request = nil, ""
	return wire(x)
}

// decCfg: token -> *pb.Configuration (nil for `nil`).
func (c *tgComp) decCfg(tok string, r *rand.Rand) (*pb.Configuration, bool) {
	if tok == "nil" {
		return nil, true
	}
	f := strings.Split(tok, ";")
	if len(f) != 4 {
		return nil, false
	}
	rev, err := strconv.ParseInt(f[0], 10, 64)
	if err != nil {
		return nil, false
	}
	cfg := &pb.Configuration{Revision: rev, InstanceId: decStr(f[1])}
	if f[2] != "-" || r.Intn(2) == 0 {
		cfg.Request = map[string]*gpb.SubscribeRequest{}
	}
	if f[3] != "-" || r.Intn(2) == 0 {
		cfg.Target = map[string]*pb.Target{}
	}
	if f[2] != "-" {
		for _, kv := range strings.Split(f[2], ",") {
			p := strings.Split(kv, "=")
			if len(p) != 2 {
				return nil, false
			}
			if p[1] == "!" {
				cfg.Request[decStr(p[0])] = nil
				continue
			}
			m, ok := c.mkReq(decStr(p[1]), r)
			if !ok {
				return nil, false
			}
			cfg.Request[decStr(p[0])] = m
		}
	}
	if f[3] != "-" {
		for _, kv := range strings.Split(f[3], ",") {
			p := strings.Split(kv, "=")
			if len(p) != 2 {
				return nil, false
			}
			t, ok := c.mkTgt(p[1], r)
			if !ok {
				return nil, false
			}
			cfg.Target[decStr(p[0])] = t
		}
	}
	return cfg, true
}

// ---------------------------------------------------------------- messages -> digests

func (c *tgComp) digReq(m *gpb.SubscribeRequest) string {
	if m == nil {
		return "!"
	}
	w := wire(m)
	if d, ok := c.regReq[w]; ok {
		return encStr(d)
	}
	return fmt.Sprintf("?%x", sha1.Sum([]byte(w)))[:9]
}

func (c *tgComp) digTgt(t *pb.Target) string {
	if t == nil {
		return "!"
	}
	a := "-"
	if len(t.Addresses) > 0 {
		var l []string
		for _, x := range t.Addresses {
			l = append(l, encStr(x))
		}
		a = strings.Join(l, "+")
	}
	w := c.otherWire(t)
	o, ok := c.regOther[w]
	if !ok {
		return fmt.Sprintf("?%x", sha1.Sum([]byte(w)))[:9]
	}
	return a + ":" + encStr(t.Request) + ":" + encStr(o)
}

func encSortedMap(l []string) string {
	if len(l) == 0 {
		return "-"
	}
	sort.Strings(l)
	return strings.Join(l, ",")
}

func (c *tgComp) digCfg(cfg *pb.Configuration) string {
	if cfg == nil {
		return "nil"
	}
	var rq, tg []string
	for k, v := range cfg.GetRequest() {
		rq = append(rq, encStr(k)+"="+c.digReq(v))
	}
	for k, v := range cfg.GetTarget() {
		tg = append(tg, encStr(k)+"="+c.digTgt(v))
	}
	return fmt.Sprintf("%d;%s;%s;%s", cfg.GetRevision(), encStr(cfg.GetInstanceId()), encSortedMap(rq), encSortedMap(tg))
}

// effective view computed by the harness itself: name -> (target digest | resolved request digest)
func (c *tgComp) effective(cfg *pb.Configuration) map[string]string {
	m := map[string]string{}
	for k, t := range cfg.GetTarget() {
		m[k] = c.digTgt(t) + "|" + c.digReq(cfg.GetRequest()[t.GetRequest()])
	}
	return m
}

// ---------------------------------------------------------------- recording handlers

func (c *tgComp) fail(why string) {
	if c.monErr == "" {
		c.monErr = why
	}
}

// enter is the prologue of every recording handler: the first handler call of a `load2` pair
// holds its Load until the overlapping second Load has returned (or cannot proceed).
func (c *tgComp) enter() {
	if b := c.barrier; b != nil {
		b()
	}
	c.hmu.Lock()
}

func (c *tgComp) handlers(h string) target.Handler {
	var hd target.Handler
	if h[0] != '-' {
		hd.Add = func(u target.Update) {
			c.enter()
			defer c.hmu.Unlock()
			c.calls = append(c.calls, "A|"+encStr(u.Name)+"|"+c.digTgt(u.Target)+"|"+c.digReq(u.Request))
			c.touched[u.Name]++
			if _, ok := c.replayed[u.Name]; ok && c.allH {
				c.fail("add-existing")
			}
			c.replayed[u.Name] = c.digTgt(u.Target) + "|" + c.digReq(u.Request)
		}
	}
	if h[1] != '-' {
		hd.Update = func(u target.Update) {
			c.enter()
			defer c.hmu.Unlock()
			c.calls = append(c.calls, "U|"+encStr(u.Name)+"|"+c.digTgt(u.Target)+"|"+c.digReq(u.Request))
			c.touched[u.Name]++
			if _, ok := c.replayed[u.Name]; !ok && c.allH {
				c.fail("update-unknown")
			}
			c.replayed[u.Name] = c.digTgt(u.Target) + "|" + c.digReq(u.Request)
		}
	}
	if h[2] != '-' {
		hd.Delete = func(name string) {
			c.enter()
			defer c.hmu.Unlock()
			c.calls = append(c.calls, "D|"+encStr(name))
			c.touched[name]++
			if _, ok := c.replayed[name]; !ok && c.allH {
				c.fail("delete-unknown")
			}
			delete(c.replayed, name)
		}
	}
	return hd
}

func sameMap(a, b map[string]string) bool {
	if len(a) != len(b) {
		return false
	}
	for k, v := range a {
		if w, ok := b[k]; !ok || v != w {
			return false
		}
	}
	return true
}

func variantRand(args []string, i int) *rand.Rand {
	var v int64
	if len(args) > i {
		v, _ = strconv.ParseInt(args[i], 10, 64)
	}
	return rand.New(rand.NewSource(v))
}

func (c *tgComp) Run(args []string) string {
	if len(args) == 0 {
		return "bad-op"
	}
	switch args[0] {
	case "new":
		if len(args) < 3 || len(args[1]) != 3 {
			return "bad-op"
		}
		c.resetRegs()
		c.c, c.calls, c.monErr = nil, nil, ""
		c.replayed, c.touched = map[string]string{}, map[string]int{}
		c.allH = !strings.Contains(args[1], "-")
		h := c.handlers(args[1])
		if args[2] == "-" {
			c.c = target.NewConfig(h)
			return "ok"
		}
		base, ok := c.decCfg(args[2], variantRand(args, 3))
		if !ok {
			return "bad-token"
		}
		cc, err := target.NewConfigWithBase(h, base)
		if err != nil {
			if cc != nil {
				return "error-and-config"
			}
			return "invalid"
		}
		c.c = cc
		c.replayed = c.effective(base)
		return "ok"
	case "load":
		if len(args) < 2 {
			return "bad-op"
		}
		if c.c == nil {
			return "noconfig"
		}
		cfg, ok := c.decCfg(args[1], variantRand(args, 2))
		if !ok {
			return "bad-token"
		}
		before := c.digCfg(c.c.Current())
		in := c.digCfg(cfg)
		c.calls, c.touched = nil, map[string]int{}
		err := c.c.Load(cfg)
		after := c.c.Current()
		// result class without looking at message text
		class := "ok"
		switch {
		case err == nil:
		case cfg == nil:
			class = "nilconfig"
		case target.Validate(cfg) != nil:
			class = "invalid"
		default:
			class = "revision"
		}
		// ---- monitor (independent of the Lean model)
		if c.digCfg(cfg) != in {
			c.fail("argument-modified")
		}
		if err != nil {
			if len(c.calls) != 0 {
				c.fail("calls-on-rejected-load")
			}
			if c.digCfg(after) != before {
				c.fail("state-changed-on-rejected-load")
			}
		} else if c.digCfg(after) != in {
			c.fail("current-is-not-the-loaded-configuration")
		}
		for _, n := range c.touched {
			if n > 1 {
				c.fail("two-calls-for-one-name")
			}
		}
		mon := "mon=na"
		if c.allH {
			mon = "mon=ok"
			if !sameMap(c.replayed, c.effective(after)) {
				c.fail("replay-differs-from-current")
			}
		}
		if c.monErr != "" {
			mon = "mon=FAIL:" + c.monErr
		}
		calls := append([]string(nil), c.calls...)
		return class + " " + sortedBracket(calls) + " " + mon
	case "load2":
		// two overlapping Load calls: the first handler call of the first Load waits until the
		// second Load has returned, or 30ms (it cannot return while the first holds the lock)
		if len(args) < 3 {
			return "bad-op"
		}
		if c.c == nil {
			return "noconfig"
		}
		ca, ok1 := c.decCfg(args[1], variantRand(args, 3))
		cb, ok2 := c.decCfg(args[2], variantRand(args, 4))
		if !ok1 || !ok2 {
			return "bad-token"
		}
		c.calls, c.touched = nil, map[string]int{}
		entered := make(chan struct{})
		secondDone := make(chan struct{})
		var once sync.Once
		c.barrier = func() {
			first := false
			once.Do(func() { first = true; close(entered) })
			if first {
				select {
				case <-secondDone:
				case <-time.After(30 * time.Millisecond):
				}
			}
		}
		classOf := func(cfg *pb.Configuration, err error) string {
			switch {
			case err == nil:
				return "ok"
			case cfg == nil:
				return "nilconfig"
			case target.Validate(cfg) != nil:
				return "invalid"
			}
			return "revision"
		}
		var errA, errB error
		aDone := make(chan struct{})
		go func() { errA = c.c.Load(ca); close(aDone) }()
		select {
		case <-entered:
		case <-aDone:
		}
		go func() { errB = c.c.Load(cb); close(secondDone) }()
		<-aDone
		<-secondDone
		c.barrier = nil
		mon := "mon=na"
		if c.allH {
			mon = "mon=ok"
			if !sameMap(c.replayed, c.effective(c.c.Current())) {
				c.fail("replay-differs-from-current")
			}
		}
		if c.monErr != "" {
			mon = "mon=FAIL:" + c.monErr
		}
		return classOf(ca, errA) + " " + classOf(cb, errB) + " " + sortedBracket(append([]string(nil), c.calls...)) + " " + mon
	case "cur":
		if c.c == nil {
			return "noconfig"
		}
		cfg := c.c.Current()
		out := "cfg " + c.digCfg(cfg)
		// Current hands out a copy that is the caller's to edit (the read-modify-Load workflow): scribble all
		// over it — the configuration held by the Config, the old side of the next diff, must not change
		// (seeded change c17_seed9 returned a shallow copy sharing the maps and messages)
		if cfg != nil {
			for k, t := range cfg.Target {
				if t != nil {
					t.Addresses = append(t.Addresses, "scribbled")
					t.Request = "scribbled"
				}
				delete(cfg.Target, k)
			}
			for k, r := range cfg.Request {
				if r.GetSubscribe() != nil {
					r.GetSubscribe().UpdatesOnly = !r.GetSubscribe().UpdatesOnly
				}
				delete(cfg.Request, k)
			}
			cfg.Revision = -7
			if cfg.Target != nil {
				cfg.Target["scribbled"] = nil
			}
		}
		return out
	case "validate":
		if len(args) < 2 {
			return "bad-op"
		}
		if c.regReq == nil {
			c.resetRegs()
		}
		cfg, ok := c.decCfg(args[1], variantRand(args, 2))
		if !ok {
			return "bad-token"
		}
		if err := target.Validate(cfg); err != nil {
			return "invalid"
		}
		return "ok"
	}
	return "bad-op"
}

// ---------------------------------------------------------------- generation

type gTgt struct {
	addrs      []string
	req, other string
	isNil      bool
}

type gCfg struct {
	rev   int64
	other string
	reqs  map[string]string // name -> digest
	tgts  map[string]*gTgt
}

func (g *gCfg) clone() *gCfg {
	n := &gCfg{rev: g.rev, other: g.other, reqs: map[string]string{}, tgts: map[string]*gTgt{}}
	for k, v := range g.reqs {
		n.reqs[k] = v
	}
	for k, v := range g.tgts {
		t := *v
		t.addrs = cloneStrs(v.addrs)
		n.tgts[k] = &t
	}
	return n
}

func (t *gTgt) token() string {
	if t.isNil {
		return "!"
	}
	a := "-"
	if len(t.addrs) > 0 {
		var l []string
		for _, x := range t.addrs {
			l = append(l, encStr(x))
		}
		a = strings.Join(l, "+")
	}
	return a + ":" + encStr(t.req) + ":" + encStr(t.other)
}

func (g *gCfg) token() string {
	var rq, tg []string
	for k, v := range g.reqs {
		rq = append(rq, encStr(k)+"="+encStr(v))
	}
	for k, v := range g.tgts {
		tg = append(tg, encStr(k)+"="+v.token())
	}
	return fmt.Sprintf("%d;%s;%s;%s", g.rev, encStr(g.other), encSortedMap(rq), encSortedMap(tg))
}

// the generator's own idea of validity (only used to keep sequences mostly valid)
func (g *gCfg) valid() bool {
	for k, t := range g.tgts {
		if k == "" || t.isNil || len(t.addrs) == 0 || t.req == "" {
			return false
		}
		if _, ok := g.reqs[t.req]; !ok {
			return false
		}
	}
	return true
}

var (
	tgNames   = []string{"t1", "t2", "t3", "t4", "dev é/x"}
	tgReqs    = []string{"r1", "r2", "r3", "all interfaces"}
	tgDigests = []string{"a", "a/b", "a/b^", "a/b@", "interfaces/interface[name=*]/state", "poll", "", "a#", "x"}
	tgAddrs   = []string{"h1:1", "h2:2", "[::1]:9339", "h1:2"}
	tgOthers  = []string{"", "", "d=tunnel", "u=bob,p=pw", "c", "m.k=v", "m.k=w", "i=id7", "d=tunnel,m.site=x"}
)

func pickS(r *rand.Rand, l []string) string { return l[r.Intn(len(l))] }

func sortedKeysS(m map[string]string) []string {
	var l []string
	for k := range m {
		l = append(l, k)
	}
	sort.Strings(l)
	return l
}

func sortedKeysT(m map[string]*gTgt) []string {
	var l []string
	for k := range m {
		l = append(l, k)
	}
	sort.Strings(l)
	return l
}

func tgRandTgt(r *rand.Rand, g *gCfg) *gTgt {
	t := &gTgt{addrs: []string{pickS(r, tgAddrs)}, other: pickS(r, tgOthers)}
	if r.Intn(4) == 0 {
		t.addrs = append(t.addrs, pickS(r, tgAddrs))
	}
	if ks := sortedKeysS(g.reqs); len(ks) > 0 && r.Intn(5) != 0 {
		t.req = pickS(r, ks)
	} else {
		t.req = pickS(r, tgReqs)
		if _, ok := g.reqs[t.req]; !ok {
			g.reqs[t.req] = pickS(r, tgDigests)
		}
	}
	return t
}

func tgRandCfg(r *rand.Rand, rev int64) *gCfg {
	g := &gCfg{rev: rev, reqs: map[string]string{}, tgts: map[string]*gTgt{}}
	if r.Intn(4) == 0 {
		g.other = "collector-1"
	}
	for i := r.Intn(3); i > 0; i-- {
		g.reqs[pickS(r, tgReqs)] = pickS(r, tgDigests)
	}
	for i := r.Intn(4); i > 0; i-- {
		g.tgts[pickS(r, tgNames)] = tgRandTgt(r, g)
	}
	return g
}

// one valid edit of g (in place)
func tgMutate(r *rand.Rand, g *gCfg) string {
	tk, rk := sortedKeysT(g.tgts), sortedKeysS(g.reqs)
	users := func(req string) []string {
		var l []string
		for _, k := range tk {
			if g.tgts[k].req == req {
				l = append(l, k)
			}
		}
		return l
	}
	otherDigest := func(d string) string {
		for {
			if x := pickS(r, tgDigests); x != d {
				return x
			}
		}
	}
	switch k := r.Intn(16); {
	case k == 0 || len(tk) == 0:
		g.tgts[pickS(r, tgNames)] = tgRandTgt(r, g)
		return "add-target"
	case k == 1:
		delete(g.tgts, pickS(r, tk))
		return "remove-target"
	case k == 2:
		t := g.tgts[pickS(r, tk)]
		if r.Intn(2) == 0 {
			t.addrs = append(t.addrs, pickS(r, tgAddrs))
		} else {
			t.addrs = []string{pickS(r, tgAddrs)}
		}
		return "edit-addresses"
	case k == 3:
		g.tgts[pickS(r, tk)].other = pickS(r, tgOthers)
		return "edit-other"
	case k == 4 && len(rk) > 0:
		g.tgts[pickS(r, tk)].req = pickS(r, rk)
		return "repoint"
	case k == 5 && len(rk) > 0: // rename a request, same content, all users follow
		old := pickS(r, rk)
		nn := pickS(r, tgReqs)
		if _, ok := g.reqs[nn]; ok {
			return "noop"
		}
		g.reqs[nn] = g.reqs[old]
		delete(g.reqs, old)
		for _, u := range users(old) {
			g.tgts[u].req = nn
		}
		return "rename-request"
	case k == 6 && len(rk) > 0:
		x := pickS(r, rk)
		g.reqs[x] = otherDigest(g.reqs[x])
		return "edit-request"
	case k == 7 && len(rk) > 1: // request edited and one of its users re-pointed, same revision
		x := pickS(r, rk)
		g.reqs[x] = otherDigest(g.reqs[x])
		if us := users(x); len(us) > 0 {
			g.tgts[pickS(r, us)].req = pickS(r, rk)
		} else {
			g.tgts[pickS(r, tk)].req = x
		}
		return "edit-request+repoint"
	case k == 8 && len(rk) > 1: // swap the contents of two requests
		a, b := pickS(r, rk), pickS(r, rk)
		g.reqs[a], g.reqs[b] = g.reqs[b], g.reqs[a]
		return "swap-requests"
	case k == 9: // add or drop an unused request
		for _, x := range rk {
			if len(users(x)) == 0 && r.Intn(2) == 0 {
				delete(g.reqs, x)
				return "drop-unused-request"
			}
		}
		x := pickS(r, tgReqs)
		if _, ok := g.reqs[x]; !ok {
			g.reqs[x] = pickS(r, tgDigests)
		}
		return "add-request"
	case k == 10 && len(tk) > 1: // two targets exchange their settings
		a, b := pickS(r, tk), pickS(r, tk)
		g.tgts[a], g.tgts[b] = g.tgts[b], g.tgts[a]
		return "swap-targets"
	case k == 11 && len(rk) > 0: // request edited to the content of another one, user moved there:
		// the target's resolved request stays the same although name and map changed
		x := pickS(r, rk)
		nn := pickS(r, tgReqs)
		g.reqs[nn] = g.reqs[x]
		g.reqs[x] = otherDigest(g.reqs[x])
		for _, u := range users(x) {
			if r.Intn(2) == 0 {
				g.tgts[u].req = nn
			}
		}
		return "copy-request+edit"
	case k == 12: // rename a target (delete + add with identical settings)
		a := pickS(r, tk)
		nn := pickS(r, tgNames)
		if _, ok := g.tgts[nn]; !ok {
			g.tgts[nn] = g.tgts[a]
			delete(g.tgts, a)
		}
		return "rename-target"
	case k == 13:
		if r.Intn(2) == 0 {
			g.other = pickS(r, []string{"", "collector-1", "collector-2"})
		}
		return "noop"
	case k == 14:
		n := tgRandCfg(r, g.rev)
		g.reqs, g.tgts = n.reqs, n.tgts
		return "replace-all"
	}
	return "noop"
}

// one invalidating edit (one per arm of Validate)
func tgBreak(r *rand.Rand, g *gCfg) string {
	tk := sortedKeysT(g.tgts)
	if len(tk) == 0 {
		g.tgts[pickS(r, tgNames)] = tgRandTgt(r, g)
		tk = sortedKeysT(g.tgts)
	}
	t := g.tgts[pickS(r, tk)]
	switch r.Intn(7) {
	case 6:
		// a request entry that is itself named "": a target that names no request is still refused
		t.req = ""
		g.reqs[""] = pickS(r, tgDigests)
		return "empty-request-with-empty-named-entry"
	case 0:
		g.tgts[""] = tgRandTgt(r, g)
		return "empty-name"
	case 1:
		t.isNil = true
		return "nil-target"
	case 2:
		t.addrs = nil
		return "no-address"
	case 3:
		t.req = ""
		return "empty-request"
	case 4:
		delete(g.reqs, t.req)
		return "request-removed"
	default:
		t.req = "nowhere"
		return "request-unknown"
	}
}

func tgNextRev(r *rand.Rand, cur int64, have bool) int64 {
	if !have {
		switch r.Intn(8) {
		case 0:
			return 0
		case 1:
			return -5
		case 2:
			return math.MinInt64
		}
		return int64(1 + r.Intn(5))
	}
	switch x := r.Intn(100); {
	case x < 66:
		if cur > math.MaxInt64-4 {
			return cur
		}
		return cur + int64(1+r.Intn(3))
	case x < 78:
		return cur
	case x < 88:
		if cur < math.MinInt64+4 {
			return cur
		}
		return cur - int64(1+r.Intn(3))
	case x < 89:
		return math.MaxInt64
	case x < 91:
		return math.MaxInt64 - int64(r.Intn(3))
	case x < 93:
		return math.MinInt64
	case x < 95:
		return 0
	case x < 97:
		return -1
	}
	if cur < math.MaxInt64/2 {
		return cur + 1000000007
	}
	return cur
}

func tgHandlers(r *rand.Rand) string {
	if r.Intn(8) != 0 {
		return "aud"
	}
	b := []byte("aud")
	for i := range b {
		if r.Intn(2) == 0 {
			b[i] = '-'
		}
	}
	return string(b)
}

func (c *tgComp) Gen(r *rand.Rand, tier string) []string {
	var cur *gCfg // the generator's belief of the accepted configuration
	var seq []string
	v := func() string { return strconv.Itoa(r.Intn(1 << 30)) }
	switch x := r.Intn(100); {
	case x < 60:
		seq = append(seq, "new "+tgHandlers(r)+" -")
	case x < 68:
		seq = append(seq, "new "+tgHandlers(r)+" nil "+v())
	case x < 97:
		b := tgRandCfg(r, tgNextRev(r, 0, false))
		seq = append(seq, "new "+tgHandlers(r)+" "+b.token()+" "+v())
		cur = b
	default:
		b := tgRandCfg(r, 1)
		tgBreak(r, b)
		seq = append(seq, "new "+tgHandlers(r)+" "+b.token()+" "+v())
		if b.valid() {
			cur = b
		}
	}
	n := 3 + r.Intn(10)
	pair := -1
	if r.Intn(6) == 0 {
		pair = r.Intn(n)
	}
	next := func() *gCfg {
		var g *gCfg
		if cur == nil {
			g = tgRandCfg(r, tgNextRev(r, 0, false))
		} else {
			g = cur.clone()
			for k := 1 + r.Intn(3); k > 0; k-- {
				tgMutate(r, g)
			}
			g.rev = tgNextRev(r, cur.rev, true)
		}
		return g
	}
	for i := 0; i < n; i++ {
		if i == pair {
			// two overlapping loads (both usually acceptable, the second touching other targets)
			a := next()
			if a.valid() && (cur == nil || a.rev > cur.rev) {
				cur = a
			}
			b := next()
			seq = append(seq, "load2 "+a.token()+" "+b.token()+" "+v()+" "+v())
			if b.valid() && (cur == nil || b.rev > cur.rev) {
				cur = b
			}
			continue
		}
		if r.Intn(40) == 0 {
			seq = append(seq, "load nil")
			continue
		}
		var g *gCfg
		if cur == nil {
			g = tgRandCfg(r, 0)
		} else {
			g = cur.clone()
			for k := 1 + r.Intn(3); k > 0; k-- {
				tgMutate(r, g)
			}
		}
		if cur == nil {
			g.rev = tgNextRev(r, 0, false)
		} else {
			g.rev = tgNextRev(r, cur.rev, true)
		}
		if r.Intn(7) == 0 {
			tgBreak(r, g)
		}
		seq = append(seq, "load "+g.token()+" "+v())
		if g.valid() && (cur == nil || g.rev > cur.rev) {
			cur = g
		}
		if r.Intn(2) == 0 {
			seq = append(seq, "cur")
		}
		if r.Intn(12) == 0 {
			x := g.clone()
			if r.Intn(2) == 0 {
				tgBreak(r, x)
			}
			seq = append(seq, "validate "+x.token()+" "+v())
		}
	}
	seq = append(seq, "cur")
	return seq
}

// Exhaustive: every ordered pair (old, new) out of a small universe of configurations
// (valid and invalid), old installed by Load or as the base of NewConfigWithBase.
func (c *tgComp) Exhaustive(tier string) [][]string {
	type opt struct {
		present          bool
		addr, req, other string
	}
	aOpts := []opt{{}, {true, "h1", "r1", ""}, {true, "h2", "r1", ""}, {true, "h1", "r2", ""}, {true, "h2", "r2", ""},
		{true, "h1", "r1", "c"}, {true, "", "r1", ""}} // the last one has no address: invalid
	bOpts := []opt{{}, {true, "h1", "r1", ""}, {true, "h1", "r2", ""}}
	r1s := []string{"x", "y"}
	r2s := []string{"x", "-"} // "-" = request r2 absent
	if tier == "thorough" {
		bOpts = aOpts
		r2s = []string{"x", "y", "-"}
	}
	mk := func(o opt) *gTgt {
		t := &gTgt{req: o.req, other: o.other}
		if o.addr != "" {
			t.addrs = []string{o.addr}
		}
		return t
	}
	var cfgs []*gCfg
	for _, a := range aOpts {
		for _, b := range bOpts {
			for _, r1 := range r1s {
				for _, r2 := range r2s {
					g := &gCfg{reqs: map[string]string{"r1": r1}, tgts: map[string]*gTgt{}}
					if r2 != "-" {
						g.reqs["r2"] = r2
					}
					if a.present {
						g.tgts["a"] = mk(a)
					}
					if b.present {
						g.tgts["b"] = mk(b)
					}
					cfgs = append(cfgs, g)
				}
			}
		}
	}
	var out [][]string
	for _, o := range cfgs {
		for _, n := range cfgs {
			// revisions 0 and 1: the first load sits on the zero value of the field; a pair
			// (o, o) loads the same revision twice
			o.rev, n.rev = 0, 1
			ot, nt := o.token(), n.token()
			out = append(out, []string{"new aud -", "load " + ot + " 1", "load " + nt + " 2", "cur"})
			out = append(out, []string{"new aud " + ot + " 3", "load " + nt + " 4", "cur"})
		}
	}
	return out
}
