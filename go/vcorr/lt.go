package main

import (
	"fmt"
	"math/rand"
	"sort"
	"strconv"
	"strings"
	"time"

	"github.com/openconfig/gnmi/latency"
)

// lt: latency.Latency driven with a scripted latency.Now and a recording Metadata.
// Tokens are documented in lean/Driver/LT.lean.
//
// Observation of an update: `[sorted writes] mon=<r>`; a write is `<stat>@<window ns>=<value>`
// (the metadata name is mapped back through latency.MetadataName of the configured windows).
// `mon` is a model-independent monitor evaluated on the Go side only.  The harness keeps its own
// log: every sample (now - ts) since the last update call, and the batches closed by each update
// call with the clock reading of that call.  For every value written at clock reading `now` for a
// window of size W it takes S = the samples of the batches closed in (now-W, now] and checks the
// property's sentence: S is not empty, the value is not 0, min/max are elements of S (hence in
// [smallest, largest]), and smallest - sf < avg < largest + sf, sf = the configured averaging
// precision.  It applies while the update clock readings are non-decreasing and sf > 0 (`na`
// otherwise), the hypotheses of the Lean theorem latency_bounds.
type ltComp struct {
	l        *latency.Latency
	sizes    []int64
	sf       int64
	names    map[string]string // metadata name -> "<stat>@<size>"
	cur      []int64
	closed   []ltBatch
	mono     bool
	hasLast  bool
	last     int64
	exported map[string]int64 // "<stat>@<size>" -> last written value
}

type ltBatch struct {
	samples []int64
	stop    int64
}

type ltCall struct {
	name string
	val  int64
}

type ltMeta struct{ calls []ltCall }

func (m *ltMeta) SetInt(name string, v int64) error {
	m.calls = append(m.calls, ltCall{name, v})
	return nil
}

func init() { components["lt"] = &ltComp{} }

var ltStats = []latency.StatType{latency.Avg, latency.Max, latency.Min}

func ltKey(st latency.StatType, size int64) string { return st.String() + "@" + strconv.FormatInt(size, 10) }

func ltTime(n int64) time.Time { return time.Unix(0, n) }

// ---------------------------------------------------------------- the harness's own window

func (c *ltComp) covered(size, now int64) []int64 {
	var s []int64
	for _, b := range c.closed {
		if now-size < b.stop {
			s = append(s, b.samples...)
		}
	}
	return s
}

func ltMinMax(s []int64) (lo, hi int64) {
	lo, hi = s[0], s[0]
	for _, x := range s[1:] {
		if x < lo {
			lo = x
		}
		if x > hi {
			hi = x
		}
	}
	return
}

func ltContains(s []int64, v int64) bool {
	for _, x := range s {
		if x == v {
			return true
		}
	}
	return false
}

// monitorOne: the property's sentence for one written value ("" = fine).
func ltMonitorOne(sf int64, s []int64, stat string, v int64) string {
	if len(s) == 0 {
		return "no-sample"
	}
	if v == 0 {
		return "zero"
	}
	lo, hi := ltMinMax(s)
	switch stat {
	case "avg":
		if !(lo-sf < v && v < hi+sf) {
			return "avg-out-of-bounds"
		}
	default:
		if v < lo || v > hi {
			return stat + "-out-of-bounds"
		}
		if !ltContains(s, v) {
			return stat + "-not-a-sample"
		}
	}
	return ""
}

// ltBounded mirrors Gnmi.Latency.Bounded (Spec/Latency.lean) for the stale/nostale questions.
func ltBounded(sf int64, s []int64, stat string, v int64) bool {
	if len(s) == 0 || v == 0 {
		return false
	}
	lo, hi := ltMinMax(s)
	switch stat {
	case "max":
		return v == hi
	case "min":
		if !ltContains(s, v) {
			return false
		}
		if !ltContains(s, 0) {
			return v == lo
		}
		return true
	default:
		return lo/sf*sf <= v && v <= hi/sf*sf
	}
}

func (c *ltComp) applies() bool { return c.mono && c.sf > 0 }

func (c *ltComp) staleEntries() []string {
	if !c.hasLast {
		return nil
	}
	var out []string
	seen := map[int64]bool{}
	for _, size := range c.sizes {
		if seen[size] {
			continue
		}
		seen[size] = true
		s := c.covered(size, c.last)
		if len(s) == 0 {
			continue // a window without samples keeps its last values (pinned by TestLatency)
		}
		for _, st := range ltStats {
			k := ltKey(st, size)
			v, ok := c.exported[k]
			if ok && !ltBounded(c.sf, s, st.String(), v) {
				out = append(out, k+"="+strconv.FormatInt(v, 10))
			}
		}
	}
	return out
}

// ---------------------------------------------------------------- run

func (c *ltComp) Run(args []string) string {
	if len(args) == 0 {
		return "bad-op"
	}
	num := func(s string) int64 {
		n, err := strconv.ParseInt(s, 10, 64)
		if err != nil {
			panic("bad number")
		}
		return n
	}
	switch args[0] {
	case "race":
		return ltRace()
	case "race2":
		return ltRace2()
	case "new":
		if len(args) != 3 {
			return "bad-op"
		}
		*c = ltComp{mono: true, names: map[string]string{}, exported: map[string]int64{}, sf: 1}
		var ws []time.Duration
		if args[1] != "-" {
			for _, f := range strings.Split(args[1], ",") {
				n := num(f)
				c.sizes = append(c.sizes, n)
				ws = append(ws, time.Duration(n))
			}
		}
		var opts *latency.Options
		if args[2] != "nil" {
			p := num(args[2])
			opts = &latency.Options{AvgPrecision: time.Duration(p)}
			if p != 0 {
				c.sf = p
			}
		}
		for _, z := range c.sizes {
			for _, st := range ltStats {
				c.names[latency.MetadataName(time.Duration(z), st)] = ltKey(st, z)
			}
		}
		c.l = latency.New(ws, opts)
		return "ok"
	case "compute":
		if len(args) != 3 || c.l == nil {
			return "bad-op"
		}
		now, ts := num(args[1]), num(args[2])
		latency.Now = func() time.Time { return ltTime(now) }
		c.l.Compute(ltTime(ts))
		c.cur = append(c.cur, now-ts)
		return "ok"
	case "update", "last":
		if len(args) != 2 || c.l == nil {
			return "bad-op"
		}
		now := num(args[1])
		latency.Now = func() time.Time { return ltTime(now) }
		m := &ltMeta{}
		if args[0] == "update" {
			c.l.UpdateReset(m)
		} else {
			c.l.UpdateLast(m)
		}
		// the harness's own log
		if len(c.cur) > 0 {
			c.closed = append(c.closed, ltBatch{samples: c.cur, stop: now})
			c.cur = nil
		}
		if c.hasLast && now < c.last {
			c.mono = false
		}
		c.hasLast, c.last = true, now
		var ws []string
		mon := "ok"
		for _, call := range m.calls {
			k, ok := c.names[call.name]
			if !ok {
				ws = append(ws, "?"+encStr(call.name)+"="+strconv.FormatInt(call.val, 10))
				mon = "unknown-name"
				continue
			}
			c.exported[k] = call.val
			ws = append(ws, k+"="+strconv.FormatInt(call.val, 10))
			if c.applies() && mon == "ok" {
				at := strings.IndexByte(k, '@')
				size := num(k[at+1:])
				if e := ltMonitorOne(c.sf, c.covered(size, now), k[:at], call.val); e != "" {
					mon = "FAIL:" + e + ":" + k
				}
			}
		}
		if !c.applies() && mon == "ok" {
			mon = "na"
		}
		return sortedBracket(ws) + " mon=" + mon
	case "stale", "nostale":
		if c.l == nil {
			return "bad-op"
		}
		if !c.applies() {
			return "na"
		}
		return sortedBracket(c.staleEntries())
	case "parse":
		if len(args) != 3 {
			return "bad-op"
		}
		d, p := num(args[1]), num(args[2])
		ds, err := latency.ParseWindows([]string{time.Duration(d).String()}, time.Duration(p))
		if err != nil {
			return "notmult"
		}
		if len(ds) != 1 || ds[0] != time.Duration(d) {
			return "parse-mismatch"
		}
		return "ok"
	}
	return "bad-op"
}

// ---------------------------------------------------------------- generation

func ltAbs(x int64) int64 {
	if x < 0 {
		return -x
	}
	return x
}

// ltLat draws one latency: small, zero, negative (future-stamped), huge, around multiples of the
// precision, repeated.
func ltLat(r *rand.Rand, p, sf, prev int64) int64 {
	switch x := r.Intn(100); {
	case x < 32:
		return 1 + r.Int63n(3*p+5)
	case x < 42:
		return 0
	case x < 54:
		return -(1 + r.Int63n(2*p+5))
	case x < 62:
		return 1_000_000_000_000 + r.Int63n(10_000_000_000_000_000)
	case x < 66:
		return -(1_000_000_000_000 + r.Int63n(10_000_000_000_000_000))
	case x < 82:
		return (int64(r.Intn(10))-3)*sf + int64(r.Intn(3)) - 1
	case x < 91:
		return prev
	default:
		return r.Int63n(1_000_000_000)
	}
}

func (c *ltComp) Gen(r *rand.Rand, tier string) []string {
	periods := []int64{1, 2, 5, 1000, 2_000_000_000}
	p := periods[r.Intn(len(periods))]
	mult := []int64{1, 1, 2, 2, 3, 4, 6, 10}
	var sizes []string
	nW := 1 + r.Intn(3)
	var prevZ int64
	for i := 0; i < nW; i++ {
		z := mult[r.Intn(len(mult))] * p
		switch r.Intn(24) {
		case 0:
			z = 0
		case 1:
			z = -p
		case 2:
			z++ // not a multiple of the period
		case 3:
			if i > 0 {
				z = prevZ // duplicate window
			}
		}
		prevZ = z
		sizes = append(sizes, strconv.FormatInt(z, 10))
	}
	sizesTok := strings.Join(sizes, ",")
	if r.Intn(30) == 0 {
		sizesTok = "-"
	}
	precs := []string{"nil", "nil", "0", "1", "10", "1000", "1000", "1000000", strconv.FormatInt(p, 10), "3"}
	prec := precs[r.Intn(len(precs))]
	if r.Intn(40) == 0 {
		prec = "-10"
	}
	sf := int64(1)
	if prec != "nil" {
		if n, _ := strconv.ParseInt(prec, 10, 64); n != 0 {
			sf = ltAbs(n)
		}
	}
	bases := []int64{0, 1000, 1_700_000_000_000_000_000, -5000}
	t := bases[r.Intn(len(bases))]
	seq := []string{"new " + sizesTok + " " + prec}
	steps := 4 + r.Intn(30)
	if tier == "thorough" {
		steps = 4 + r.Intn(70)
	}
	nonMono := r.Intn(12) == 0
	var prev int64 = 7
	for i := 0; i < steps; i++ {
		end := t + p
		nb := r.Intn(4)
		switch r.Intn(10) {
		case 0: // jittered update instant
			end = t + p + r.Int63n(p+1) - p/2
		case 1: // idle gap: several periods pass
			end = t + p*int64(2+r.Intn(12))
			if r.Intn(2) == 0 {
				nb = 0
			}
		case 2: // burst
			nb = 5 + r.Intn(8)
		case 3: // two updates at the same instant
			end = t
		}
		if end < t {
			end = t
		}
		nows := make([]int64, nb)
		for j := range nows {
			switch r.Intn(6) {
			case 0:
				nows[j] = end
			case 1:
				nows[j] = t
			default:
				nows[j] = t + r.Int63n(end-t+1)
			}
		}
		sort.Slice(nows, func(a, b int) bool { return nows[a] < nows[b] })
		for _, now := range nows {
			lat := ltLat(r, p, sf, prev)
			prev = lat
			seq = append(seq, fmt.Sprintf("compute %d %d", now, now-lat))
		}
		op := "update"
		if r.Intn(25) == 0 || (i == steps-1 && r.Intn(3) == 0) {
			op = "last"
		}
		seq = append(seq, fmt.Sprintf("%s %d", op, end))
		if r.Intn(8) == 0 {
			seq = append(seq, "stale")
		}
		if r.Intn(40) == 0 {
			d := mult[r.Intn(len(mult))]*p + int64(r.Intn(2))*int64(r.Intn(3))
			q := p
			if r.Intn(6) == 0 {
				q = 0
			}
			seq = append(seq, fmt.Sprintf("parse %d %d", d, q))
		}
		t = end
		if nonMono && r.Intn(4) == 0 {
			t = end - r.Int63n(3*p+1) - 1 // the clock steps back
		}
	}
	return seq
}

// Exhaustive: every sequence of `depth` steps over {sample -1, sample 0, sample 3, sample 4,
// update one tick later, update at the same tick} for a 2-tick window (precision unset) and for
// windows of 1 and 2 ticks with precision 2, each followed by a final update and the stale report.
func (c *ltComp) Exhaustive(tier string) [][]string {
	depth := 5
	if tier == "thorough" {
		depth = 6
	}
	type sym struct {
		lat  int64
		tick int64
		upd  bool
	}
	alpha := []sym{{lat: -1}, {lat: 0}, {lat: 3}, {lat: 4}, {upd: true, tick: 1}, {upd: true, tick: 0}}
	var out [][]string
	for _, cfg := range []string{"new 2 nil", "new 1,2 2"} {
		var rec func(prefix []string, t int64, d int)
		rec = func(prefix []string, t int64, d int) {
			if d == 0 {
				seq := append([]string{cfg}, prefix...)
				seq = append(seq, fmt.Sprintf("update %d", t+1), "stale")
				out = append(out, seq)
				return
			}
			for _, s := range alpha {
				var line string
				nt := t
				if s.upd {
					nt = t + s.tick
					line = fmt.Sprintf("update %d", nt)
				} else {
					line = fmt.Sprintf("compute %d %d", t, t-s.lat)
				}
				rec(append(cloneStrs(prefix), line), nt, d-1)
			}
		}
		rec(nil, 0, depth)
	}
	return out
}
