package main

import (
	"context"
	"errors"
	"flag"
	"fmt"
	"io"
	"math/rand"
	"os"
	"runtime"
	"strconv"
	"strings"
	"sync"
	"time"

	"google.golang.org/grpc"
	"google.golang.org/grpc/codes"
	"google.golang.org/grpc/credentials/insecure"
	"google.golang.org/grpc/metadata"
	"google.golang.org/grpc/status"
	"google.golang.org/protobuf/proto"
	"google.golang.org/protobuf/types/known/anypb"

	gpb "github.com/openconfig/gnmi/proto/gnmi"
	fgnmi "github.com/openconfig/gnmi/testing/fake/gnmi"
	fpb "github.com/openconfig/gnmi/testing/fake/proto"
)

// fa: the fake agent (testing/fake/gnmi: New, Agent.Subscribe, Client.Run/reset/processQueue/
// send/recv, valToResp) as ONE SUBSCRIBER sees it.  Property C20 (and run mode `agent` of C01).
// Mirrored by lean/Driver/FA.lean (model lean/Gnmi/Model/FakeAgent.lean).
//
//	new <sync 0|1> <disable_eof 0|1> <delay 0|1> <gen n|c|r|f> <seed>:<draws> <item>*   -> ok
//	sub <via p|g|s> <mode s|o|p> <target -|str> <limit> <polls>   -> [<response>,...]/<end>
//	bad <via p|g> <eof|nosub|err:<code>>                        -> rejected:code<N>
//	clients                                                      -> <n>
//
// `new` starts a REAL agent (fgnmi.New: listener on loopback, gRPC server).  `sub` with via=g is
// one Subscribe RPC over loopback gRPC; via=p calls Agent.Subscribe in process on a scripted
// stream (needed to observe the states in which the stream stays open: `held` = send blocked on
// canceledCh (disable_eof), `poll` = processQueue blocked on <-c.polled).  Those two states are
// observed positively: the goroutine running Client.send is in state [chan receive] inside
// send / processQueue (runtime.Stack), a state it cannot leave by itself — no timing enters an
// observation; all waits are generous deadlines.  A `Poll` request is only handed to the agent
// while its sender waits for one.  <end>: eof (RPC completed, status OK) | held | poll | open
// (the subscriber stopped reading after <limit> responses) | panic | code<N>.
//
// Items: values as for fq (gen n|c|r: no generator / custom / random — the code only looks at
// `fixed`), or fixed responses (gen f): n|<ts>|<pfx>|<body> (<pfx> = - or target+origin+elems;
// <body> = ~ or ;-joined u<path>=<tv> / d<path>), E (update wrapper, nil notification), s0/s1
// (sync response), e (no response set).
type faComp struct {
	agent  *fgnmi.Agent
	conn   *grpc.ClientConn
	cfg    *fpb.Config
	viaSet bool // the next in-process subscriber is a Client created for another configuration and given this one with SetConfig
}

func init() { components["fa"] = &faComp{} }

// ---------------------------------------------------------------- fixed responses

func faParseTV(s string) *gpb.TypedValue {
	kv := strings.SplitN(s, ":", 2)
	if len(kv) != 2 {
		return nil
	}
	switch kv[0] {
	case "int":
		x, _ := strconv.ParseInt(kv[1], 10, 64)
		return &gpb.TypedValue{Value: &gpb.TypedValue_IntVal{IntVal: x}}
	case "uint":
		x, _ := strconv.ParseUint(kv[1], 10, 64)
		return &gpb.TypedValue{Value: &gpb.TypedValue_UintVal{UintVal: x}}
	case "bool":
		return &gpb.TypedValue{Value: &gpb.TypedValue_BoolVal{BoolVal: kv[1] == "true"}}
	case "str":
		return &gpb.TypedValue{Value: &gpb.TypedValue_StringVal{StringVal: decStr(kv[1])}}
	}
	return nil
}

func faElemPath(names []string) *gpb.Path {
	p := &gpb.Path{}
	for _, n := range names {
		p.Elem = append(p.Elem, &gpb.PathElem{Name: n})
	}
	return p
}

func faElemNames(p *gpb.Path) []string {
	var out []string
	for _, e := range p.GetElem() {
		out = append(out, e.GetName())
	}
	return out
}

func faParseFixed(tok string) *gpb.SubscribeResponse {
	switch tok {
	case "E":
		return &gpb.SubscribeResponse{Response: &gpb.SubscribeResponse_Update{}}
	case "s1", "s0":
		return &gpb.SubscribeResponse{Response: &gpb.SubscribeResponse_SyncResponse{SyncResponse: tok == "s1"}}
	}
	f := strings.Split(tok, "|")
	if len(f) != 4 || f[0] != "n" {
		return &gpb.SubscribeResponse{}
	}
	n := &gpb.Notification{}
	n.Timestamp, _ = strconv.ParseInt(f[1], 10, 64)
	if f[2] != "-" {
		p := strings.Split(f[2], "+")
		if len(p) == 3 {
			n.Prefix = faElemPath(decPath(p[2]))
			n.Prefix.Target, n.Prefix.Origin = decStr(p[0]), decStr(p[1])
		}
	}
	if f[3] != "~" {
		for _, it := range strings.Split(f[3], ";") {
			switch {
			case strings.HasPrefix(it, "u"):
				kv := strings.SplitN(it[1:], "=", 2)
				if len(kv) == 2 {
					n.Update = append(n.Update, &gpb.Update{Path: faElemPath(decPath(kv[0])), Val: faParseTV(kv[1])})
				}
			case strings.HasPrefix(it, "d"):
				n.Delete = append(n.Delete, faElemPath(decPath(it[1:])))
			}
		}
	}
	return &gpb.SubscribeResponse{Response: &gpb.SubscribeResponse_Update{Update: n}}
}

// faResp is the canonical rendering of a received response: kind, path, timestamp, value, prefix.
func faResp(r *gpb.SubscribeResponse) string {
	if r == nil {
		return "nil"
	}
	switch x := r.GetResponse().(type) {
	case *gpb.SubscribeResponse_SyncResponse:
		return "s:" + strconv.FormatBool(x.SyncResponse)
	case *gpb.SubscribeResponse_Update:
		n := x.Update
		if n == nil {
			return "E"
		}
		pfx := ""
		if n.Prefix != nil {
			pfx = "^" + encStr(n.Prefix.Target) + "+" + encStr(n.Prefix.Origin) + "+" + encPath(faElemNames(n.Prefix))
			if len(n.Prefix.Element) != 0 {
				pfx += "?element"
			}
		}
		ts := "@" + strconv.FormatInt(n.Timestamp, 10)
		if n.Atomic {
			ts += "?atomic"
		}
		// the two shapes valToResp builds: paths in the deprecated `element` field
		if len(n.Update) == 1 && len(n.Delete) == 0 && len(n.Update[0].GetPath().GetElem()) == 0 {
			u := n.Update[0]
			return "u:" + encPath(u.GetPath().GetElement()) + ts + "=" + fqTV(u.GetVal()) + pfx
		}
		if len(n.Update) == 0 && len(n.Delete) == 1 && len(n.Delete[0].GetElem()) == 0 {
			return "d:" + encPath(n.Delete[0].GetElement()) + ts + pfx
		}
		var items []string
		for _, u := range n.Update {
			items = append(items, "u"+encPath(faElemNames(u.GetPath()))+"="+fqTV(u.GetVal()))
		}
		for _, d := range n.Delete {
			items = append(items, "d"+encPath(faElemNames(d)))
		}
		body := "~"
		if len(items) > 0 {
			body = strings.Join(items, ";")
		}
		return "n:" + body + ts + pfx
	case nil:
		return "e"
	}
	return "?"
}

// ---------------------------------------------------------------- the scripted in-process stream

type faStream struct {
	mu      sync.Mutex
	first   *gpb.SubscribeRequest
	firstE  error
	calls   int // Recv calls entered
	handed  bool // the previous Recv returned a Poll
	served  int  // Polls fully processed by the agent's recv loop (it came back for more)
	limit   int
	out     []*gpb.SubscribeResponse
	refused bool
	polls   chan struct{}
	done    chan struct{}
}

func (s *faStream) Send(r *gpb.SubscribeResponse) error {
	s.mu.Lock()
	defer s.mu.Unlock()
	if len(s.out) >= s.limit {
		s.refused = true
		return errors.New("subscriber stopped reading")
	}
	if r == nil {
		s.out = append(s.out, nil)
	} else {
		s.out = append(s.out, proto.Clone(r).(*gpb.SubscribeResponse))
	}
	return nil
}

func (s *faStream) Recv() (*gpb.SubscribeRequest, error) {
	s.mu.Lock()
	s.calls++
	k := s.calls
	if s.handed {
		s.handed = false
		s.served++
	}
	s.mu.Unlock()
	if k == 1 {
		return s.first, s.firstE
	}
	select {
	case <-s.polls:
		s.mu.Lock()
		s.handed = true
		s.mu.Unlock()
		return &gpb.SubscribeRequest{Request: &gpb.SubscribeRequest_Poll{Poll: &gpb.Poll{}}}, nil
	case <-s.done:
		return nil, io.EOF
	}
}

func (s *faStream) pollsServed() int {
	s.mu.Lock()
	defer s.mu.Unlock()
	return s.served
}
func (s *faStream) SetHeader(metadata.MD) error  { return nil }
func (s *faStream) SendHeader(metadata.MD) error { return nil }
func (s *faStream) SetTrailer(metadata.MD)       {}
func (s *faStream) Context() context.Context     { return context.Background() }
func (s *faStream) SendMsg(m any) error          { return nil }
func (s *faStream) RecvMsg(m any) error          { return nil }

// faBlocked looks for the goroutine running Client.send and reports where it is parked on a
// channel receive: "held" (in send: <-c.canceledCh), "poll" (in processQueue: <-c.polled), or "".
func faBlocked() string {
	buf := make([]byte, 1<<16)
	for {
		n := runtime.Stack(buf, true)
		if n < len(buf) {
			buf = buf[:n]
			break
		}
		buf = make([]byte, 2*len(buf))
	}
	const pkg = "github.com/openconfig/gnmi/testing/fake/gnmi.(*Client)."
	for _, g := range strings.Split(string(buf), "\n\n") {
		lines := strings.Split(g, "\n")
		if len(lines) < 2 || !strings.Contains(lines[0], "[chan receive") {
			continue
		}
		switch {
		case strings.HasPrefix(lines[1], pkg+"send("):
			return "held"
		case strings.HasPrefix(lines[1], pkg+"processQueue("):
			return "poll"
		}
	}
	return ""
}

var faDevNull *os.File

func faQuiet() func() {
	if faDevNull == nil {
		flag.Set("logtostderr", "true")
		faDevNull, _ = os.OpenFile(os.DevNull, os.O_WRONLY, 0)
	}
	saved := os.Stderr
	if faDevNull != nil {
		os.Stderr = faDevNull
	}
	return func() { os.Stderr = saved }
}

func faRender(out []*gpb.SubscribeResponse, end string) string {
	var l []string
	for _, r := range out {
		l = append(l, faResp(r))
	}
	return bracket(l) + "/" + end
}

func faStatus(err error) string {
	return "rejected:code" + strconv.Itoa(int(status.Code(err)))
}

const faDeadline = 20 * time.Second

// inProcess runs Agent.Subscribe on a scripted stream.
func (c *faComp) inProcess(first *gpb.SubscribeRequest, firstE error, limit, polls int) string {
	defer faQuiet()()
	st := &faStream{first: first, firstE: firstE, limit: limit, polls: make(chan struct{}), done: make(chan struct{})}
	defer close(st.done)
	fin := make(chan struct{})
	var err error
	panicked := false
	var own *fgnmi.Client
	if c.viaSet {
		own = fgnmi.NewClient(&fpb.Config{Target: "other", Seed: c.cfg.GetSeed() + 7777})
		own.SetConfig(c.cfg)
	}
	go func() {
		defer close(fin)
		defer func() {
			if r := recover(); r != nil {
				panicked = true
				if os.Getenv("VERIF_FA_DEBUG") != "" {
					buf := make([]byte, 1<<14)
					fmt.Fprintf(os.Stderr, "fa: panic %v\n%s\n", r, buf[:runtime.Stack(buf, false)])
				}
			}
		}()
		if c.viaSet {
			// what Agent.Subscribe does, on a Client that was created for ANOTHER configuration (another seed, no
			// values) and handed the agent's configuration afterwards: the generator a Run builds is the one of
			// the configuration in force — two generators built from one configuration and seed emit the same
			// sequence however the client came by it (seeded change c20_seed11: the seed cached at NewClient)
			defer own.Close()
			err = own.Run(st)
			return
		}
		err = c.agent.Subscribe(st)
	}()
	finish := func(end string) string {
		if panicked {
			end = "panic"
		}
		if err != nil {
			return faStatus(err)
		}
		st.mu.Lock()
		defer st.mu.Unlock()
		if st.refused {
			end = "open"
		}
		return faRender(st.out, end)
	}
	release := func(end string) string {
		// let the parked sender go: Close (cancel token / canceled flag), then a poll token
		cl := own
		if cl == nil {
			cl = fgnmi.VerifLastClient(c.agent)
		}
		cl.Close()
		fgnmi.VerifPoll(cl)
		select {
		case <-fin:
		case <-time.After(faDeadline):
			return "stuck-after-" + end
		}
		return finish(end)
	}
	start := time.Now()
	for spin := 0; ; spin++ {
		select {
		case <-fin:
			return finish("eof")
		default:
		}
		switch faBlocked() {
		case "held":
			return release("held")
		case "poll":
			if polls == 0 {
				return release("poll")
			}
			polls--
			before := st.pollsServed()
			select {
			case st.polls <- struct{}{}:
			case <-time.After(faDeadline):
				return "poll-not-read"
			}
			// recv is back in Recv once the sender has taken the token (reset done before that)
			for st.pollsServed() == before {
				if time.Since(start) > faDeadline {
					return "poll-not-served"
				}
				select {
				case <-fin:
					return finish("eof")
				default:
				}
				time.Sleep(50 * time.Microsecond)
			}
			continue
		}
		if time.Since(start) > faDeadline {
			return "timeout"
		}
		if spin < 50 {
			runtime.Gosched()
		} else {
			time.Sleep(100 * time.Microsecond)
		}
	}
}

// overGRPC is one Subscribe RPC against the agent's listener.
func (c *faComp) overGRPC(first *gpb.SubscribeRequest, limit int) string {
	defer faQuiet()()
	if c.conn == nil {
		conn, err := grpc.Dial(c.agent.Address(), grpc.WithTransportCredentials(insecure.NewCredentials()))
		if err != nil {
			return "dial-failed"
		}
		c.conn = conn
	}
	ctx, cancel := context.WithTimeout(context.Background(), faDeadline)
	defer cancel()
	stream, err := gpb.NewGNMIClient(c.conn).Subscribe(ctx)
	if err != nil {
		return "subscribe-failed"
	}
	if first != nil {
		if err := stream.Send(first); err != nil {
			return "send-failed"
		}
	} else {
		stream.CloseSend()
	}
	var out []*gpb.SubscribeResponse
	for {
		r, err := stream.Recv()
		if err == io.EOF {
			return faRender(out, "eof")
		}
		if err != nil {
			if len(out) == 0 {
				return faStatus(err)
			}
			return faRender(out, "code"+strconv.Itoa(int(status.Code(err))))
		}
		if len(out) == limit {
			return faRender(out, "open")
		}
		out = append(out, r)
	}
}

func faRequest(mode, target string) *gpb.SubscribeRequest {
	sl := &gpb.SubscriptionList{}
	switch mode {
	case "o":
		sl.Mode = gpb.SubscriptionList_ONCE
	case "p":
		sl.Mode = gpb.SubscriptionList_POLL
	default:
		sl.Mode = gpb.SubscriptionList_STREAM
	}
	if target != "-" {
		sl.Prefix = &gpb.Path{Target: decStr(target)}
	}
	return &gpb.SubscribeRequest{Request: &gpb.SubscribeRequest_Subscribe{Subscribe: sl}}
}

func (c *faComp) closeAgent() {
	if c.conn != nil {
		c.conn.Close()
		c.conn = nil
	}
	if c.agent != nil {
		c.agent.Close()
		c.agent = nil
	}
}

func (c *faComp) Run(args []string) string {
	if len(args) == 0 {
		return "bad-op"
	}
	switch args[0] {
	case "new":
		if len(args) < 6 {
			return "bad-op"
		}
		c.closeAgent()
		seed, _ := strconv.ParseInt(strings.SplitN(args[5], ":", 2)[0], 10, 64)
		cfg := &fpb.Config{Target: "dev", Seed: seed, DisableSync: args[1] != "1", DisableEof: args[2] == "1", EnableDelay: args[3] == "1"}
		switch args[4] {
		case "f":
			fg := &fpb.FixedGenerator{}
			for _, tok := range args[6:] {
				fg.Responses = append(fg.Responses, faParseFixed(tok))
			}
			cfg.Generator = &fpb.Config_Fixed{Fixed: fg}
		default:
			var vals []*fqV
			for _, tok := range args[6:] {
				vals = append(vals, fqParseValue(tok))
			}
			cfg.Values = fqProtos(vals)
			switch args[4] {
			case "c":
				cfg.Generator = &fpb.Config_Custom{Custom: &anypb.Any{TypeUrl: "type.googleapis.com/x"}}
			case "r":
				cfg.Generator = &fpb.Config_Random{Random: &fpb.RandomGenerator{}}
			}
		}
		restore := faQuiet()
		a, err := fgnmi.New(cfg, nil)
		restore()
		if err != nil {
			return "new-failed"
		}
		c.agent = a
		c.cfg = cfg
		return "ok"
	case "sub":
		if len(args) != 6 || c.agent == nil {
			return "bad-op"
		}
		limit, _ := strconv.Atoi(args[4])
		polls, _ := strconv.Atoi(args[5])
		req := faRequest(args[2], args[3])
		if args[1] == "g" {
			return c.overGRPC(req, limit)
		}
		c.viaSet = args[1] == "s"
		defer func() { c.viaSet = false }()
		return c.inProcess(req, nil, limit, polls)
	case "bad":
		if len(args) != 3 || c.agent == nil {
			return "bad-op"
		}
		poll := &gpb.SubscribeRequest{Request: &gpb.SubscribeRequest_Poll{Poll: &gpb.Poll{}}}
		switch {
		case args[2] == "eof":
			if args[1] == "g" {
				return c.overGRPC(nil, 0)
			}
			return c.inProcess(nil, io.EOF, 0, 0)
		case args[2] == "nosub":
			if args[1] == "g" {
				return c.overGRPC(poll, 0)
			}
			return c.inProcess(poll, nil, 0, 0)
		case strings.HasPrefix(args[2], "err:"):
			code, _ := strconv.Atoi(args[2][4:])
			var e error = status.Error(codes.Code(code), "transport")
			if code == 2 {
				e = errors.New("not a status error") // grpc.Code of a plain error is Unknown
			}
			return c.inProcess(nil, e, 0, 0)
		}
		return "bad-op"
	case "clients":
		if c.agent == nil {
			return "bad-op"
		}
		return strconv.Itoa(fgnmi.VerifClients(c.agent))
	}
	return "bad-op"
}

// ---------------------------------------------------------------- generators

func faFixedTok(r *rand.Rand, base *int64, bad bool) string {
	switch x := r.Intn(20); {
	case x < 13:
		switch r.Intn(5) {
		case 0:
		case 1:
			*base -= int64(r.Intn(30))
		default:
			*base += int64(r.Intn(50))
		}
		pfx := "-"
		switch r.Intn(4) {
		case 0:
			pfx = encStr([]string{"", "dev", "elsewhere"}[r.Intn(3)]) + "+" + encStr([]string{"", "oc"}[r.Intn(2)]) + "+" + encPath(fqPickStrs(r, r.Intn(3)))
		case 1:
			pfx = "~+~+."
		}
		var items []string
		for i, n := 0, r.Intn(4); i < n; i++ {
			p := encPath(append(fqPickStrs(r, r.Intn(2)), fmt.Sprintf("l%d", r.Intn(3))))
			if r.Intn(4) == 0 {
				items = append(items, "d"+p)
			} else {
				tv := []string{"int:" + strconv.Itoa(r.Intn(9)-4), "uint:" + strconv.Itoa(r.Intn(9)), "bool:true", "bool:false", "str:" + encStr(fqStrs[r.Intn(len(fqStrs))])}[r.Intn(5)]
				items = append(items, "u"+p+"="+tv)
			}
		}
		// updates before deletes, as a notification is rendered
		var us, ds []string
		for _, it := range items {
			if it[0] == 'u' {
				us = append(us, it)
			} else {
				ds = append(ds, it)
			}
		}
		body := "~"
		if len(items) > 0 {
			body = strings.Join(append(us, ds...), ";")
		}
		return fmt.Sprintf("n|%d|%s|%s", *base, pfx, body)
	case x < 15:
		return []string{"s1", "s1", "s0"}[r.Intn(3)]
	case x < 17:
		return "e"
	default:
		if bad {
			return "E"
		}
		return fmt.Sprintf("n|%d|-|~", *base)
	}
}

func faSubs(r *rand.Rand, deof, inProcOnly bool, total int) []string {
	var seq []string
	for i, n := 0, 1+r.Intn(3); i < n; i++ {
		mode := []string{"s", "s", "s", "o", "p"}[r.Intn(5)]
		target := []string{"-", "-", "~", "dev", "dev", "other", encStr("a b/c")}[r.Intn(7)]
		limit := 1 + r.Intn(30)
		switch r.Intn(8) {
		case 0:
			limit = 0
		case 1:
			if total >= 0 {
				limit = total // exactly the length of the stream: the end is seen, nothing refused
			}
		case 2:
			limit = 200
		}
		polls := 0
		if mode == "p" {
			polls = r.Intn(3)
		} else if r.Intn(10) == 0 {
			polls = 1
		}
		via := "p"
		if !deof && mode != "p" && !inProcOnly && r.Intn(3) == 0 {
			via = "g"
		} else if r.Intn(5) == 0 {
			via = "s" // a Client created for another configuration and given this one with SetConfig
		}
		seq = append(seq, fmt.Sprintf("sub %s %s %s %d %d", via, mode, target, limit, polls))
		if r.Intn(8) == 0 {
			what := []string{"eof", "nosub", "err:14", "err:2", "err:4"}[r.Intn(5)]
			v := "p"
			if !strings.HasPrefix(what, "err") && r.Intn(2) == 0 {
				v = "g"
			}
			seq = append(seq, "bad "+v+" "+what)
		}
	}
	if r.Intn(3) == 0 {
		seq = append(seq, "clients")
	}
	return seq
}

func faNewLine(sync, deof, delay bool, gen string, seed int64, ndraws int, items []string) string {
	return strings.Join(append([]string{"new", b01(sync), b01(deof), b01(delay), gen, fmt.Sprintf("%d:%s", seed, rawDraws(seed, ndraws))}, items...), " ")
}

// faValuesSeq: a configuration of generated values (every kind) and a few subscribers.
func faValuesSeq(r *rand.Rand, cfg []*fqV, seed int64, sync, deof bool, gen string, subs []string, maxLimit int) []string {
	kk := maxLimit + 4
	gcost := 1
	for _, v := range cfg {
		if v.seed == 0 && v.cost() > gcost {
			gcost = v.cost()
		}
	}
	var items []string
	for _, v := range cfg {
		n := kk
		if v.repeat >= 1 && int(v.repeat) < n {
			n = int(v.repeat)
		}
		items = append(items, v.token(n*v.cost()+48))
	}
	return append([]string{faNewLine(sync, deof, false, gen, seed, kk*gcost*(len(cfg)+1)+48, items)}, subs...)
}

func faMaxLimit(subs []string) int {
	m := 0
	for _, s := range subs {
		f := strings.Fields(s)
		if len(f) == 6 && f[0] == "sub" {
			if l, _ := strconv.Atoi(f[4]); l > m {
				m = l
			}
		}
	}
	return m
}

func (c *faComp) Gen(r *rand.Rand, tier string) []string {
	sync := r.Intn(4) != 0
	deof := r.Intn(4) == 0
	if r.Intn(5) < 2 {
		// fixed generator
		delay := r.Intn(3) == 0
		bad := r.Intn(5) == 0
		base := int64([]int{0, 5, 100}[r.Intn(3)])
		var items []string
		for i, n := 0, r.Intn(7); i < n; i++ {
			items = append(items, faFixedTok(r, &base, bad))
		}
		total := len(items)
		if sync {
			total++
		}
		subs := faSubs(r, deof, bad, total)
		return append([]string{faNewLine(sync, deof, delay, "f", 1, 0, items)}, subs...)
	}
	nvals := r.Intn(6)
	base := []int64{0, 0, 1, 1000, 1500000000000000000}[r.Intn(5)]
	var cfg []*fqV
	total, finite := 0, true
	for i := 0; i < nvals; i++ {
		v := fqGenValue(r, i, base)
		if v.repeat == 1000 {
			v.repeat = int32(7 + r.Intn(5))
		}
		if r.Intn(14) == 0 {
			v.kind, v.repeat = "unset", 1 // accepted by the queue, refused by valToResp
		}
		cfg = append(cfg, v)
		finite = finite && v.repeat >= 1
		total += int(v.repeat)
	}
	if nvals > 0 && r.Intn(10) == 0 {
		fqBreak(r, cfg[r.Intn(nvals)])
	}
	if sync {
		total++
	}
	if !finite {
		total = -1
	}
	seed := int64(1 + r.Intn(1000))
	if r.Intn(6) == 0 {
		seed = r.Int63() - r.Int63()
		if seed == 0 {
			seed = 42
		}
	}
	gen := []string{"n", "n", "n", "n", "c", "r"}[r.Intn(6)]
	subs := faSubs(r, deof, false, total)
	return faValuesSeq(r, cfg, seed, sync, deof, gen, subs, faMaxLimit(subs))
}

// Exhaustive: every value kind / distribution arm as a single-value configuration x repeat 1, 3,
// unbounded x (sync, disable_eof, mode) settings; every fixed list of length <= 2 over a token
// scope x delay x sync.
func (c *faComp) Exhaustive(tier string) [][]string {
	var out [][]string
	type setting struct {
		sync, deof bool
		mode       string
		polls      int
	}
	settings := []setting{{true, false, "s", 0}, {false, false, "o", 0}, {true, true, "s", 0}, {true, false, "p", 1}, {false, true, "p", 1}}
	for vi, base := range fqVariants() {
		for _, rep := range []int32{1, 3, 0} {
			for si, s := range settings {
				v := *base
				v.path = []string{"x", "v0"}
				v.hasTS, v.ts, v.dmin, v.dmax = true, 4, 1, 2
				v.repeat = rep
				if (vi+si)%3 == 0 {
					v.seed = 5
				}
				target := []string{"-", "dev", "other", "~"}[(vi+si)%4]
				subs := []string{fmt.Sprintf("sub p %s %s 6 %d", s.mode, target, s.polls)}
				if !s.deof && s.mode != "p" && rep != 0 {
					subs = append(subs, fmt.Sprintf("sub g %s %s 6 0", s.mode, target))
				}
				out = append(out, faValuesSeq(nil, []*fqV{&v}, 11, s.sync, s.deof, "n", subs, 6))
			}
		}
	}
	toks := []string{"n|5|-|u/a=int:1", "n|3|dev+oc+/p|u/a/b=str:x;d/c", "n|9|~+~+.|~", "s1", "e", "E"}
	var lists [][]string
	lists = append(lists, nil)
	for _, a := range toks {
		lists = append(lists, []string{a})
		for _, b := range toks {
			lists = append(lists, []string{a, b})
		}
	}
	for _, l := range lists {
		hasE := false
		for _, t := range l {
			hasE = hasE || t == "E"
		}
		for _, delay := range []bool{false, true} {
			for _, s := range settings {
				subs := []string{fmt.Sprintf("sub p %s dev 5 %d", s.mode, s.polls), fmt.Sprintf("sub p %s - 1 0", s.mode)}
				if !s.deof && s.mode != "p" && !hasE {
					subs = append(subs, fmt.Sprintf("sub g %s other 5 0", s.mode))
				}
				out = append(out, append([]string{faNewLine(s.sync, s.deof, delay, "f", 1, 0, l)}, subs...))
			}
		}
	}
	// request validation, second subscriber, client count
	out = append(out, []string{faNewLine(true, false, false, "n", 3, 60, []string{(&fqV{kind: "int", dist: 'c', iv: 7, path: []string{"a"}, hasTS: true, ts: 1, dmin: 1, dmax: 1, repeat: 2}).token(60)}),
		"bad p eof", "bad g eof", "bad p nosub", "bad g nosub", "bad p err:14", "bad p err:2", "clients",
		"sub p s dev 9 0", "sub g s dev 9 0", "sub p s nosuchtarget 9 0", "sub g s nosuchtarget 9 0", "clients"})
	return out
}
