package main

import (
	"fmt"
	"math/rand"
	"strconv"
	"strings"

	gpb "github.com/openconfig/gnmi/proto/gnmi"
	"github.com/openconfig/gnmi/testing/fake/queue"
)

// fx: testing/fake/queue.FixedQueue driven through NewFixed / Add / Next from one goroutine.
// Property C20 (anchor testing/fake/queue/fixed_queue.go).  Mirrored by lean/Driver/FX.lean.
//
//	new <delay 0|1> <resp>*   -> ok
//	add <resp>                -> ok
//	next                      -> nil | panic/<len>/<lastTS> | <tag>/<slept>/<delay>/<lastTS>/<len>
//
// <resp>: n (nil entry) | u<ts> (update, notification timestamp ts) | U (update wrapper with a
// nil notification) | s (sync response) | e (Response unset).  Responses are numbered in the
// order they are handed to the queue; the returned response is identified by pointer.
// <slept> is q.delay as it stands when Next is called (what Next sleeps for); timestamps are
// kept within a few hundred nanoseconds of each other by the generators, so the real
// time.Sleep calls are negligible; no observation depends on wall-clock time.
type fxComp struct {
	q    *queue.FixedQueue
	tags map[*gpb.SubscribeResponse]int
	nid  int
}

func init() { components["fx"] = &fxComp{} }

func (c *fxComp) mk(tok string) *gpb.SubscribeResponse {
	id := c.nid
	c.nid++
	var r *gpb.SubscribeResponse
	switch {
	case tok == "n":
		return nil
	case tok == "U":
		r = &gpb.SubscribeResponse{Response: &gpb.SubscribeResponse_Update{}}
	case strings.HasPrefix(tok, "u"):
		ts, _ := strconv.ParseInt(tok[1:], 10, 64)
		r = &gpb.SubscribeResponse{Response: &gpb.SubscribeResponse_Update{Update: &gpb.Notification{Timestamp: ts}}}
	case tok == "s":
		r = &gpb.SubscribeResponse{Response: &gpb.SubscribeResponse_SyncResponse{SyncResponse: true}}
	default:
		r = &gpb.SubscribeResponse{}
	}
	c.tags[r] = id
	return r
}

func (c *fxComp) Run(args []string) (out string) {
	if len(args) == 0 {
		return "bad-op"
	}
	switch args[0] {
	case "new":
		if len(args) < 2 {
			return "bad-op"
		}
		c.tags = map[*gpb.SubscribeResponse]int{}
		c.nid = 0
		var resps []*gpb.SubscribeResponse
		for _, tok := range args[2:] {
			resps = append(resps, c.mk(tok))
		}
		c.q = queue.NewFixed(resps, args[1] == "1")
		return "ok"
	case "add":
		if c.q == nil || len(args) != 2 {
			return "bad-op"
		}
		c.q.Add(c.mk(args[1]))
		return "ok"
	case "next":
		if c.q == nil || len(args) != 1 {
			return "bad-op"
		}
		slept, _, _ := queue.VerifFixedState(c.q)
		defer func() {
			if r := recover(); r != nil {
				_, last, n := queue.VerifFixedState(c.q)
				out = fmt.Sprintf("panic/%d/%d", n, last)
			}
		}()
		v, err := c.q.Next()
		if err != nil {
			return "err"
		}
		if v == nil {
			return "nil"
		}
		r, ok := v.(*gpb.SubscribeResponse)
		if !ok {
			return "wrong-type"
		}
		delay, last, n := queue.VerifFixedState(c.q)
		tag := "nil-entry"
		if r != nil {
			id, known := c.tags[r]
			if !known {
				return "unknown-response"
			}
			tag = strconv.Itoa(id)
		}
		return fmt.Sprintf("%s/%d/%d/%d/%d", tag, slept, delay, last, n)
	}
	return "bad-op"
}

func fxTok(r *rand.Rand, base *int64, bad bool) string {
	switch x := r.Intn(20); {
	case x < 12:
		// mostly non-decreasing, sometimes equal, sometimes going back (clamped delay)
		switch r.Intn(6) {
		case 0:
		case 1:
			*base -= int64(r.Intn(40))
		default:
			*base += int64(r.Intn(60))
		}
		return fmt.Sprintf("u%d", *base)
	case x < 15:
		return "s"
	case x < 17:
		return "e"
	default:
		if bad {
			return []string{"n", "U"}[r.Intn(2)]
		}
		return fmt.Sprintf("u%d", *base)
	}
}

func (c *fxComp) Gen(r *rand.Rand, tier string) []string {
	delay := r.Intn(4) != 0
	bad := r.Intn(4) == 0 // the malformed stream: nil entries / nil notifications
	base := int64([]int{0, 0, 5, 100, -30}[r.Intn(5)])
	n := r.Intn(7)
	line := "new " + map[bool]string{false: "0", true: "1"}[delay]
	for i := 0; i < n; i++ {
		line += " " + fxTok(r, &base, bad)
	}
	seq := []string{line}
	steps := 3 + r.Intn(14)
	for i := 0; i < steps; i++ {
		if r.Intn(4) == 0 {
			seq = append(seq, "add "+fxTok(r, &base, bad))
		} else {
			seq = append(seq, "next")
		}
	}
	// drain
	for i := 0; i < 3; i++ {
		seq = append(seq, "next")
	}
	return seq
}

func (c *fxComp) Exhaustive(tier string) [][]string {
	toks := []string{"u0", "u7", "u3", "s", "n", "U"}
	if tier == "thorough" {
		toks = append(toks, "e", "u-5")
	}
	var out [][]string
	for _, d := range []string{"0", "1"} {
		// every queue of length <= 3 over the token scope, drained, then one Add and two more Next
		var rec func(prefix []string, k int)
		rec = func(prefix []string, k int) {
			seq := []string{"new " + d + " " + strings.Join(prefix, " ")}
			if len(prefix) == 0 {
				seq = []string{"new " + d}
			}
			for i := 0; i <= len(prefix); i++ {
				seq = append(seq, "next")
			}
			seq = append(seq, "add u9", "next", "next")
			out = append(out, seq)
			if k == 0 {
				return
			}
			for _, t := range toks {
				rec(append(cloneStrs(prefix), t), k-1)
			}
		}
		rec(nil, 3)
		// Add between Next calls
		for _, a := range toks {
			for _, b := range toks {
				out = append(out, []string{"new " + d + " " + a, "add " + b, "next", "add u20", "next", "next", "next"})
				out = append(out, []string{"new " + d + " " + a + " " + b, "next", "next", "add " + a, "next", "next"})
			}
		}
	}
	return out
}
