package main

// rc poll: Close (or cancellation of the caller's context) while Poll() calls are in
// flight on client.Reconnect(BaseClient | CacheClient) with a Poll-type query, over the
// repository's gNMI transport on a scripted stream.  One op line = one scenario:
//
//	rc new poll <mode> <first> <polls> <inj>
//
//	mode    rb | rc   client.Reconnect over BaseClient | CacheClient (client.New())
//	first   k         the first attempt delivers k updates, then the sync (for a Poll query
//	                  Recv then returns the stop marker: the inner Subscribe returns nil and
//	                  the reconnect loop calls the disconnect callback)
//	polls   - | Poll calls joined by ',', issued one after the other while goroutine S is
//	        parked inside that disconnect callback (impl 0 installed and alive); each call
//	        runs until it has returned or is blocked in the transport before the next starts:
//	          a<k>    the target answers with k updates and a sync            (Poll returns nil)
//	          n       the target never answers: Recv blocks until the Subscribe context ends
//	                  or the Impl is closed, then fails
//	          nb<N>   same, but once released the stream still hands out N buffered updates
//	          e       the transport's Poll (the Send of the poll request) fails
//	inj     where Close (with prefix x: cancellation of the caller's context, Close at the end)
//	        is injected:
//	          d<j>    inside the callback, before Poll call number j (j = number of calls:
//	                  after all of them); the remaining calls are made once Subscribe, Close
//	                  and the released Poll calls have returned
//	          h       after all Poll calls: the callback returns, the loop sleeps, calls reset
//	                  and re-dials; the dial (InitImpl of attempt 1) blocks until its context
//	                  ends; Close is called while it blocks (no buffered answers: nb0 only)
//
// `new` answers tr=<trace> (c u d s handler calls — those made on a Poll caller's goroutine
// included —, / disconnect, ^ reset, p a Poll call is issued, ! the injection), `ret` answers
// sub=<class> close=<class> polls=<class per call>, `mon` the monitors: deadline (Subscribe,
// Close or some Poll call did not return within the scaled deadline), afterclose (after Close RETURNED: more than one
// message handed to a Poll caller after Close was called, or any delivery on goroutine S, or any
// callback after Close returned), order, connfirst, disc, reset.
// The model side is lean/Gnmi/Model/ClientPoll.lean under the schedule of ClientPollRun.lean.

import (
	"context"
	"fmt"
	"math/rand"
	"os"
	"runtime"
	"strconv"
	"strings"
	"sync"
	"time"

	"github.com/openconfig/gnmi/client"
	gclient "github.com/openconfig/gnmi/client/gnmi"
	gpb "github.com/openconfig/gnmi/proto/gnmi"
	"google.golang.org/grpc"
)

type rpPoll struct {
	kind byte // 'a', 'n', 'e'
	k    int  // a: answers; n: buffered
}

type rpScenario struct {
	mode   string
	first  int
	polls  []rpPoll
	cancel bool
	dial   bool
	at     int
}

func rpParse(args []string) (*rpScenario, bool) {
	// args: new poll <mode> <first> <polls> <inj>
	if len(args) != 6 {
		return nil, false
	}
	s := &rpScenario{mode: args[2]}
	if s.mode != "rb" && s.mode != "rc" {
		return nil, false
	}
	num := func(t string) (int, bool) {
		if t == "" || (len(t) > 1 && t[0] == '0') {
			return 0, false
		}
		v, err := strconv.Atoi(t)
		return v, err == nil && v >= 0
	}
	var ok bool
	if s.first, ok = num(args[3]); !ok {
		return nil, false
	}
	if args[4] != "-" {
		for _, t := range strings.Split(args[4], ",") {
			switch {
			case t == "n":
				s.polls = append(s.polls, rpPoll{kind: 'n'})
			case t == "e":
				s.polls = append(s.polls, rpPoll{kind: 'e'})
			case strings.HasPrefix(t, "nb"):
				v, ok := num(t[2:])
				if !ok {
					return nil, false
				}
				s.polls = append(s.polls, rpPoll{kind: 'n', k: v})
			case strings.HasPrefix(t, "a"):
				v, ok := num(t[1:])
				if !ok {
					return nil, false
				}
				s.polls = append(s.polls, rpPoll{kind: 'a', k: v})
			default:
				return nil, false
			}
		}
	}
	in := args[5]
	if strings.HasPrefix(in, "x") {
		s.cancel = true
		in = in[1:]
	}
	switch {
	case in == "h":
		s.dial = true
		s.at = len(s.polls)
	case strings.HasPrefix(in, "d"):
		if s.at, ok = num(in[1:]); !ok {
			return nil, false
		}
	default:
		return nil, false
	}
	return s, true
}

// valid mirrors the model's bad-scenario answer (ClientPollRun.lean: runPScenario.valid).
func (s *rpScenario) valid() bool {
	if s.at > len(s.polls) {
		return false
	}
	if s.dial {
		for _, p := range s.polls {
			if p.kind == 'n' && p.k > 0 {
				return false
			}
		}
	}
	return true
}

func rpGid() uint64 {
	var buf [64]byte
	n := runtime.Stack(buf[:], false)
	f := strings.Fields(string(buf[:n]))
	if len(f) < 2 {
		return 0
	}
	v, _ := strconv.ParseUint(f[1], 10, 64)
	return v
}

type rpEvent struct {
	kind byte
	src  int // -1 goroutine S / harness, j >= 0 Poll caller j
}

type rpWorld struct {
	sc *rpScenario

	mu       sync.Mutex
	log      []rpEvent
	gids     map[uint64]int
	attempts int
	discs    int
	resets   int
	emitted  map[int][]int // per receiver (-1 goroutine S, j Poll caller j): sequence numbers handed out, in order
	seen     map[int][]int // per receiver: sequence numbers seen by the handler on that goroutine, in order
	nextSeq  int
	injected bool
	returned bool // Close has returned
	after    []int // per Poll call: messages handed out after the injection
	afterS   int   // messages handed to goroutine S after the injection

	parked     []chan struct{}
	parkedOnce []sync.Once
	atDial     chan struct{}
	dialOnce   sync.Once
	innerClose chan struct{}
	icOnce     sync.Once
	abandon    chan struct{}
	abOnce     sync.Once
}

func (w *rpWorld) who() int {
	w.mu.Lock()
	defer w.mu.Unlock()
	if j, ok := w.gids[rpGid()]; ok {
		return j
	}
	return -1
}

func (w *rpWorld) ev(k byte, src int) {
	w.mu.Lock()
	w.log = append(w.log, rpEvent{kind: k, src: src})
	w.mu.Unlock()
}

// rpStream is the scripted gpb.GNMIClient and its Subscribe stream (attempt 0).
type rpStream struct {
	grpc.ClientStream
	w         *rpWorld
	ctx       context.Context
	closed    chan struct{}
	closeOnce sync.Once
	mu        sync.Mutex
	n         int   // messages handed to goroutine S
	pn        []int // per Poll call: messages handed out
	gated     []bool
}

type rpImpl struct {
	*gclient.Client
	st *rpStream
}

func (i *rpImpl) Close() error {
	i.st.closeOnce.Do(func() { close(i.st.closed) })
	return nil
}

func (s *rpStream) Capabilities(context.Context, *gpb.CapabilityRequest, ...grpc.CallOption) (*gpb.CapabilityResponse, error) {
	return nil, errRcStream
}
func (s *rpStream) Get(context.Context, *gpb.GetRequest, ...grpc.CallOption) (*gpb.GetResponse, error) {
	return nil, errRcStream
}
func (s *rpStream) Set(context.Context, *gpb.SetRequest, ...grpc.CallOption) (*gpb.SetResponse, error) {
	return nil, errRcStream
}
func (s *rpStream) Subscribe(ctx context.Context, _ ...grpc.CallOption) (gpb.GNMI_SubscribeClient, error) {
	if ctx.Err() != nil {
		return nil, ctx.Err()
	}
	s.ctx = ctx
	return s, nil
}
func (s *rpStream) CloseSend() error         { return nil }
func (s *rpStream) Context() context.Context { return s.ctx }

func (s *rpStream) dead() bool {
	select {
	case <-s.closed:
		return true
	case <-s.ctx.Done():
		return true
	case <-s.w.abandon:
		return true
	default:
		return false
	}
}

func (s *rpStream) Send(req *gpb.SubscribeRequest) error {
	if req.GetPoll() == nil {
		return nil
	}
	j := s.w.who()
	if s.dead() { // the hypothesis of C18 on an Impl
		return errRcClosed
	}
	if j >= 0 && s.w.sc.polls[j].kind == 'e' {
		return errRcStream
	}
	return nil
}

func (s *rpStream) update(j int) *gpb.SubscribeResponse {
	w := s.w
	w.mu.Lock()
	defer w.mu.Unlock()
	q := w.nextSeq
	w.nextSeq++
	w.emitted[j] = append(w.emitted[j], q)
	if w.injected {
		if j >= 0 {
			// the property bounds what is delivered after Close has RETURNED.  Between the call and the return
			// ReconnectClient.Close cancels the Subscribe context first and marks the client closed second: a Poll
			// caller whose stream is released by the cancellation may be handed more than one buffered message in
			// that window (seen once under -race on a loaded machine: 2), which the property allows.
			if w.returned {
				w.after[j]++
			}
		} else {
			w.afterS++
		}
	}
	n := &gpb.Notification{Timestamp: int64(q + 1)}
	n.Update = append(n.Update, &gpb.Update{
		Path: &gpb.Path{Elem: []*gpb.PathElem{{Name: "u"}, {Name: strconv.Itoa(q)}}},
		Val:  &gpb.TypedValue{Value: &gpb.TypedValue_IntVal{IntVal: int64(q)}}})
	return &gpb.SubscribeResponse{Response: &gpb.SubscribeResponse_Update{Update: n}}
}

func rpSync() *gpb.SubscribeResponse {
	return &gpb.SubscribeResponse{Response: &gpb.SubscribeResponse_SyncResponse{SyncResponse: true}}
}

func (s *rpStream) wait() {
	select {
	case <-s.closed:
	case <-s.ctx.Done():
	case <-s.w.abandon:
	}
}

func (s *rpStream) Recv() (*gpb.SubscribeResponse, error) {
	w := s.w
	j := w.who()
	if j < 0 { // goroutine S: the first attempt's initial answer
		if s.dead() {
			return nil, errRcClosed
		}
		s.mu.Lock()
		n := s.n
		s.n++
		s.mu.Unlock()
		switch {
		case n < w.sc.first:
			return s.update(-1), nil
		case n == w.sc.first:
			return rpSync(), nil
		}
		s.wait()
		return nil, errRcClosed
	}
	p := w.sc.polls[j]
	s.mu.Lock()
	n, gated := s.pn[j], s.gated[j]
	s.mu.Unlock()
	if p.kind == 'n' {
		if !gated {
			s.mu.Lock()
			s.gated[j] = true
			s.mu.Unlock()
			w.parkedOnce[j].Do(func() { close(w.parked[j]) })
			s.wait()
		}
		if n < p.k { // buffered: handed out although the stream is dead
			s.mu.Lock()
			s.pn[j]++
			s.mu.Unlock()
			return s.update(j), nil
		}
		return nil, errRcClosed
	}
	// answered
	if s.dead() {
		return nil, errRcClosed
	}
	s.mu.Lock()
	s.pn[j]++
	s.mu.Unlock()
	switch {
	case n < p.k:
		return s.update(j), nil
	case n == p.k:
		return rpSync(), nil
	}
	s.wait()
	return nil, errRcClosed
}

func (w *rpWorld) initImpl(ctx context.Context, _ client.Destination) (client.Impl, error) {
	w.mu.Lock()
	a := w.attempts
	w.attempts++
	w.mu.Unlock()
	if a >= 1 {
		// the re-dial: blocks until its context ends (a ctx-honouring dial to a silent peer)
		if w.sc.dial && a == 1 {
			w.dialOnce.Do(func() { close(w.atDial) })
		}
		select {
		case <-ctx.Done():
		case <-w.abandon:
		}
		return nil, errRcClosed
	}
	if ctx.Err() != nil {
		return nil, ctx.Err()
	}
	np := len(w.sc.polls)
	st := &rpStream{w: w, closed: make(chan struct{}), pn: make([]int, np), gated: make([]bool, np)}
	return &rpImpl{Client: gclient.VerifNewScripted(st), st: st}, nil
}

func (w *rpWorld) handler(n client.Notification) error {
	k := byte('?')
	seq := -1
	switch v := n.(type) {
	case client.Connected:
		k = 'c'
	case client.Sync:
		k = 's'
	case client.Error:
		k = 'e'
	case client.Update:
		k = 'u'
		if len(v.Path) == 2 {
			seq, _ = strconv.Atoi(v.Path[1])
		}
	case client.Delete:
		k = 'd'
	}
	src := w.who()
	w.mu.Lock()
	w.log = append(w.log, rpEvent{kind: k, src: src})
	if k == 'u' {
		w.seen[src] = append(w.seen[src], seq)
	}
	w.mu.Unlock()
	return nil
}

type rpProbe struct {
	client.Client
	w *rpWorld
}

func (p *rpProbe) Close() error {
	p.w.icOnce.Do(func() { close(p.w.innerClose) })
	return p.Client.Close()
}

func rpRunScenario(sc *rpScenario) (trObs, retObs, monObs string, missed bool) {
	np := len(sc.polls)
	w := &rpWorld{sc: sc, gids: map[uint64]int{}, emitted: map[int][]int{}, seen: map[int][]int{}, after: make([]int, np), atDial: make(chan struct{}),
		innerClose: make(chan struct{}), abandon: make(chan struct{}), parkedOnce: make([]sync.Once, np)}
	for j := 0; j < np; j++ {
		w.parked = append(w.parked, make(chan struct{}))
	}
	rcScenarioNo++
	rcType := fmt.Sprintf("verif-rp-%d", rcScenarioNo)
	client.RegisterTest(rcType, w.initImpl)
	client.RetryBaseDelay, client.RetryMaxDelay = 2*time.Millisecond, 4*time.Millisecond
	client.RetryRandomization = 0.5
	deadline := 750*time.Millisecond + rcEps()

	var inner client.Client
	if sc.mode == "rb" {
		inner = &client.BaseClient{}
	} else {
		inner = client.New()
	}
	probe := &rpProbe{Client: inner, w: w}
	parent, cancelParent := context.WithCancel(context.Background())
	defer cancelParent()

	var top client.Client
	closeDone := make(chan struct{})
	var closeErr error
	var closeStarted sync.Once
	doClose := func() {
		closeStarted.Do(func() {
			go func() {
				closeErr = top.Close()
				w.mu.Lock()
				w.returned = true
				w.mu.Unlock()
				w.ev('$', -1)
				close(closeDone)
			}()
		})
	}
	pollDone := make([]chan struct{}, np)
	pollErr := make([]error, np)
	for j := range pollDone {
		pollDone[j] = make(chan struct{})
	}
	issue := func(j int) {
		w.ev('p', -1)
		go func() {
			w.mu.Lock()
			w.gids[rpGid()] = j
			w.mu.Unlock()
			pollErr[j] = top.Poll()
			close(pollDone[j])
		}()
	}
	inject := func(fromCallback bool) {
		w.mu.Lock()
		w.log = append(w.log, rpEvent{kind: '!', src: -1})
		w.injected = true
		w.mu.Unlock()
		if sc.cancel {
			cancelParent()
			return
		}
		doClose()
		if fromCallback {
			select { // until ReconnectClient.Close has left its critical section
			case <-w.innerClose:
			case <-w.abandon:
			}
		}
	}
	disconnect := func() {
		w.mu.Lock()
		k := w.discs
		w.discs++
		w.log = append(w.log, rpEvent{kind: '/', src: -1})
		w.mu.Unlock()
		if k != 0 {
			return
		}
		for j := 0; j < sc.at; j++ {
			issue(j)
			select { // until the call has returned or is blocked in the transport
			case <-pollDone[j]:
			case <-w.parked[j]:
			case <-w.abandon:
				return
			}
		}
		if !sc.dial {
			inject(true)
		}
	}
	reset := func() {
		w.mu.Lock()
		w.resets++
		w.log = append(w.log, rpEvent{kind: '^', src: -1})
		w.mu.Unlock()
	}
	top = client.VerifReconnect(probe, disconnect, reset)

	q := client.Query{Addrs: []string{"scripted"}, Queries: []client.Path{{"a"}}, Type: client.Poll,
		NotificationHandler: w.handler}
	subDone := make(chan struct{})
	var subErr error
	go func() {
		subErr = top.Subscribe(parent, q, rcType)
		close(subDone)
	}()
	timer := time.NewTimer(deadline)
	defer timer.Stop()
	hung := false
	wait := func(ch <-chan struct{}) bool {
		if hung {
			return false
		}
		select {
		case <-ch:
			return true
		case <-timer.C:
			hung = true
			return false
		}
	}
	if sc.dial {
		reachedOrDone := make(chan struct{})
		go func() {
			select {
			case <-w.atDial:
			case <-subDone:
			}
			close(reachedOrDone)
		}()
		if wait(reachedOrDone) {
			inject(false)
		}
	}
	subOK := wait(subDone)
	closeOK := true
	if !sc.cancel {
		if subOK {
			doClose() // (only if the injection never happened)
		}
		closeOK = wait(closeDone)
	}
	pollOK := make([]bool, np)
	for j := 0; j < sc.at; j++ {
		pollOK[j] = wait(pollDone[j])
	}
	for j := sc.at; j < np && !hung; j++ { // the calls made after everything has returned
		issue(j)
		pollOK[j] = wait(pollDone[j])
	}
	if sc.cancel && subOK {
		doClose()
		closeOK = wait(closeDone)
	} else if sc.cancel {
		closeOK = false
	}
	if hung {
		missed = true
		buf := make([]byte, 1<<20)
		fmt.Fprintf(os.Stderr, "=== rc poll: deadline missed; goroutines:\n%s\n", buf[:runtime.Stack(buf, true)])
		w.abOnce.Do(func() { close(w.abandon) })
		cancelParent()
	}

	// ---- observation and monitors ----
	w.mu.Lock()
	log := append([]rpEvent(nil), w.log...)
	emittedBy, seenBy := map[int][]int{}, map[int][]int{}
	for k, v := range w.emitted {
		emittedBy[k] = append([]int(nil), v...)
	}
	for k, v := range w.seen {
		seenBy[k] = append([]int(nil), v...)
	}
	after := append([]int(nil), w.after...)
	afterS := w.afterS
	discs, resets := w.discs, w.resets
	w.mu.Unlock()
	var tr strings.Builder
	injectedAt, shown := false, map[int]int{}
	for _, e := range log {
		switch e.kind {
		case 'c', 'u', 'd', 's', 'e', '/', '^', '!', 'p', '?':
			if e.kind == '!' {
				injectedAt = true
			}
			if injectedAt && e.kind == 'u' && e.src >= 0 && !sc.cancel {
				// how many buffered messages a released Poll caller is handed between the call of Close and its
				// return depends on the schedule (see rpStream.update): the trace shows the first one; the
				// afterclose monitor bounds what comes after the return
				if shown[e.src]++; shown[e.src] > 1 {
					continue
				}
			}
			tr.WriteByte(e.kind)
		}
	}
	var bad []string
	add := func(s string) {
		for _, b := range bad {
			if b == s {
				return
			}
		}
		bad = append(bad, s)
	}
	if hung {
		add("deadline")
	}
	// Connected first and once (a single stream)
	first := true
	for _, e := range log {
		switch e.kind {
		case 'c':
			if !first {
				add("connfirst")
			}
			first = false
		case 'u', 'd', 's', 'e':
			if first {
				add("connfirst")
			}
		}
	}
	// order: on every receiving goroutine (S, each Poll caller) the handler sees exactly the leaves the
	// stream handed to that goroutine, in that order (two released Poll callers run concurrently: there is
	// no order between their deliveries)
	for src := -1; src < np; src++ {
		seen, emitted := seenBy[src], emittedBy[src]
		if len(seen) > len(emitted) {
			add("order")
			continue
		}
		for i := range seen {
			if seen[i] != emitted[i] {
				add("order")
				break
			}
		}
		if !hung && len(seen) != len(emitted) {
			add("order")
		}
	}
	for src := range seenBy {
		if src < -1 || src >= np {
			add("order")
		}
	}
	// after Close RETURNED: at most one further message per Poll caller; after Close was called: none on goroutine S;
	// after Close returned: no callback and no delivery on goroutine S
	if !sc.cancel {
		for _, a := range after {
			if a > 1 {
				add("afterclose")
			}
		}
		if afterS > 0 {
			add("afterclose")
		}
		ret := false
		for _, e := range log {
			switch e.kind {
			case '$':
				ret = true
			case '/', '^':
				if ret {
					add("afterclose")
				}
			case 'c', 'u', 'd', 's', 'e':
				if ret && e.src < 0 {
					add("afterclose")
				}
			}
		}
	}
	if !hung {
		wd, wr := 1, 0
		if sc.dial {
			wd, wr = 2, 1
		}
		if discs != wd {
			add("disc")
		}
		if resets != wr {
			add("reset")
		}
	}
	sub, cl := "hang", "hang"
	if subOK {
		sub = rcClass(subErr)
	}
	if closeOK {
		cl = rcClass(closeErr)
	}
	var pc []string
	for j := 0; j < np; j++ {
		if pollOK[j] {
			pc = append(pc, rcClass(pollErr[j]))
		} else {
			pc = append(pc, "hang")
		}
	}
	ps := "-"
	if len(pc) > 0 {
		ps = strings.Join(pc, ",")
	}
	mon := "ok"
	if len(bad) > 0 {
		mon = strings.Join(bad, "+")
	}
	trace := tr.String()
	if trace == "" {
		trace = "-"
	}
	if len(trace) > 120 {
		trace = fmt.Sprintf("%s...(%d)", trace[:120], len(trace))
	}
	return "tr=" + trace, fmt.Sprintf("sub=%s close=%s polls=%s", sub, cl, ps), mon, missed
}

// pollRun is the `rc new poll …` arm of rcComp.Run.
func (c *rcComp) pollRun(args []string) string {
	sc, ok := rpParse(args)
	if !ok {
		return "bad-op"
	}
	if !sc.valid() {
		return "bad-scenario"
	}
	rcRunMu.Lock()
	defer rcRunMu.Unlock()
	if rcMisses >= 6 {
		return "skipped-after-6-hangs"
	}
	tr, ret, mon, missed := rpRunScenario(sc)
	if missed && rcMisses == 0 {
		// as for the other rc scenarios: the first miss of a process is run once more, to tell a
		// hang of the code under test (it repeats) from a stall of the machine
		fmt.Fprintf(os.Stderr, "rc poll: deadline missed (%s %s) in: %s; re-running once\n", ret, mon, strings.Join(args, " "))
		tr2, ret2, mon2, missed2 := rpRunScenario(sc)
		if !missed2 {
			rcFlakes++
		}
		tr, ret, mon, missed = tr2, ret2, mon2, missed2
	}
	if missed {
		rcMisses++
	}
	c.ret, c.mon = ret, mon
	return tr
}

// ---- generation ----

func rpPollStr(p rpPoll) string {
	switch p.kind {
	case 'e':
		return "e"
	case 'a':
		return "a" + strconv.Itoa(p.k)
	}
	if p.k == 0 {
		return "n"
	}
	return "nb" + strconv.Itoa(p.k)
}

func rpLine(mode string, first int, polls []rpPoll, inj string) []string {
	ps := "-"
	if len(polls) > 0 {
		var f []string
		for _, p := range polls {
			f = append(f, rpPollStr(p))
		}
		ps = strings.Join(f, ",")
	}
	return []string{fmt.Sprintf("new poll %s %d %s %s", mode, first, ps, inj), "ret", "mon"}
}

func rpGen(r *rand.Rand) []string {
	for {
		mode := []string{"rc", "rc", "rb"}[r.Intn(3)]
		np := r.Intn(3)
		var polls []rpPoll
		for j := 0; j < np; j++ {
			switch r.Intn(6) {
			case 0:
				polls = append(polls, rpPoll{kind: 'e'})
			case 1, 2:
				polls = append(polls, rpPoll{kind: 'a', k: r.Intn(3)})
			case 3:
				polls = append(polls, rpPoll{kind: 'n', k: 1 + r.Intn(3)})
			default:
				polls = append(polls, rpPoll{kind: 'n'})
			}
		}
		x := ""
		if r.Intn(4) == 0 {
			x = "x"
		}
		inj := fmt.Sprintf("%sd%d", x, r.Intn(np+1))
		if r.Intn(3) == 0 {
			inj = x + "h"
		}
		line := rpLine(mode, r.Intn(3), polls, inj)
		if sc, ok := rpParse(strings.Fields(line[0])); ok && sc.valid() {
			return line
		}
	}
}

// rpExhaustive: every sequence of up to 2 Poll calls over {a0, a1, n, nb1, nb2, e} (quick: a1, n,
// nb2, e), every injection point, Close and cancellation.
func rpExhaustive(tier string) [][]string {
	kinds := []rpPoll{{kind: 'a', k: 1}, {kind: 'n'}, {kind: 'n', k: 2}, {kind: 'e'}}
	if tier == "thorough" {
		kinds = append(kinds, rpPoll{kind: 'a'}, rpPoll{kind: 'n', k: 1})
	}
	var seqs [][]rpPoll
	seqs = append(seqs, nil)
	for _, a := range kinds {
		seqs = append(seqs, []rpPoll{a})
		for _, b := range kinds {
			seqs = append(seqs, []rpPoll{a, b})
		}
	}
	var out [][]string
	for _, mode := range []string{"rc", "rb"} {
		for _, polls := range seqs {
			if mode == "rb" && tier != "thorough" && len(polls) == 2 {
				continue
			}
			for _, x := range []string{"", "x"} {
				var injs []string
				for j := 0; j <= len(polls); j++ {
					injs = append(injs, fmt.Sprintf("%sd%d", x, j))
				}
				injs = append(injs, x+"h")
				for _, in := range injs {
					line := rpLine(mode, 1, polls, in)
					if sc, ok := rpParse(strings.Fields(line[0])); ok && sc.valid() {
						out = append(out, line)
					}
				}
			}
		}
	}
	return out
}
